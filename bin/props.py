"""Per-property configuration of bin/check (DESIGN.md section 6)."""

COMMON_TRUSTED = [
    "Coq 8.16.1 kernel (coqc) incl. its vm_compute conversion; no native_compute",
    "no axioms declared by the development (scanned on every run); Print Assumptions output recorded per theorem",
    "tools/gen translator (go/parser pretty-printer of struct declarations, tags, tables, literals)",
    "hand-written Gallina model, tied to /repo by the correspondence run of this check (same inputs, canonicalised outputs)",
    "Go harness (generation, canonicalisation, printing of Coq case files), Go 1.23.5 runtime",
]

PROPS = {
    "C12": {
        "engine": "codec",
        "properties_file": "Properties/C12.v",
        "model_files": ["Model/BCD.v", "Model/Cases12.v"],
        "technique": "Coq proof by induction over strings/byte lists; model tied by differential run of bcd.Encode/Decode",
        "level_text": "Eight theorems (Properties/C12.v) prove, for all byte strings and byte slices, that the Gallina model of bcd.go equals the BCD specification, rejects every non-digit / nibble > 9, and that encode/decode are mutually inverse; the model is compared with bcd.Encode/Decode on exhaustive small inputs and random long ones on every run, and the specification oracle is evaluated on the implementation's outputs.",
        "level_note": "Trusted: Coq kernel + vm_compute; the hand-written model of bcd.go (strings as byte lists; Go's rune loop modelled byte-wise) as far as the correspondence run exercises it; the Go harness and its printing of Coq case terms. No axioms (Print Assumptions: closed under the global context for all eight).",
        "rule": "bcd.Encode on all strings <= 3 (quick) / <= 5 (thorough) over a 12-symbol alphabet (ten digits, one ASCII "
                "non-digit, one byte >= 0x80), boundary and multi-byte/invalid UTF-8 strings, random long digit strings with "
                "one random byte; bcd.Decode on all slices <= 1 (<= 2 thorough) bytes, sampled 2/3-byte and long slices. "
                "A case is non-trivial when its input is non-empty; distinct = distinct Coq case terms (input+observed output).",
        "trusted_base": ["byte-wise model of Go's rune iteration (any byte >= 0x80 belongs to a non-digit rune): exercised by the multi-byte stream"],
        "assumptions": ["strings are modelled as byte lists"],
    },
}

PROPS["C18"] = {
    "engine": "codec",
    "properties_file": "Properties/C18.v",
    "model_files": ["Model/WireTypes.v", "Model/Codec.v", "Model/Interp.v", "Model/Cases18.v", "Spec/WireSpec.v", "Spec/CodecSpec.v"],
    "technique": "Coq proof by induction over arbitrary layout descriptors (all programs of the tag grammar); model tied by differential run on reflect.StructOf layouts",
    "level_text": "Twelve theorems quantified over ALL well-formed layouts, all in-domain values and all byte strings: Marshal writes exactly "
                  "the pointwise protocol image (each field's bytes at its offset, tags in the header, zero elsewhere) and never panics; "
                  "Unmarshal never panics, fails only for bad length/header/tag/out-of-domain field and returns the protocol decoding; "
                  "round trip; injectivity; frame; tag spellings (256x4 enumeration). The Gallina model is compared on every run with the "
                  "real codec on struct types built with reflect.StructOf from the same descriptors (every kind x boundary/all offsets, "
                  "packed, embedded, tag spellings, non-wf layouts, mutated and random payloads), with a mutate-input-afterwards aliasing probe.",
    "level_note": "Trusted: Coq kernel + vm_compute (tag-spelling and decimal-format enumerations); the hand-written model of the reflection "
                  "walk and of the 19 field kinds (time values modelled by civil fields, TZ=UTC instance) as far as the correspondence run "
                  "exercises it; the harness' construction of struct types and printing of values. Aliasing (decoded values sharing the "
                  "input buffer) is decided by the harness probe, not by a theorem: the functional model cannot express sharing.",
    "rule": "layouts: every kind at boundary offsets (thorough: every offset 0..66), random packed 1..12 fields, one level of embedding, "
            "tag spellings, unsupported/overlapping/headerless layouts; per layout 3 value sets (every third from the edge pool), decode of "
            "the encoding, of a one-byte mutation and of a random payload; wrong lengths and SOM bytes. Non-trivial = layout has >= 1 field "
            "and (for decode) the buffer passes the length/SOM gate; distinct = distinct Coq case terms.",
    "env": {"TZ": "UTC"},
    "assumptions": ["process time zone UTC for this stream (zone dependence is C13's and C05's)"],
}
PROPS["C05"] = {
    "engine": "codec",
    "properties_file": "Properties/C05.v",
    "model_files": ["Model/WireTypes.v", "Model/Codec.v", "Model/Interp.v", "Model/Cases18.v", "Model/Messages.v", "Model/Cases05.v", "Gen/Layouts.v"],
    "gen_obligations": ["Proofs/LayoutProps.v:shipped_wf", "Proofs/LayoutProps.v:shipped_gate", "Proofs/LayoutProps.v:shipped_names_unique", "Proofs/LayoutProps.v:requests_ok", "Proofs/LayoutProps.v:responses_ok"],
    "technique": "Coq: generic codec theorems instantiated on layouts/tables regenerated from messages/*.go each run (vm_compute obligations); differential run on all 65 message types under several time zones",
    "level_text": "Seven theorems about the layouts and dispatch tables REGENERATED from /repo/messages on every run: every shipped struct is a "
                  "well-formed layout, every table entry names a struct whose MsgType tag is its key (keys distinct), hence (instances of the "
                  "generic C18 theorems) encode/decode round trip, injectivity and the frame property for all 65 types and all in-domain "
                  "values, and the exact success/failure conditions of UnmarshalRequest/UnmarshalResponse for all byte strings. The model is "
                  "compared with the real Marshal/Unmarshal/dispatchers on all 65 types, all 256 function codes, all lengths 0..128, with "
                  "the process zone switched (time.Local) through 12 (quick) / all installed (thorough) IANA zones.",
    "level_note": "Trusted: Coq kernel + vm_compute; translator tools/gen (prints struct declarations, tags, table literals); the model of the "
                  "codec (as C18). Zone independence is tied by running the zone-free model against the implementation under each zone "
                  "(civil date-times that do not exist in the zone are not generated - the property exempts them); the theorem-level "
                  "zone argument is C13's (go_date_existing).",
    "rule": "per zone: each message type with time-valued fields (all 65 under UTC) x value sets (every 4th from the edge pool) -> Marshal,  Plus: every date-bearing message decoded with its dates on each zone's offset-change days and at round instants (1970, 2000, 1e9 s, 2^31-1 s) seen from each zone; Go-side field-by-field round trip; encodings overwritten and re-encoded."
            "Unmarshal of the encoding, of a one-byte mutation and of the encoding with random bytes outside all fields; dispatchers on all "
            "256 codes x 3 protocol ids, all lengths 0..128, real encodings and random payloads. Non-trivial = 64-byte buffer / any marshal; "
            "distinct = distinct Coq case terms.",
    "assumptions": ["time.Local is reassigned inside the harness process to switch zones"],
}
API_TRUST = ["model of the 32 operations, sendto/broadcast and the routing closure (Model/Ops.v), tied by the hooked-driver correspondence run",
             "the hook uhppote.NewWithDriver (build tag verif) substitutes a recording, scripted driver for ut0311; the real socket driver is exercised by the net engine (C03, C06, C08-C11)"]

PROPS["C01"] = {
    "engine": "api", "properties_file": "Properties/C01.v", "model_files": ["Model/WireTypes.v", "Model/Codec.v", "Model/Interp.v", "Model/Ops.v", "Model/CasesApi.v", "Spec/Protocol.v", "Spec/ApiSpec.v", "Gen/Layouts.v"], "env": {"TZ": "UTC"},
    "gen_obligations": ["Proofs/ApiProofs.v:proto_match (generated request layouts = flat protocol description, per operation)", "Proofs/ApiProofs.v:proto_wf"],
    "technique": "Coq: generated request layouts proved equal to a flat protocol description; generic codec image theorem; differential run through a recording driver incl. call histories",
    "level_text": "For all 32 operations and all in-domain argument values: the request struct the operation fills (GENERATED layout, fields by name) is field for field the flat protocol description (proto_match, re-proved against the regenerated layouts every run), hence by the generic C18 image theorem the bytes handed to the driver are exactly proto_request (0x17, function code, serial LE at 4, arguments at their offsets, zero elsewhere); exactly one driver call; sequences of calls send the concatenation of what each call alone sends. The model is compared with the implementation through a recording driver on generated calls and on histories on one client and on two clients used alternately.",
    "level_note": "Trusted: Coq kernel; translator; Model/Ops.v's transcription of uhppote/*.go (checked by the correspondence run: returned values and recorded driver calls must equal the model's); SetTime is modelled on the civil fields of the argument in its own location. History-independence is a theorem of the (stateless) model; that the implementation is stateless too is what the history streams test.",
    "rule": "every operation x rounds with generated ids/arguments/configurations and a valid (1 in 10: mutated) reply; GetDevices with 0-3 replies; histories of 6-15 calls on one client and two clients alternately. Non-trivial = controller id != 0; distinct = distinct Coq case terms. Plus: SetTime under four HOST zones with arguments in other Locations around the host's clock changes; dates around year ends.",
    "trusted_base": API_TRUST,
}
PROPS["C06"] = {
    "engine": "api", "properties_file": "Properties/C06.v", "model_files": ["Model/WireTypes.v", "Model/Codec.v", "Model/Interp.v", "Model/Ops.v", "Model/CasesApi.v", "Spec/Protocol.v", "Spec/ApiSpec.v", "Gen/Layouts.v"], "env": {"TZ": "UTC"},
    "technique": "Coq: routing closure proved equal to the specification's routing function for all configurations; differential run through a recording driver over generated configurations",
    "level_text": "For every client configuration (any list of controllers with later duplicates winning, any protocol string, valid / 0.0.0.0 / port-0 / absent addresses, broadcast address set or not) and every operation the endpoint and transport chosen by sendto equal spec_route; exactly one driver call per accepted call, none for a rejected one; discovery broadcasts. Tied by the recording driver over generated configurations (0-4 controllers, duplicates, 7 protocol strings, 5 address classes, 4 broadcast ports).",
    "level_note": "Trusted: as C01. Partial: that the ut0311 driver performs exactly one write from the configured bind address and that no other endpoint hears it is observed by the net engine on loopback sockets, not proved.",
    "rule": "as C01 with a generated configuration for every call. Non-trivial = id != 0. Plus: call histories on one client with SetAddress early; controllers configured at the broadcast address; a socket-level stream (real driver, loopback farm recording source address, transport and count per call for four bind addresses, SetAddress included).",
    "trusted_base": API_TRUST,
}
PROPS["C07"] = {
    "engine": "api", "properties_file": "Properties/C07.v", "model_files": ["Model/WireTypes.v", "Model/Codec.v", "Model/Interp.v", "Model/Ops.v", "Model/CasesApi.v", "Spec/Protocol.v", "Spec/ApiSpec.v", "Gen/Layouts.v"], "env": {"TZ": "UTC"},
    "technique": "Coq: guards of all operations proved equivalent to the property's validity predicate (digit-string Wiegand-26 test = arithmetic rule for all card numbers); differential run on boundary pools",
    "level_text": "accepted o = valid_args o for all 32 operations and all argument tuples - including, by induction over the decimal digit strings, that the code's Sprintf/Atoi Wiegand-26 test equals facility<=255 /\\ number<=65535 for every card number; a rejected call sends nothing and fails; an accepted call sends exactly the C01 request; passcode clamping. Tied by the recording driver with boundary pools (card numbers around 10^8, 2^24-1, facility 255/256 x number 65535/65536, PIN 999999/1000000, doors 0/1/4/5, IPv6 / IPv4-mapped / zoned listener addresses, nil/short IPs, missing segments, end<start).",
    "level_note": "Trusted: as C01.",
    "rule": "every operation x rounds, every second round from the edge pools, guard-bearing operations (PutCard, SetListener, SetAddress, SetDoorPasscodes, SetTimeProfile) drawn three times more often; id 0 in 1 of 8 calls. Non-trivial = id != 0.",
    "trusted_base": API_TRUST,
}

PROPS["C02"] = {
    "engine": "api", "properties_file": "Properties/C02.v", "env": {"TZ": "UTC"},
    "model_files": ["Model/WireTypes.v", "Model/Codec.v", "Model/Interp.v", "Model/Ops.v", "Model/CasesApi.v", "Spec/Protocol.v", "Spec/ApiSpec.v", "Spec/ReplySpec.v", "Gen/Layouts.v"],
    "gen_obligations": ["Proofs/ReplyProofs.v:resp_match (generated reply layouts = flat protocol table, per operation)", "Proofs/ReplyProofs.v:resp_wf", "Proofs/ReplyE2E.v:ok_case (field names used by the result mappers resolve in the generated structs)"],
    "technique": "Coq: generated reply layouts proved equal to a flat protocol table; per-field decoder = protocol decoding for all byte strings; end-to-end theorem (API result admitted by the flat reply specification for all payloads, all operations); the same specification evaluated as oracle on the implementation's results",
    "level_text": "Proved END TO END (C02_reply_interpreted, C02_api_result_admitted): for every operation, every configuration and ALL payloads behind a correct 8-byte header, the result the API model computes from the decoded reply is admitted by the flat protocol specification Spec/ReplySpec.v (which reads bytes by offset and names no struct or field): every result field is the protocol decoding of its bytes, the sentinels (card 0/0xffffffff, event index 0, type 0xff, profile 0), echo checks, 'status event iff index != 0' and address completion are honoured, a field outside its domain makes the call fail or comes back as its 'no value', decoding never panics. Ingredients, each a theorem of its own: the reply struct of each of the 31 operations (regenerated from messages/*.go every run) is the flat protocol table; for every field kind and ALL byte strings of its width the decoder's verdict equals the protocol decoding; only a 64-byte datagram with the addressed serial number is decoded. Tie: the same specification is evaluated as the oracle on every result the implementation returns, incl. a stream decoded under daylight-saving zones on the days of the change.",
    "level_note": "Trusted: as C01; the flat reply specification Spec/ReplySpec.v (hand-written from the protocol table and the property text).",
    "rule": "every reply-bearing operation x rounds: a valid reply (echo/sentinel fields forced to requested / 0 / 0xffffffff / other), then per field of the reply struct: byte fields over a boundary pool (thorough: all 256 values), HH:mm byte pairs (boundary + random), 20 date patterns (valid shapes, day/month 0/13/32, Feb 29/30, nibbles A-F in each position, 00000000, 00010101), date-time x time patterns, system date/time patterns, bit-walks/zero/all-ones of multi-byte integers, random and sparse-random payloads; GetStatus also with protocol id 0x19. Non-trivial = all (header correct); distinct = distinct Coq case terms. Plus: replies decoded under daylight-saving zones on the days of the change; all date fields zero / impossible / non-decimal at once; date pairs a coarse cache key would confuse; every sixth call repeated after the caller overwrote the first result.",
    "trusted_base": API_TRUST,
}

PROPS["C03"] = {
    "engine": "api", "properties_file": "Properties/C03.v", "env": {"TZ": "UTC"}, "model_files": ["Model/WireTypes.v", "Model/Codec.v", "Model/Interp.v", "Model/Ops.v", "Model/CasesApi.v", "Spec/Protocol.v", "Spec/ApiSpec.v", "Spec/ReplySpec.v", "Spec/RecvSpec.v", "Gen/Layouts.v"],
    "technique": "Coq: theorems over all finite datagram sequences about sendto and the broadcast filter; differential run of exhaustive short class sequences through a recording driver on the three paths",
    "level_text": "Proved for every configuration, operation and finite sequence of datagrams: a non-error result is based on a delivered datagram that arrived, is 64 bytes long, passes the protocol-id gate (0x17, or 0x19 with function 0x20), carries the operation's function code and serial number S, and the result is the decoding of exactly that datagram; on the broadcast path any prefix of wrong-length / other-serial datagrams is skipped and the result is a function of the first accepted datagram only; on every path a delivered wrong-length or wrong-serial datagram, a wrong protocol id or a wrong function code fails the call. Tied by exhaustive class sequences (9 classes, length <= 2 quick / <= 3 thorough) and random longer ones through the recording driver on the broadcast, UDP and TCP routes, with the C02 reply oracle deciding the accepted datagram's interpretation.",
    "level_note": "Partial: the receive loops of the real ut0311 driver (deadline, one read per datagram, SetAddress returning without reading) are modelled in Model/Driver.v and exercised on loopback sockets by the net engine; what the kernel delivers is observed, not proved. Trusted: as C01.",
    "rule": "per path x sampled operation (GetStatus always): all sequences over the 9 datagram classes up to the length bound, random sequences of 3-12, and a driver error. Non-trivial = at least one datagram. Plus a socket-level stream: the real ut0311 driver against a loopback controller that answers with 10 kinds of malformed reply (63/65/128/1024 bytes, other serial, other function, SOM 0x18/0x19, empty, split 40+24) on all three paths, with and without debug mode.",
    "trusted_base": API_TRUST,
}
PROPS["C11"] = {
    "engine": "api", "properties_file": "Properties/C11.v", "env": {"TZ": "UTC"}, "model_files": ["Model/WireTypes.v", "Model/Codec.v", "Model/Interp.v", "Model/Ops.v", "Model/CasesApi.v", "Spec/Protocol.v", "Spec/ApiSpec.v", "Spec/ReplySpec.v", "Spec/RecvSpec.v", "Gen/Layouts.v"],
    "technique": "Coq: discovery = order-preserving filter-map over any reply sequence (induction via flat_map), noise-insertion theorem; differential run with reply multisets and interleaved malformed datagrams",
    "level_text": "Proved for all reply sequences: GetDevices never fails because of what arrived; the result of a concatenation is the concatenation of the results (arrival order, duplicates kept); a datagram that does not decode contributes nothing wherever it is inserted; a decodable 64-byte reply contributes exactly one entry, the protocol decoding of that reply with the address completed by the broadcast port and the configured name. Tied by generated multisets (0-12 replies, duplicate serials, permutations) with wrong-length / wrong-id / wrong-function / bad-BCD datagrams interleaved; the oracle walks replies and entries in lockstep (a BCD-valid but impossible date may be listed with the zero date or dropped).",
    "level_note": "Partial: the collecting loop of ut0311.Broadcast (everything that arrives before the timeout) is exercised on loopback sockets by the net engine. Trusted: as C01.",
    "rule": "generated discovery rounds; non-trivial = at least one datagram; distinct = distinct Coq case terms. Plus a socket-level stream: real Broadcast on loopback, six controllers and a factory-blank one answering, with non-reply datagrams in between.",
    "trusted_base": API_TRUST,
}

PROPS["C16"] = {
    "engine": "text", "properties_file": "Properties/C16.v", "env": {"TZ": "UTC"},
    "model_files": ["Model/Order.v", "Spec/OrderSpec.v", "Model/Cases16.v"],
    "technique": "Coq: strict-total-order laws by linear arithmetic over unbounded integers; differential run of Before/After/Equals and the segment guard",
    "level_text": "Eleven theorems over ALL integers (so all dates, all 1441^2 HH:mm pairs, all instants): trichotomy, transitivity, After = mirrored Before, agreement with the lexicographic order on (y,m,d) / (h,m), Equals = identity of the fields, DateTime.Before = comparison of whole-second timestamps for instants from 1970 on (Go's truncating division modelled with Z.quot), and the time-profile guard accepts a segment iff its end is not before its start. The model of the nested-if comparison code is compared with Date/HHmm/DateTime methods and with SetTimeProfile (recording driver) on every run.",
    "level_note": "Trusted: Coq kernel; transcription of the comparison methods (Model/Order.v); dates are compared through Year/Month/Day of values built in UTC (their zone-dependent construction is C13's).",
    "rule": "all adjacent-day pairs around month/year boundaries of 9 years in both directions, random date pairs with perturbations, 12x12 HH:mm boundary pairs (+ as profile segments), random HH:mm pairs, out-of-domain HH:mm, date-time pairs straddling second boundaries by -1001..1001 ms, random near pairs. Non-trivial = the two values differ; distinct = distinct Coq case terms.",
}

PROPS["C15"] = {
    "engine": "text", "properties_file": "Properties/C15.v", "env": {"TZ": "UTC"},
    "model_files": ["Model/Addr.v", "Model/Cases15.v"],
    "technique": "Coq: model of the parsers incl. the two unanchored regular expressions (matcher proved equal to its denotation) and netip's IPv4 / port parsing; canonical-form theorems for all addresses, ports and roles; differential run incl. all strings over a small alphabet",
    "level_text": "Proved for all four roles, all 2^32 addresses and all 2^16 ports: a.b.c.d:port in canonical decimal is accepted iff the role's port rule holds and yields exactly that address and port; a.b.c.d alone gets the role's default port (listen: rejected); every string containing no dotted quad is rejected (the list-of-successes regex matcher is proved equivalent to the denotation 'some substring is d{1,3}.d{1,3}.d{1,3}.d{1,3}'); parse (format x) = x for every accepted x. Octet scanning is proved through an enumeration of the 256 octet numerals lifted to arbitrary surrounding text; decimal port numerals by induction on the digit string. The model is compared with ParseBindAddr/ParseBroadcastAddr/ParseListenAddr/ParseControllerAddr and String() on every run.",
    "level_note": "Trusted: Coq kernel + vm_compute (256-octet enumeration); the hand model of regexp.MatchString for the two patterns and of netip.ParseAddrPort/ParseAddr/parseIPv4 (Go 1.23) and strconv.ParseUint(.,10,16); inputs that reach netip's IPv6 parser or the bracket syntax are Unknown in the model and unconstrained by the property.",
    "rule": "per role: canonical forms and near misses (19 octet spellings x 4 positions x 18 port spellings), all strings <= 4 (thorough <= 6) over {0,1,9,.,:,a}, quads embedded in surrounding text, IPv6-looking strings, random single-character mutations of valid addresses, String() of generated addresses and parse of the formatted text. Non-trivial = non-empty string; distinct = distinct Coq case terms.",
}

PROPS["C14"] = {
    "engine": "text", "properties_file": "Properties/C14.v", "env": {"TZ": "UTC"},
    "model_files": ["Model/TextForms.v", "Model/TextComposites.v", "Model/Cases14.v", "Model/Addr.v"],
    "technique": "Coq: model of every MarshalJSON/UnmarshalJSON and String()/parser pair over JSON value trees; round-trip theorems for all in-domain values (digit formatting by complete enumeration lifted to arbitrary surrounding text, addresses via the C15 theorems), rejection theorems, a refutation theorem for the known finding; differential run through the real encoding/json under 10 (thorough: all installed) process zones",
    "level_text": "Proved (32 theorems): decoding the encoding returns the value for every calendar date of years 1..9999, every date-time with ANY non-empty zone abbreviation (so -03, +0545 and every name), all 1441 HH:mm values, all PINs 0..999999, the three control states, the 13 task types (name form, also through the text parser), all 65536 versions, all 2^48 MAC addresses, all addresses x allowed ports of the four address types, all 128 weekday sets, every Segments value without a gap decoded into a nil map; every card (any number, both dates, door values 0..255, PIN 0..999999), time profile and task whose maps are the ones the library builds (doors 1..4, seven weekdays, segments 1..3); and for the text forms String() -> ParseDate / HHmmFromString / TimeFromString / UnmarshalTSV / CardFormatFromString. Rejections: every dddd-dd-dd that is not a calendar date, every date-time with an impossible date or time of day whatever follows it, every two-digit hh:mm beyond 24:00 or with minutes above 59, PINs longer than six characters, every text that is not one of the three control states, task type numbers outside 1..13, forbidden ports per role; the executable reject oracle applied to the harness cases is proved sound for the model. The full statement is REFUTED for Segments values with a gap (theorem C14_segments_gap_refuted; known finding F15). Tie: every generated value goes through json.Marshal and json.Unmarshal into a fresh zero variable (nil maps) under each process zone; the model must produce the same JSON tree and the same decoded value - scalars, maps and the composites Card, TimeProfile, Task alike.",
    "level_note": "Domain notes: a Card without dates is outside the JSON domain (Card.UnmarshalJSON demands both dates; TimeProfile and Task accept the zero date); composite maps with other key sets than the library's own (doors beyond 1..4, partial weekday maps) are compared observationally on the Go side only. encoding/json's text<->tree step and Go's zone-abbreviation parsing are exercised, not modelled (the model accepts any text after the civil prefix, as the repaired code does). F12 (nil-map panic) and F13 (+0545-style abbreviations) were found by this check and repaired; F15 (Segments with a gap) is a known finding: the library's own test pins the encoding that loses the positions. Trusted: Coq kernel + vm_compute (enumerations of 100/10000 numerals, 65536 versions, 256 bytes, 128 weekday sets); hand transcription of types/*.go JSON and text methods.",
    "rule": "per zone: random dates, date-times (abbreviation taken from Go), composites; once: HH:mm, PIN boundaries, control states 0..5, task types, versions, MACs, 4x40 addresses with boundary ports, weekday sets, segments (incl. nil and gapped maps), String()->parser round trips, and the listed boundary texts for every parser. Non-trivial = every round trip and every non-empty text; distinct = distinct Coq case terms. Plus: dates and noon date-times on each zone's offset-change days, both occurrences of each repeated hour compared as instants, String()->parser round trips on those days, every decoded value re-checked at the end of the run.",
}

PROPS["C13"] = {
    "engine": "text", "properties_file": "Properties/C13.v", "env": {"TZ": "UTC"},
    "model_files": ["Model/GoTime.v", "Model/Cases13.v"],
    "technique": "Coq: theorems over an abstract zone offset function (every zone with offset changes further apart than its offsets are large), calendar inverse for all years by one-era enumeration + periodicity; differential run with zone tables extracted from Go",
    "level_text": "Proved for every zone satisfying the window hypothesis (not a list of zones): time.Date returns an instant whose wall-clock reading is the requested one whenever such an instant exists; hence a date-time decoded from the wire, and the status system date+time recombination, report exactly the transmitted fields when that civil time exists; the date constructor (first whole hour of the day that reads back the requested day) reports exactly the requested year/month/day unless every whole hour of the day is missing; the Gregorian day count is inverted for all years (146 097-day era by kernel evaluation, periodicity by lia); the pre-repair constructor (local midnight) is refuted by a witness zone/day. Tie: per process zone (36 quick / all installed thorough) the harness extracts the offset table from Go (6 h stepping + bisection, never ZoneBounds), the model is evaluated with that table and compared with ToDate, ParseDate, the Date wire and JSON decoders, the DateTime wire decoder and GetStatus on all days around offset changes (all midnight-skipping ones found), boundaries and random values.",
    "level_note": "Trusted: Coq kernel + vm_compute (era enumeration); the model of time.Date / Format / ParseInLocation (go_date u0 = u0 - off(u0 - off u0), valid when Go's reported zone interval lies inside the true constant-offset interval); the zone tables are measured from the Go runtime, and that each satisfies the window hypothesis is measured (min interval vs max |offset| reported in the evidence), not proved. F11 was found by this check and repaired in /repo.",
    "rule": "per zone: local days -1/0/+1 around sampled offset changes and around every sampled midnight-skipping change x 4 constructors, civil date-times at -3600..+7200 s around the change on both sides (also through GetStatus for two-digit years), year/month boundaries, random dates and date-times. Non-trivial = all; distinct = distinct Coq case terms.",
    "harness_timeout": {"quick": 900, "thorough": 7200},
}

PROPS["C04"] = {
    "engine": "api", "properties_file": "Properties/C04.v", "env": {"TZ": "UTC"},
    "model_files": ["Model/WireTypes.v", "Model/Codec.v", "Model/Interp.v", "Model/Messages.v", "Model/Ops.v", "Model/Listen.v", "Model/Render.v", "Model/Cases04.v", "Gen/Layouts.v", "Gen/PanicSites.v"],
    "gen_obligations": ["Proofs/PanicProofs.v:panic_sites_covered (every panic-capable expression found in the source now is in the reviewed baseline)", "Proofs/LayoutProps.v:shipped_wf"],
    "technique": "Coq: explicit Panic outcome in the model of every slice/index/lookup, totality theorems for all byte strings and replies; translator inventory of panic-capable expressions checked against a reviewed baseline; recover()-guarded fuzz streams as correspondence",
    "level_text": "Proved with an explicit Panic outcome for every buffer slice, index, table lookup and unsupported-type branch of the model: decoding any byte string of any length as any of the 65 shipped message types, both dispatchers, the listener's handler, and every API call with in-domain arguments under any configuration and any scripted network never reach Panic; the one table lookup fed by a wire value (door control state) is total; the hex dump the driver formats for every request and received datagram is total and prints every byte exactly once (slices and indices modelled with their bounds). Generated obligation: the inventory of panic-capable expressions (index, slice, unchecked type assertion, panic call) extracted from the current source is contained in the reviewed baseline. Tie: recover()-guarded streams - 40k (thorough 2M) decodes over 4 byte distributions and lengths 0..2048 through Unmarshal / UnmarshalAs / the dispatchers, 6k (300k) API calls with fuzzed replies and edge arguments whose results are rendered with %v and encoding/json, the real Listen path fed through the recording driver - with a sample of each stream evaluated by the model (outcome classes must agree).",
    "level_note": "Partial: arguments outside the modelled domain (e.g. years beyond 9999) and panics inside the Go standard library are covered by the fuzz streams only. The baseline of panic sites is a reviewed list, not a proof that each listed site is safe (the modelled ones are). F6 (ControlState table indexed with the wire byte) was found by this check and repaired.",
    "rule": "see level_text; non-trivial = 64-byte buffer (decode) / any API call; distinct = distinct Coq case terms of the sampled cases; the Go-side volumes are reported under coverage.extra. Plus: codec.Dump over every length 0..300 and random lengths (sampled through the model); every operation on its value path with one / two adjacent fields out of domain; debug-mode clients; a child process that shuts the real listener down with events pending and a slow callback, and starts listeners on unusable ports (a crash is a violation).",
    "trusted_base": API_TRUST,
}

PROPS["C17"] = {
    "engine": "api", "properties_file": "Properties/C17.v", "env": {"TZ": "UTC"},
    "model_files": ["Model/Alias.v", "Model/Ops.v", "Model/CasesApi.v", "Spec/ApiSpec.v", "Spec/ReplySpec.v", "Spec/AliasSpec.v"],
    "technique": "Coq: heap model (locations, cells, caller-reachability) with an invariant proved over all histories of caller writes / DeviceList / calls; differential histories with mutate-afterwards and buffer-overwrite probes",
    "level_text": "Proved in a heap model of NewUHPPOTE / Device.Clone / DeviceList: construction puts the configuration in a fresh cell that nothing the caller holds can reach, and for EVERY history of caller writes (device array entries, door-name arrays - including those shared with the client through DeviceList -, returned maps), allocations, DeviceList calls and operations the fields routing reads (id, name, address, protocol) are unchanged. Tie: generated histories on the real client (mutations of the caller's slice and door names, of DeviceList's map and its entries) in which every operation is judged against the configuration at construction (C06 routing oracle + C02 reply oracle); every operation's arguments (card, profile, task, reader map, IP slices) are compared before/after the call; every returned value is re-rendered after all transport buffers handed out by the driver were overwritten; Card.Clone / Device.Clone equality and non-sharing probes.",
    "level_note": "The functional model of the operations cannot express sharing; that operations do not modify their arguments, that results do not alias transport buffers and that clones share nothing are decided by the harness probes (direct failures), not by theorems. Trusted: the heap model's transcription of which cells each function allocates, copies and shares.",
    "rule": "histories of 8-19 steps (mutate caller devices / door names / DeviceList results, operations for configured and unconfigured controllers); non-trivial = every recorded call; distinct = distinct Coq case terms. Plus: argument probes with structural snapshots (partial / empty / nil maps, a passcode window of a larger table), clone probes writing through original and clone, clients without controllers with entries injected into DeviceList's map, a recording driver that overwrites the address and request it was handed, the real-driver discovery stream.",
    "trusted_base": API_TRUST,
}

NET_TRUST = ["environment assumptions of the socket model (DESIGN 4.5): a datagram sent to port p is delivered to the socket bound to p or dropped; loopback preserves the order of datagrams sent one at a time; Close makes a blocked read return",
             "Go runtime, Linux loopback networking; real sockets on 127.0.0.1 (the only place a verdict could depend on machine load: sends are serialised and callbacks awaited with 2 s time-outs)"]
PROPS["C10"] = {
    "engine": "net", "properties_file": "Properties/C10.v", "env": {"TZ": "UTC"},
    "model_files": ["Model/Listen.v", "Model/ListenProc.v", "Model/Cases10.v", "Spec/ReplySpec.v"],
    "technique": "Coq: two-process transition system (receiver, unbuffered pipe, dispatcher) with an invariant over all interleavings; the real Listen on a loopback UDP port fed by 1-3 sender sockets",
    "level_text": "Proved for every interleaving of the receiver goroutine, the rendezvous on the unbuffered pipe and the dispatcher goroutine, and every finite datagram sequence: at every reachable state the delivered events are a prefix, in arrival order, of the statuses of the valid datagrams consumed so far and the error callbacks are exactly the invalid ones; at quiescence every valid event has been delivered exactly once and OnConnected came first; the handler never panics. Tie: the REAL listener (ut0311.Listen, uhppote.listen, Listen's dispatcher) bound to a loopback port, 24 (thorough 400) start/send/stop sessions re-binding the same port immediately, sequences of 5-45 (50-500) datagrams mixing valid events (all field pools), v6.62 (0x19) events and every malformed class incl. empty and > 2048-byte datagrams from 1-3 sender sockets; observed callbacks = model; oracle = flat event specification; OnConnected once and first, Listen returns nil, delivered statuses unchanged afterwards.",
    "level_note": "Partial: goroutine scheduling and UDP delivery are the runtime's; the harness sends one datagram at a time and waits for its callback, so loss would show as a time-out failure (never as a silent pass). Listen does not join its dispatcher goroutine: the last OnEvent may still run when Listen returns - the property does not forbid that.",
    "rule": "sessions as described; non-trivial = every session (>= 5 datagrams); distinct = distinct Coq case terms (one per session); datagram totals under coverage.extra. Plus: burst sessions (back to back from one and from three sockets), lifecycle child (crash, hang, event read before the stop not delivered, missing error on an unusable port).",
    "trusted_base": NET_TRUST,
}

PROPS["C08"] = {
    "engine": "net", "properties_file": "Properties/C08.v", "env": {"TZ": "UTC"}, "race": True,
    "model_files": ["Model/Driver.v", "Model/Cases08.v", "Model/Sync.v", "Gen/SyncSkeleton.v"],
    "gen_obligations": ["Proofs/SyncProofs.v:skeleton_disciplined (the synchronisation skeleton extracted from uhppote/*.go now satisfies the lock-set discipline)"],
    "technique": "Coq: timed model of the fixed-bind-port lock/deadline protocol, own-reply theorem for any number of calls in any service order (refuted for the pre-repair policy); lock-set discipline proved sound in a trace model of mutexes and decided on the synchronisation skeleton the translator extracts from the source; real driver against a loopback controller farm whose reply is a function of the request; Go race detector run",
    "level_text": "PARTIAL. Proved on the timed model (mutex serving order arbitrary; deadline after the lock; a datagram addressed to the port goes to whoever holds it): every call whose controller answers within T of the request being sent returns its own reply, for any number of calls, however long each waited for the port; the pre-repair policy (deadline before the lock) is refuted by a three-call witness. Tie: the real ut0311 driver against a loopback UDP/TCP controller farm that echoes the request's index, 2-8 (thorough up to 24) goroutines per scenario on one client, mixed broadcast / connected-UDP / TCP paths, bind port 0 and a fixed bind port, reply delays 0..185 ms with T = 300 ms; outcome per call (own / crossed / time-out) compared with the model in the order in which the farm saw the requests; a failing scenario is re-run and reported only if it fails twice. The same load plus discovery while replies are arriving and listener bursts runs in a child process built with -race; any report with a frame inside the library is a violation. Static half: the translator extracts, for every function of package uhppote that starts goroutines, each variable assigned inside a goroutine or after the first go statement with all its accesses (thread, read/write, mutexes lexically held); Coq decides the lock-set discipline on it (generated obligation C08_source_disciplined; the pre-repair Broadcast is rejected) and proves the discipline sound: in every valid trace two accesses made under the same mutex are separated by Unlock-then-Lock, i.e. ordered by happens-before.",
    "level_note": "Not a theorem: memory-level interleavings of the real binary, goroutine scheduling, kernel UDP queues (exercised, not proved); the static skeleton is lexical (variables of the goroutine-starting function, mutexes locked in the same statement list) - sharing through pointers sent over channels or through struct fields is seen by the race detector only; the closed flag of ut0311.Listen is a reviewed exception (ordered by the socket close). Replies that arrive after their call has given up are delivered to the next holder of a shared port - inherent to the protocol, modelled, and outside what the property quantifies over (delays below the timeout). F9 (race on the reply list in Broadcast) and F10 (deadline taken before the lock) were found by this check and repaired.",
    "rule": "scenarios alternate fixed / port-0; non-trivial = every scenario (>= 2 concurrent calls); distinct = distinct Coq case terms; call totals and the race-detector summary under coverage.extra. Plus: two clients sharing one fixed bind port under different bind addresses; the race child also runs all operation kinds concurrently on one client through a stateless driver, listener bursts and shutdown.",
    "trusted_base": NET_TRUST,
}
PROPS["C09"] = {
    "engine": "net", "properties_file": "Properties/C09.v", "env": {"TZ": "UTC"},
    "model_files": ["Model/Driver.v", "Model/Cases08.v"],
    "technique": "Coq: bounds on hold / return times in the timed lock model for arbitrary arrivals, resource footprint balance by induction; real driver against fault behaviours with wall-clock, /proc/self/fd and goroutine accounting",
    "level_text": "PARTIAL. Proved on the timed model: whatever arrives (replies, strays, a flood, nothing) a call returns no later than its deadline, and if it fails for lack of an acceptable datagram exactly at its deadline; with the deadline after the lock each call holds a shared port for at most T; a reply before the deadline is accepted; the socket/goroutine footprint of any sequence of driver calls is balanced. Tie: the real driver against the farm's behaviours {no reply, late reply, stray flood until the deadline, TCP accept-and-stall, TCP refused, ICMP refused, reply in time, reply 70 ms before the deadline} on the three paths with bind port 0 and fixed, wall-clock duration of every call judged against T = 300 ms (+150 ms slack, -5 ms), and the number of socket descriptors in /proc/self/fd and of goroutines compared before and after all calls (GC disabled so that no finalizer closes a forgotten socket).",
    "level_note": "Wall-clock bounds and descriptor release are observed, not proved; timing verdicts use generous margins and a failing call is retried (stale datagrams drained first). Trusted: as C08.",
    "rule": "13 fault cases x rounds + batches of 6 concurrent calls and a discovery; non-trivial = all; distinct = distinct Coq case terms (durations included). Plus: TCP accept-after-SYN-retransmit then stall; discovery queued behind another call on the fixed port; lifecycle child (hang / goroutine leak after failed listener starts); a call on the fixed port after a refused TCP connect (run last).",
    "trusted_base": NET_TRUST,
}

DEV = {"API": {"engine": "api", "properties_file": "Properties/C12.v", "model_files": [], "env": {"TZ": "UTC"}}}
NOT_YET = {}
