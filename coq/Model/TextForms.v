(* Model of the JSON and text forms of package types (MarshalJSON / UnmarshalJSON / String / the text parsers), at the level
   of a JSON value tree: Go's encoding/json does the text <-> tree step (exercised by the harness, not modelled).
   Decoded values are canonicalised into a small value tree [cv] (the harness prints Go values the same way).  No proofs. *)
From UV Require Import Base.Bytes Model.WireTypes Model.Addr.
Open Scope N_scope.

Inductive json := JStr (s : list N) | JNum (n : Z) | JArr (l : list json) | JObj (fs : list (list N * json)) | JBool (b : bool) | JNull.
Inductive cv := VZ (z : Z) | VS (s : list N) | VL (l : list cv).

Inductive ty :=
| TyDate | TyDateTime | TyHHmm | TyPIN | TyControl | TyTaskType | TyVersion | TyMAC | TyAddr (r : role)
| TyWeekdays | TySegments | TyCard | TyProfile | TyTask.

Definition isdig (c : N) : bool := (48 <=? c) && (c <=? 57).

(* fmt "%02d" / "%04d"-style: the width includes the sign *)
Definition fmt_w (w : nat) (z : Z) : list N :=
  if (z <? 0)%Z then 45 :: pad_to (w - 1) (digits (Z.to_N (- z))) else pad_to w (digits (Z.to_N z)).

Definition str_date (y m d : Z) : list N := fmt_w 4 y ++ 45 :: fmt_w 2 m ++ 45 :: fmt_w 2 d.
Definition str_time (h mi s : Z) : list N := fmt_w 2 h ++ 58 :: fmt_w 2 mi ++ 58 :: fmt_w 2 s.

Definition zd (d : N) : Z := Z.of_N (d - 48).
Definition num2 (a b : N) : Z := (zd a * 10 + zd b)%Z.

(* time.Parse("2006-01-02") on exactly ten characters *)
Definition parse_date10 (s : list N) : option (Z * Z * Z) :=
  match s with
  | [y1; y2; y3; y4; 45; m1; m2; 45; d1; d2] =>
      if forallb isdig [y1; y2; y3; y4; m1; m2; d1; d2]
      then let y := (zd y1 * 1000 + zd y2 * 100 + zd y3 * 10 + zd y4)%Z in
           let m := num2 m1 m2 in let d := num2 d1 d2 in
           if valid_ymd (Z.to_N y) (Z.to_N m) (Z.to_N d) then Some (y, m, d) else None
      else None
  | _ => None
  end.

Definition parse_time8 (s : list N) : option (Z * Z * Z) :=
  match s with
  | [h1; h2; 58; m1; m2; 58; s1; s2] =>
      if forallb isdig [h1; h2; m1; m2; s1; s2]
      then let h := num2 h1 h2 in let mi := num2 m1 m2 in let se := num2 s1 s2 in
           if valid_hms (Z.to_N h) (Z.to_N mi) (Z.to_N se) then Some (h, mi, se) else None
      else None
  | _ => None
  end.

Definition cv_date (y m d : Z) : cv := VL [VZ y; VZ m; VZ d].
Definition cv_date_zero : cv := cv_date 1 1 1.
Definition cv_hhmm (h m : Z) : cv := VL [VZ h; VZ m].

(* ---------- scalars ---------- *)
Definition date_to (v : cv) : option (list N) :=
  match v with
  | VL [VZ y; VZ m; VZ d] => if ((y =? 1) && (m =? 1) && (d =? 1))%Z then Some [] else Some (str_date y m d)
  | _ => None
  end.
Definition date_of (s : list N) : option cv :=
  match s with
  | [] => Some cv_date_zero
  | _ => match parse_date10 s with Some (y, m, d) => Some (cv_date y m d) | None => None end
  end.
(* ParseDate: as above, blank rejected *)
Definition parse_date_text (s : list N) : option cv := match s with [] => None | _ => date_of s end.

(* DateTime: "YYYY-MM-DD hh:mm:ss ZZZ"; [abbr] is the zone abbreviation Go prints for the instant (supplied by the harness) *)
Definition datetime_to (v : cv) (abbr : list N) : option (list N) :=
  match v with
  | VL [VZ y; VZ m; VZ d; VZ h; VZ mi; VZ s] =>
      if ((y =? 1) && (m =? 1) && (d =? 1) && (h =? 0) && (mi =? 0) && (s =? 0))%Z then Some []
      else Some (str_date y m d ++ 32 :: str_time h mi s ++ 32 :: abbr)
  | _ => None
  end.
(* layout without zone; else layout with a zone abbreviation; else (an abbreviation Go cannot parse, e.g. +0545) the civil
   prefix.  [inforce] is the abbreviation Go prints for that civil time in the process zone (supplied by the harness; [] if
   unknown): with it - or without any - the civil fields are those of the text.  Another abbreviation may name a different
   offset of the same location (Go then shifts the reading, e.g. "-03" under America/Boa_Vista): not modelled, DUnknown. *)
Inductive dtres := DOk (v : cv) | DErr | DUnknown.
Definition datetime_of (inforce : list N) (s : list N) : dtres :=
  match s with
  | [] => DOk (VL [VZ 1; VZ 1; VZ 1; VZ 0; VZ 0; VZ 0])
  | _ =>
      match parse_date10 (firstn 10 s), nth_error s 10, parse_time8 (firstn 8 (skipn 11 s)) with
      | Some (y, m, d), Some 32, Some (h, mi, se) =>
          let rest := skipn 19 s in
          match rest with
          | [] => DOk (VL [VZ y; VZ m; VZ d; VZ h; VZ mi; VZ se])
          | 32 :: a :: r => if nlist_eqb (a :: r) inforce then DOk (VL [VZ y; VZ m; VZ d; VZ h; VZ mi; VZ se]) else DUnknown
          | _ => DErr
          end
      | _, _, _ => DErr
      end
  end.

Definition hhmm_to (v : cv) : option (list N) :=
  match v with VL [VZ h; VZ m] => Some (fmt_w 2 h ++ 58 :: fmt_w 2 m) | _ => None end.
Definition hhmm_of (s : list N) : option cv :=
  match s with
  | [h1; h2; 58; m1; m2] =>
      if forallb isdig [h1; h2; m1; m2]
      then let h := num2 h1 h2 in let m := num2 m1 m2 in
           if ((24 <? h) || (59 <? m) || ((h =? 24) && negb (m =? 0)))%Z then None else Some (cv_hhmm h m)
      else None
  | _ => None
  end.

Definition pin_to (v : cv) : option (list N) :=
  match v with VZ p => if ((p =? 0) || (999999 <? p))%Z then Some [] else Some (digits (Z.to_N p)) | _ => None end.
Definition pin_of (s : list N) : option cv :=
  if forallb isdig s && Nat.leb (length s) 6
  then match s with [] => Some (VZ 0) | _ => Some (VZ (Z.of_N (num_of_digits s))) end
  else None.

Definition s_normally_open := [110;111;114;109;97;108;108;121;32;111;112;101;110].
Definition s_normally_closed := [110;111;114;109;97;108;108;121;32;99;108;111;115;101;100].
Definition s_controlled := [99;111;110;116;114;111;108;108;101;100].
Definition control_to (v : cv) : option (list N) :=
  match v with
  | VZ 1 => Some s_normally_open | VZ 2 => Some s_normally_closed | VZ 3 => Some s_controlled
  | VZ _ => Some []
  | _ => None
  end.
Definition control_of (s : list N) : option cv :=
  if nlist_eqb s s_normally_open then Some (VZ 1)
  else if nlist_eqb s s_normally_closed then Some (VZ 2)
  else if nlist_eqb s s_controlled then Some (VZ 3) else None.

(* task types: names as the code's table; matching is on the lower-case letters only *)
Definition task_names : list (list N) :=
  map (fun s => s)
  [[67;79;78;84;82;79;76;32;68;79;79;82]; [85;78;76;79;67;75;32;68;79;79;82]; [76;79;67;75;32;68;79;79;82];
   [68;73;83;65;66;76;69;32;84;73;77;69;32;80;82;79;70;73;76;69]; [69;78;65;66;76;69;32;84;73;77;69;32;80;82;79;70;73;76;69];
   [69;78;65;66;76;69;32;67;65;82;68;44;32;78;79;32;80;65;83;83;87;79;82;68]; [69;78;65;66;76;69;32;67;65;82;68;43;73;78;32;80;65;83;83;87;79;82;68];
   [69;78;65;66;76;69;32;67;65;82;68;43;80;65;83;83;87;79;82;68]; [69;78;65;66;76;69;32;77;79;82;69;32;67;65;82;68;83];
   [68;73;83;65;66;76;69;32;77;79;82;69;32;67;65;82;68;83]; [84;82;73;71;71;69;82;32;79;78;67;69];
   [68;73;83;65;66;76;69;32;80;85;83;72;32;66;85;84;84;79;78]; [69;78;65;66;76;69;32;80;85;83;72;32;66;85;84;84;79;78]].
Definition lower (c : N) : N := if (65 <=? c) && (c <=? 90) then c + 32 else c.
Definition clean (s : list N) : list N := filter (fun c => (97 <=? c) && (c <=? 122)) (map lower s).
Fixpoint find_name (s : list N) (names : list (list N)) (i : Z) : option Z :=
  match names with
  | [] => None
  | n :: r => if nlist_eqb s (clean n) then Some i else find_name s r (i + 1)%Z
  end.
Definition tasktype_to (v : cv) : option (list N) :=
  match v with VZ t => if ((0 <=? t) && (t <? 13))%Z then nth_error task_names (Z.to_nat t) else None | _ => None end.
(* number 1..13 (JSON number, or the TSV text) -> type n-1; otherwise by name *)
Definition tasktype_of_num (n : Z) : option cv := if ((0 <? n) && (n <? 14))%Z then Some (VZ (n - 1)) else None.
Definition tasktype_of_name (s : list N) : option cv := match find_name (clean s) task_names 0 with Some i => Some (VZ i) | None => None end.
Definition tasktype_of_text (s : list N) : option cv :=
  match s with
  | [] => tasktype_of_name s
  | _ => if forallb isdig s then (if Nat.leb (length s) 9 then tasktype_of_num (Z.of_N (num_of_digits s)) else None) else tasktype_of_name s
  end.

Definition hexd (d : N) : N := if d <? 10 then 48 + d else 87 + d.
Definition version_to (v : cv) : option (list N) :=
  match v with VZ n => let x := Z.to_N n in Some [hexd (x / 4096); hexd ((x / 256) mod 16); hexd ((x / 16) mod 16); hexd (x mod 16)] | _ => None end.
Definition unhex (c : N) : option N :=
  if isdig c then Some (c - 48) else if (97 <=? c) && (c <=? 102) then Some (c - 87) else if (65 <=? c) && (c <=? 70) then Some (c - 55) else None.
Definition version_of (s : list N) : option cv :=          (* canonical four-hex-digit form only *)
  match s with
  | [a; b; c; d] => match unhex a, unhex b, unhex c, unhex d with
                    | Some a', Some b', Some c', Some d' => Some (VZ (Z.of_N (a' * 4096 + b' * 256 + c' * 16 + d')))
                    | _, _, _, _ => None end
  | _ => None
  end.

Fixpoint mac_str (bs : list N) : list N :=
  match bs with
  | [] => []
  | [b] => [hexd (b / 16); hexd (b mod 16)]
  | b :: r => hexd (b / 16) :: hexd (b mod 16) :: 58 :: mac_str r
  end.
Definition mac_to (v : cv) : option (list N) := match v with VS bs => Some (mac_str bs) | _ => None end.
Definition mac_of (s : list N) : option cv :=              (* canonical xx:xx:xx:xx:xx:xx only *)
  match s with
  | [a1;a2;58;b1;b2;58;c1;c2;58;d1;d2;58;e1;e2;58;f1;f2] =>
      match unhex a1, unhex a2, unhex b1, unhex b2, unhex c1, unhex c2 with
      | Some x1, Some x2, Some x3, Some x4, Some x5, Some x6 =>
          match unhex d1, unhex d2, unhex e1, unhex e2, unhex f1, unhex f2 with
          | Some y1, Some y2, Some y3, Some y4, Some y5, Some y6 =>
              Some (VS [x1*16+x2; x3*16+x4; x5*16+x6; y1*16+y2; y3*16+y4; y5*16+y6])
          | _, _, _, _, _, _ => None end
      | _, _, _, _, _, _ => None end
  | _ => None
  end.

Definition addr_to (r : role) (v : cv) : option (list N) :=
  match v with VL [VS a; VZ p] => Some (format r (a, Z.to_N p)) | _ => None end.
Definition addr_of (r : role) (s : list N) : presult cv :=
  match parse r s with POk (a, p) => POk (VL [VS a; VZ (Z.of_N p)]) | PErr => PErr | PUnknown => PUnknown end.

(* ---------- weekdays, segments ---------- *)
Definition day_names : list (list N) :=   (* Monday .. Sunday *)
  [[77;111;110;100;97;121]; [84;117;101;115;100;97;121]; [87;101;100;110;101;115;100;97;121]; [84;104;117;114;115;100;97;121];
   [70;114;105;100;97;121]; [83;97;116;117;114;100;97;121]; [83;117;110;100;97;121]].
Fixpoint join (sep : N) (l : list (list N)) : list N :=
  match l with [] => [] | [x] => x | x :: r => x ++ sep :: join sep r end.
(* value = the seven flags Monday..Sunday *)
Definition weekdays_to (v : cv) : option (list N) :=
  match v with
  | VL flags => Some (join 44 (map snd (filter (fun p => match fst p with VZ 1 => true | _ => false end) (combine flags day_names))))
  | _ => None
  end.
Fixpoint split_comma (s : list N) : list (list N) :=
  match s with
  | [] => [[]]
  | c :: r => if c =? 44 then [] :: split_comma r else match split_comma r with h :: t => (c :: h) :: t | [] => [[c]] end
  end.
Definition weekdays_of (s : list N) : option cv :=
  let toks := map (map lower) (split_comma s) in
  Some (VL (map (fun n => if existsb (nlist_eqb (map lower n)) toks then VZ 1 else VZ 0) day_names)).

Fixpoint jget (fs : list (list N * json)) (k : list N) : option json :=
  match fs with [] => None | (k', v) :: r => if nlist_eqb k k' then Some v else jget r k end.

Definition k_start := [115;116;97;114;116].
Definition k_end := [101;110;100].
Definition segment_to (v : cv) : option json :=
  match v with
  | VL [s; e] => match hhmm_to s, hhmm_to e with Some a, Some b => Some (JObj [(k_end, JStr b); (k_start, JStr a)])   (* members in name order: the harness sorts object members *) | _, _ => None end
  | _ => None
  end.
(* missing members keep their zero value; a member that is not a valid HH:mm string fails the decoding *)
Definition member_hhmm (fs : list (list N * json)) (k : list N) : option cv :=
  match jget fs k with
  | None | Some JNull => Some (cv_hhmm 0 0)
  | Some (JStr s) => hhmm_of s
  | Some _ => None
  end.
Definition segment_of (j : json) : option cv :=
  match j with
  | JObj fs => match member_hhmm fs k_start, member_hhmm fs k_end with Some a, Some b => Some (VL [a; b]) | _, _ => None end
  | JNull => Some (VL [cv_hhmm 0 0; cv_hhmm 0 0])
  | _ => None
  end.
(* value = list of (present?, segment) for ids 1..3, as VL [VL [VZ present; seg]; ...] *)
Definition segments_to (v : cv) : option json :=
  match v with
  | VL items =>
      let present := filter (fun it => match it with VL [VZ 1; _] => true | _ => false end) items in
      let js := map (fun it => match it with VL [_; sg] => segment_to sg | _ => None end) present in
      if forallb (fun o => match o with Some _ => true | None => false end) js
      then Some (JArr (map (fun o => match o with Some j => j | None => JNull end) js)) else None
  | _ => None
  end.
(* decoding into a map that already holds [prior] (nil map = all absent): element i -> id i+1 (<= 3) *)
Definition segments_of (prior : list cv) (j : json) : option cv :=
  match j with
  | JArr l =>
      let segs := map segment_of (firstn 3 l) in
      if forallb (fun o => match o with Some _ => true | None => false end) (map segment_of l)
      then Some (VL (map (fun i => match nth_error segs i with
                                   | Some (Some sg) => VL [VZ 1; sg]
                                   | _ => nth i prior (VL [VZ 0; VL [cv_hhmm 0 0; cv_hhmm 0 0]]) end) [0; 1; 2]%nat))
      else None
  | JNull => Some (VL (map (fun i => nth i prior (VL [VZ 0; VL [cv_hhmm 0 0; cv_hhmm 0 0]])) [0; 1; 2]%nat))
  | _ => None
  end.
