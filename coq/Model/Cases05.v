(* Case evaluation for C05: shipped message types (by name, over the generated layouts) and the dispatchers. *)
From Coq Require Import String.
From UV Require Import Base.Bytes Model.WireTypes Model.Codec Model.Interp Model.Cases18 Model.Messages Gen.Layouts Spec.CodecSpec.

Inductive case05 :=
| CM (c : case18)
| CDispatchReq (buf : list N) (obs : outcome (string * list fval))
| CDispatchResp (buf : list N) (obs : outcome (string * list fval)).

Definition named_eqb (a b : string * list fval) : bool := String.eqb (fst a) (fst b) && fvals_eqb (snd a) (snd b).

Definition model_ok05 (c : case05) : bool :=
  match c with
  | CM c' => model_ok18 c'
  | CDispatchReq buf obs => out_eqb named_eqb (unmarshal_request buf) obs
  | CDispatchResp buf obs => out_eqb named_eqb (unmarshal_response buf) obs
  end.

(* the dispatcher's verdict, from the property text: the type registered for the function code in the header;
   unknown codes, a wrong length or a wrong protocol id are rejected *)
Definition spec_dispatch (t : list (N * string)) (buf : list N) (obs : outcome (string * list fval)) : bool :=
  let framed := Nat.eqb (length buf) 64 && (nth 0 buf 0 =? 0x17)%N in
  match obs with
  | Panic => false
  | Ok (n, vs) => framed && opt_eqb String.eqb (lookup_code t (nth 1 buf 0)) (Some n)
                  && spec_unmarshal_admits (msg_layout n) buf (Ok vs)
  | Err => negb framed ||
           match lookup_code t (nth 1 buf 0) with
           | None => true
           | Some n => spec_unmarshal_admits (msg_layout n) buf Err
           end
  end.

Definition spec_ok05 (c : case05) : bool :=
  match c with
  | CM c' => spec_ok18 c'
  | CDispatchReq buf obs => spec_dispatch table_requests buf obs
  | CDispatchResp buf obs => spec_dispatch table_responses buf obs
  end.
