(* C04 cases: the outcome class of decoding entry points and API calls (incl. rendering) must never be a panic. *)
From Coq Require Import String.
From UV Require Import Base.Bytes Model.WireTypes Model.Codec Model.Interp Model.Cases18 Model.Messages Model.Cases05 Model.Ops Model.CasesApi Model.Render.

Inductive case04 :=
| C4Msg (c : case05)
| C4Api (c : caseapi)
| C4Dump (m : list N) (rows : list (list N)).        (* codec.Dump: the bytes printed on each row *)

Definition model_ok04 (c : case04) : bool :=
  match c with
  | C4Msg c' => model_ok05 c' | C4Api c' => model_okA c'
  | C4Dump m rows => match dump m with
                     | Ok r => (fix eq (a b : list (list N)) : bool :=
                                  match a, b with [], [] => true | x :: a', y :: b' => nlist_eqb x y && eq a' b' | _, _ => false end) r rows
                     | _ => false end
  end.

Definition no_panic18 (c : case18) : bool :=
  match c with
  | CMarshal _ _ _ Panic | CUnmarshal _ _ _ Panic | CMsgMarshal _ _ Panic | CMsgUnmarshal _ _ Panic => false
  | _ => true
  end.

Definition spec_ok04 (c : case04) : bool :=
  match c with
  | C4Msg (CM c') => no_panic18 c'
  | C4Msg (CDispatchReq _ Panic) | C4Msg (CDispatchResp _ Panic) => false
  | C4Msg _ => true
  | C4Api (CApi _ _ _ RPanic _) => false
  | C4Api _ => true
  | C4Dump m rows => nlist_eqb (concat rows) m          (* every byte printed once, in order *)
  end.
