(* Case evaluation for the codec correspondence (C18: arbitrary layouts; C05: the shipped message types). *)
From Coq Require Import String.
From UV Require Import Base.Bytes Model.WireTypes Model.Codec Model.Interp Gen.Layouts.

Inductive case18 :=
| CMarshal (structs : list raw_struct) (fs : list raw_field) (vs : list fval) (obs : outcome (list N))
| CUnmarshal (structs : list raw_struct) (fs : list raw_field) (buf : list N) (obs : outcome (list fval))
| CMsgMarshal (name : string) (vs : list fval) (obs : outcome (list N))
| CMsgUnmarshal (name : string) (buf : list N) (obs : outcome (list fval)).

Definition out_eqb {A} (eqb : A -> A -> bool) (a b : outcome A) : bool :=
  match a, b with
  | Ok x, Ok y => eqb x y
  | Err, Err => true
  | Panic, Panic => true
  | _, _ => false
  end.

Definition msg_layout (name : string) : layout :=
  match layout_of structs name with Some L => L | None => [FUnsupported 0] end.

Definition model_ok18 (c : case18) : bool :=
  match c with
  | CMarshal ss fs vs obs => out_eqb nlist_eqb (marshal (interp_struct ss fs) vs) obs
  | CUnmarshal ss fs buf obs => out_eqb fvals_eqb (unmarshal (interp_struct ss fs) buf) obs
  | CMsgMarshal n vs obs => out_eqb nlist_eqb (marshal (msg_layout n) vs) obs
  | CMsgUnmarshal n buf obs => out_eqb fvals_eqb (unmarshal (msg_layout n) buf) obs
  end.
