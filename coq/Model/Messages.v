(* Model of messages/requests.go and responses.go: the function-code dispatchers, over the GENERATED tables. *)
From Coq Require Import String.
From UV Require Import Base.Bytes Model.WireTypes Model.Codec Model.Interp Model.Cases18 Gen.Layouts.
Open Scope N_scope.

Fixpoint lookup_code (t : list (N * string)) (c : N) : option string :=
  match t with
  | [] => None
  | (k, n) :: r => if k =? c then Some n else lookup_code r c
  end.

(* len != 64 -> error; bytes[0] != 0x17 -> error; unknown function code -> error; codec.Unmarshal into new(T) *)
Definition dispatch (t : list (N * string)) (buf : list N) : outcome (string * list fval) :=
  if negb (Nat.eqb (length buf) 64) then Err
  else match buf with
       | b0 :: b1 :: _ =>
           if negb (b0 =? 0x17) then Err
           else match lookup_code t b1 with
                | None => Err
                | Some n => match unmarshal (msg_layout n) buf with
                            | Ok vs => Ok (n, vs)
                            | Err => Err
                            | Panic => Panic
                            end
                end
       | _ => Err
       end.

Definition unmarshal_request := dispatch table_requests.
Definition unmarshal_response := dispatch table_responses.
