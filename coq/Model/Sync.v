(* C08, model B: lock-set discipline.
   (1) A trace model of mutexes: events of threads; a trace is VALID when a mutex is acquired only while free and released
       only by its holder (what sync.Mutex guarantees).  (2) The decision procedure applied to the synchronisation skeleton
       that the translator extracts from package uhppote (Gen/SyncSkeleton.v).  No proofs here. *)
From Coq Require Import String List Bool Arith.
Import ListNotations.
Open Scope string_scope.

(* ---------- traces ---------- *)
Definition thread := nat.
Inductive event :=
| Acq (m : string)                       (* m.Lock() returns *)
| Rel (m : string)                       (* m.Unlock() *)
| Acc (v : string) (write : bool).       (* a read or write of shared variable v *)

Definition trace := list (thread * event).

(* state of ONE mutex m along a trace: None = the trace is not valid for m; Some o = valid, o = current holder *)
Definition step (m : string) (st : option thread) (te : thread * event) : option (option thread) :=
  match snd te with
  | Acq m' => if String.eqb m' m then (match st with None => Some (Some (fst te)) | Some _ => None end) else Some st
  | Rel m' => if String.eqb m' m then (match st with Some o => if Nat.eqb o (fst te) then Some None else None | None => None end) else Some st
  | Acc _ _ => Some st
  end.

Fixpoint run (m : string) (st : option thread) (tr : trace) : option (option thread) :=
  match tr with
  | [] => Some st
  | te :: r => match step m st te with Some st' => run m st' r | None => None end
  end.

(* thread t holds m after the (valid) trace p *)
Definition holds (m : string) (t : thread) (p : trace) : Prop := run m None p = Some (Some t).

(* ---------- the skeleton check ---------- *)
Definition access := (string * string * list string * nat)%type.          (* thread, "r"/"w", mutexes held, line *)
Definition a_thread (a : access) : string := let '(t, _, _, _) := a in t.
Definition a_write (a : access) : bool := let '(_, k, _, _) := a in String.eqb k "w".
Definition a_locks (a : access) : list string := let '(_, _, l, _) := a in l.

Definition common (l1 l2 : list string) : bool := existsb (fun x => existsb (String.eqb x) l2) l1.

(* two accesses conflict when they come from different threads (a goroutine literal may also run several times, but each
   function here starts each literal once per call and the variables are per call) and one of them writes *)
Definition conflicting (a b : access) : bool := negb (String.eqb (a_thread a) (a_thread b)) && (a_write a || a_write b).

Definition var_ok (accs : list access) : bool :=
  forallb (fun a => forallb (fun b => negb (conflicting a b) || common (a_locks a) (a_locks b)) accs) accs.

(* reviewed exceptions: (function, variable) ordered by something other than a mutex *)
Definition ordered_otherwise : list (string * string) :=
  [("uhppote.ut0311.Listen", "closed")].    (* written before c.Close(); read only after ReadFromUDP failed because of that Close *)

Definition lockset_ok (sk : list (string * string * list access)) : bool :=
  forallb (fun e => let '(fn, v, accs) := e in
                    existsb (fun x => String.eqb (fst x) fn && String.eqb (snd x) v) ordered_otherwise || var_ok accs) sk.

(* ---------- process-wide state ---------- *)
(* what the translator lists for every package-level variable of the library (Gen/SharedState.v): package, name, form of the
   initialiser, number of places in its package where it is written after initialisation (assigned, index-assigned,
   incremented, deleted from, copied into, address taken) *)
Definition shared_var := (string * string * string * nat)%type.

(* initialiser forms whose values are immutable once built, or documented safe for use by several goroutines:
   compiled regular expressions, reflect.Type values, error values, constants, a time.Time value, map / slice literals
   (tables - read-only provided they are never written, which is the second half of the test) and mutexes *)
Definition benign_kinds : list string :=
  ["regexp"; "reflect-type"; "error"; "constant"; "time-value"; "map-literal"; "slice-literal"; "mutex"].

Definition benign (e : shared_var) : bool :=
  let '(_, _, k, w) := e in Nat.eqb w 0 && existsb (String.eqb k) benign_kinds.

Definition shared_ok (l : list shared_var) : bool := forallb benign l.
