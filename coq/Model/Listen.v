(* Model of the event path: the handler of uhppote.listen (uhppote.go) and the status built by Listen's dispatcher
   (listen.go).  The two-process structure (receiver, unbuffered pipe, dispatcher) is in Model/ListenProc.v. *)
From Coq Require Import String.
From UV Require Import Base.Bytes Model.WireTypes Model.Codec Model.Interp Model.Cases18 Model.Ops.
Open Scope N_scope.

(* len != 64 -> OnError; serial number 0 -> OnError; codec.Unmarshal(bytes, &event{}) error -> OnError; else p <- &e *)
Definition listen_handler (d : list N) : outcome (list fval) :=
  if negb (Nat.eqb (length d) 64) then Err
  else if serial_of d =? 0 then Err
  else unmarshal (msg_layout "GetStatusResponse") d.

(* the types.Status handed to OnEvent (same construction as GetStatus) *)
Definition event_status (vs : list fval) : list fval := status_of (get "GetStatusResponse" vs).

(* one received datagram: Some status = OnEvent(status), None = OnError *)
Definition listen_step (d : list N) : outcome (option (list fval)) :=
  match listen_handler d with
  | Ok vs => Ok (Some (event_status vs))
  | Err => Ok None
  | Panic => Panic
  end.
