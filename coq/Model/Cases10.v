(* C10 cases: datagrams sent to the real Listen socket, and the callbacks observed (Some status = OnEvent, None = OnError) *)
From Coq Require Import String.
From UV Require Import Base.Bytes Model.WireTypes Model.Codec Model.Interp Model.Cases18 Model.Ops Model.CasesApi Model.Listen
  Spec.WireSpec Spec.Protocol Spec.ApiSpec Spec.ReplySpec Spec.RecvSpec.
Open Scope N_scope.

Inductive case10 :=
| CListen (ds : list (list N)) (obs : list (option (list fval)))           (* one datagram in flight at a time *)
| CListenBurst (ds : list (list N)) (obs : list (option (list fval))).     (* back to back from one socket *)

(* in a burst OnError (called by the goroutine that reads the socket) may overtake the OnEvent of an earlier datagram
   (called by the dispatching goroutine): the events are compared in order, the errors by number *)
Definition events_of (l : list (option (list fval))) : list (option (list fval)) := filter (fun o => match o with Some _ => true | None => false end) l.

Definition cb_eqb (a b : option (list fval)) : bool := opt_eqb fvals_eqb a b.
Fixpoint cbs_eqb (a b : list (option (list fval))) : bool :=
  match a, b with
  | [], [] => true
  | x :: a', y :: b' => cb_eqb x y && cbs_eqb a' b'
  | _, _ => false
  end.

Definition model_ok10 (c : case10) : bool :=
  match c with
  | CListen ds obs => cbs_eqb (map (fun d => match listen_step d with Ok r => r | _ => None end) ds) obs
  | CListenBurst ds obs =>
      let m := map (fun d => match listen_step d with Ok r => r | _ => None end) ds in
      cbs_eqb (events_of m) (events_of obs) && Nat.eqb (length m) (length obs)
  end.

(* C10 from the property text: a well-formed event (64 bytes, protocol id 0x17 or 0x19, function 0x20, non-zero serial
   number, all fields in domain) -> exactly that status; everything else -> one error.  A BCD-valid but impossible
   timestamp / system time may surface either way. *)
Definition event_gate (d : list N) : bool :=
  Nat.eqb (length d) 64 && ((nth 0 d 0 =? 0x17) || (nth 0 d 0 =? 0x19)) && (nth 1 d 0 =? 0x20) && negb (of_le (sub d 4 4) =? 0).

Definition event_status_spec (d : list N) : list fval :=
  match spec_map {| cfg_devices := []; cfg_bcast := None |} (GetStatus 1) d (vals (reads (GetStatus 1) d)) with
  | Value vs => vs
  | _ => []
  end.

Definition definitely_bad (d : list N) : bool :=
  negb (event_gate d) ||
  existsb (fun f => match spec_dec (fst f) (sub d (snd f) (width (fst f))) with DFail => true | _ => false end) (reply_table (GetStatus 1)).
Definition definitely_good (d : list N) : bool := event_gate d && negb (bad (reads (GetStatus 1) d)).

Fixpoint callbacks_ok (ds : list (list N)) (obs : list (option (list fval))) : bool :=
  match ds, obs with
  | [], [] => true
  | d :: ds', o :: obs' =>
      (if definitely_good d then cb_eqb o (Some (event_status_spec d))
       else if definitely_bad d then cb_eqb o None
       else cb_eqb o None || cb_eqb o (Some (event_status_spec d)))
      && callbacks_ok ds' obs'
  | _, _ => false
  end.

(* burst: the delivered events, in order, are the statuses of the valid events sent, in order; one callback per datagram *)
Fixpoint events_ok (ds : list (list N)) (evs : list (option (list fval))) : bool :=
  match ds with
  | [] => match evs with [] => true | _ => false end
  | d :: ds' =>
      if definitely_good d then match evs with e :: evs' => cb_eqb e (Some (event_status_spec d)) && events_ok ds' evs' | [] => false end
      else if definitely_bad d then events_ok ds' evs
      else match evs with
           | e :: evs' => (cb_eqb e (Some (event_status_spec d)) && events_ok ds' evs') || events_ok ds' evs
           | [] => events_ok ds' []
           end
  end.

Definition spec_ok10 (c : case10) : bool :=
  match c with
  | CListen ds obs => callbacks_ok ds obs
  | CListenBurst ds obs => events_ok ds (events_of obs) && Nat.eqb (length ds) (length obs)
  end.
