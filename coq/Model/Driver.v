(* Model of the socket driver's protocol logic (uhppote/UT0311.go): the process-wide mutex `guard` taken when the bind
   port is fixed, where the deadline is taken, the receive loop, and the sockets / goroutines each call opens and closes.
   Time is Z milliseconds.  Environment assumptions (DESIGN 4.5): a datagram addressed to the fixed port is delivered to
   whoever holds the port at its arrival time (else dropped); an absolute deadline makes a blocked read return at that
   time; Close makes a blocked read return.  No proofs here. *)
From UV Require Import Base.Bytes.
Open Scope Z_scope.

(* a call on a shared fixed bind port, in the order in which the mutex serves them.
   tag identifies the request (the controller's reply is a function of it); key = (serial number, function code) decides
   whether a datagram passes the receive filter of the call that holds the port; delay = None: the controller never answers *)
Record call := { arrive : Z; delay : option Z; tag : nat; key : nat }.
Record dgram := { at_ : Z; dtag : nat; dkey : nat }.
Inductive res := Reply (t : nat) | Timeout.

Section Policy.
  Variable T : Z.
  (* where the code takes time.Now() for the deadline: before (false) or after (true) guard.Lock() *)
  Variable after_lock : bool.

  Definition deadline (c : call) (acq : Z) : Z := (if after_lock then acq else arrive c) + T.

  (* the receive loop: datagrams delivered while the port is held, in arrival order; the first that passes the filter *)
  Fixpoint first_match (k : nat) (lo hi : Z) (ds : list dgram) : option dgram :=
    match ds with
    | [] => None
    | d :: r => if (lo <=? at_ d) && (at_ d <? hi) && Nat.eqb (dkey d) k then Some d else first_match k lo hi r
    end.

  Fixpoint insert (d : dgram) (ds : list dgram) : list dgram :=
    match ds with
    | [] => [d]
    | x :: r => if at_ d <? at_ x then d :: x :: r else x :: insert d r
    end.

  (* result, acquisition time and return time of every call *)
  Fixpoint serve (free_at : Z) (inflight : list dgram) (cs : list call) : list (call * res * Z * Z) :=
    match cs with
    | [] => []
    | c :: rest =>
        let acq := Z.max (arrive c) free_at in
        let dl := deadline c acq in
        let fl := match delay c with
                  | Some dly => insert {| at_ := acq + dly; dtag := tag c; dkey := key c |} inflight
                  | None => inflight
                  end in
        match first_match (key c) acq dl fl with
        | Some d => (c, Reply (dtag d), acq, at_ d) :: serve (at_ d) (filter (fun x => at_ d <? at_ x) fl) rest
        | None => (c, Timeout, acq, Z.max acq dl) :: serve (Z.max acq dl) (filter (fun x => Z.max acq dl <=? at_ x) fl) rest
        end
    end.
End Policy.

(* ---------- resources: sockets and goroutines per driver call ---------- *)
Inductive rsrc := OpenSock | CloseSock | StartGo | EndGo.
Inductive dcall := DBroadcast | DBroadcastTo | DSendUDP | DSendTCP.

(* every path: open, defer Close; Broadcast also starts one reader goroutine, which ends when the deferred Close makes its
   blocked read fail *)
Definition footprint (d : dcall) (opened : bool) : list rsrc :=
  if negb opened then []                                  (* ListenUDP / Dial failed: nothing to release *)
  else match d with
       | DBroadcast => [OpenSock; StartGo; CloseSock; EndGo]
       | _ => [OpenSock; CloseSock]
       end.

Fixpoint balance (l : list rsrc) (socks gos : Z) : Z * Z :=
  match l with
  | [] => (socks, gos)
  | OpenSock :: r => balance r (socks + 1) gos
  | CloseSock :: r => balance r (socks - 1) gos
  | StartGo :: r => balance r socks (gos + 1)
  | EndGo :: r => balance r socks (gos - 1)
  end.
