(* C17: a heap model of what NewUHPPOTE, DeviceList, Device.Clone and the caller share.
   Locations hold mutable cells: the caller's []Device backing array, every Doors []string backing array, the client's
   devices map, every map returned by DeviceList.  Device values hold their Doors array BY REFERENCE (a location).
   uhppote.go: NewUHPPOTE allocates a fresh map and stores device.Clone() (fresh Doors array) per input device;
   DeviceList allocates a fresh map and copies the Device VALUES (so the Doors arrays are shared with the client).  *)
From UV Require Import Base.Bytes.
Open Scope N_scope.

Definition loc := nat.
Record devrec := { r_id : N; r_name : list N; r_addr : option (list N * N); r_proto : list N; r_doors : loc }.

Inductive cell :=
| CDevs (ds : list devrec)            (* a []Device backing array or a map[uint32]Device (association list, later wins) *)
| CDoors (names : list (list N)).     (* a []string backing array *)

Definition heap := list cell.          (* location = index; allocation appends *)

Definition hget (h : heap) (l : loc) : option cell := nth_error h l.
Fixpoint hset (h : heap) (l : loc) (c : cell) : heap :=
  match h, l with
  | [], _ => []
  | _ :: r, O => c :: r
  | x :: r, S k => x :: hset r k c
  end.
Definition halloc (h : heap) (c : cell) : heap * loc := (h ++ [c], length h).

Record state := { st_heap : heap;
                  st_client : loc;               (* the client's devices map *)
                  st_caller : list loc }.        (* every location the caller holds a reference to *)

(* Device.Clone(): a new Doors array with the same names *)
Definition clone_dev (h : heap) (d : devrec) : heap * devrec :=
  let names := match hget h (r_doors d) with Some (CDoors n) => n | _ => [] end in
  let '(h', l) := halloc h (CDoors names) in
  (h', {| r_id := r_id d; r_name := r_name d; r_addr := r_addr d; r_proto := r_proto d; r_doors := l |}).

Fixpoint clone_all (h : heap) (ds : list devrec) : heap * list devrec :=
  match ds with
  | [] => (h, [])
  | d :: r => let '(h1, d') := clone_dev h d in let '(h2, r') := clone_all h1 r in (h2, d' :: r')
  end.

(* NewUHPPOTE(devices): input = location of the caller's device array *)
Definition construct (h : heap) (input : loc) (caller : list loc) : state :=
  let ds := match hget h input with Some (CDevs l) => l | _ => [] end in
  let '(h1, ds') := clone_all h ds in
  let '(h2, m) := halloc h1 (CDevs ds') in
  {| st_heap := h2; st_client := m; st_caller := caller |}.

Inductive step :=
| SWrite (l : loc) (c : cell)     (* the caller overwrites something it can reach (device entries, door names, returned maps) *)
| SNew (c : cell)                 (* the caller allocates a new slice / array and keeps it *)
| SDeviceList                      (* u.DeviceList(): fresh map with the same Device values, handed to the caller *)
| SCall.                           (* any operation: reads the client's map only *)

(* locations reachable from the caller's roots: the roots, and the Doors arrays of the Device values in the cells they hold *)
Definition doors_of (c : cell) : list loc := match c with CDevs ds => map r_doors ds | CDoors _ => [] end.
Definition reachable (s : state) (l : loc) : Prop :=
  In l (st_caller s) \/ exists r c, In r (st_caller s) /\ hget (st_heap s) r = Some c /\ In l (doors_of c).

Definition do_step (s : state) (x : step) : state :=
  match x with
  | SWrite l c => {| st_heap := hset (st_heap s) l c; st_client := st_client s; st_caller := st_caller s |}
  | SNew c => let '(h', l) := halloc (st_heap s) c in
              {| st_heap := h'; st_client := st_client s; st_caller := l :: st_caller s |}
  | SDeviceList =>
      let ds := match hget (st_heap s) (st_client s) with Some (CDevs l) => l | _ => [] end in
      let '(h', m) := halloc (st_heap s) (CDevs ds) in
      {| st_heap := h'; st_client := st_client s; st_caller := m :: st_caller s |}
  | SCall => s
  end.

(* a step the caller is able to perform: it writes only where it can reach, and what it writes refers (as Doors arrays)
   only to locations it can already reach or that are Doors cells - never to the client's map *)
Definition allowed (s : state) (x : step) : Prop :=
  match x with
  | SWrite l c => reachable s l /\ ~ In (st_client s) (doors_of c)
  | SNew c => ~ In (st_client s) (doors_of c)
  | _ => True
  end.

(* what routing and naming read: the value fields of the client's map *)
Definition routing_view (s : state) : list (N * list N * option (list N * N) * list N) :=
  match hget (st_heap s) (st_client s) with
  | Some (CDevs ds) => map (fun d => (r_id d, r_name d, r_addr d, r_proto d)) ds
  | _ => []
  end.
