From UV Require Import Base.Bytes Model.WireTypes Model.Addr.
Open Scope N_scope.
Inductive case15 :=
| CParse (r : role) (s : list N) (obs : option (list N * N))        (* None = error *)
| CFormat (r : role) (a : list N) (p : N) (str : list N).

Definition ap_eqb (x y : list N * N) : bool := nlist_eqb (fst x) (fst y) && (snd x =? snd y).

Definition model_ok15 (c : case15) : bool :=
  match c with
  | CParse r s obs =>
      match parse r s, obs with
      | PUnknown, _ => true
      | POk x, Some y => ap_eqb x y
      | PErr, None => true
      | _, _ => false
      end
  | CFormat r a p str => nlist_eqb (format r (a, p)) str
  end.

(* ---- specification (C15), independent of the parsers: canonical a.b.c.d[:port] strings ---- *)
(* decimal numeral without leading zeros *)
Definition canon_num (ds : list N) (max : N) : option N :=
  match ds with
  | [] => None
  | d :: r => if forallb dig ds && (Nat.eqb (length ds) 1 || negb (d =? 48)) && Nat.leb (length ds) 5
              then (let v := num_of_digits ds in if v <=? max then Some v else None) else None
  end.

Fixpoint split_on (c : N) (s : list N) : list (list N) :=
  match s with
  | [] => [[]]
  | x :: r => if x =? c then [] :: split_on c r
              else match split_on c r with h :: t => (x :: h) :: t | [] => [[x]] end
  end.

(* Some (Some (a,p)): canonical with port; Some (None,a): canonical without port *)
Definition canonical (s : list N) : option (list N * option N) :=
  let parts := split_on colon s in
  let quad q := match split_on dot q with
                | [a; b; c; d] => match canon_num a 255, canon_num b 255, canon_num c 255, canon_num d 255 with
                                  | Some a', Some b', Some c', Some d' => Some [a'; b'; c'; d']
                                  | _, _, _, _ => None end
                | _ => None end in
  match parts with
  | [q] => match quad q with Some a => Some (a, None) | None => None end
  | [q; p] => match quad q, canon_num p 65535 with Some a, Some p' => Some (a, Some p') | _, _ => None end
  | _ => None
  end.

Definition rule (r : role) (p : N) : bool :=
  match r with
  | RBind => negb (p =? 60000)
  | RBroadcast | RController => negb (p =? 0)
  | RListen => negb (p =? 0) && negb (p =? 60000)
  end.
Definition dflt (r : role) : option N := match r with RBind => Some 0 | RBroadcast | RController => Some 60000 | RListen => None end.

(* does the string contain a dotted quad at all?  (d{1,3}.d{1,3}.d{1,3}.d{1,3} as a substring) - decided naively *)
Fixpoint digits_run (s : list N) (n : nat) : list (list N) :=     (* remainders after 1..n digits *)
  match n, s with
  | S k, c :: r => if dig c then r :: digits_run r k else []
  | _, _ => []
  end.
Definition quad_at (s : list N) : bool :=
  existsb (fun s1 => match s1 with 46 :: s2 =>
    existsb (fun s3 => match s3 with 46 :: s4 =>
      existsb (fun s5 => match s5 with 46 :: s6 => negb (Nat.eqb (length (digits_run s6 3)) 0) | _ => false end) (digits_run s4 3)
    | _ => false end) (digits_run s2 3)
  | _ => false end) (digits_run s 3).
Fixpoint has_quad (s : list N) : bool := quad_at s || match s with [] => false | _ :: r => has_quad r end.

Definition spec_ok15 (c : case15) : bool :=
  match c with
  | CParse r s obs =>
      match canonical s with
      | Some (a, Some p) => if rule r p then opt_eqb ap_eqb obs (Some (a, p)) else match obs with None => true | _ => false end
      | Some (a, None) => match dflt r with
                          | Some dp => opt_eqb ap_eqb obs (Some (a, dp))
                          | None => match obs with None => true | _ => false end
                          end
      | None => if has_quad s then true else match obs with None => true | _ => false end
      end
  | CFormat r a p str =>
      (* formatting an accepted address and parsing the text again gives the address back: checked on the
         implementation by the harness's round-trip stream; here: the text is the canonical form *)
      if Nat.eqb (length a) 4 && forallb (fun x => x <? 256) a && (p <? 65536) && rule r p
      then match canonical str with
           | Some (a', Some p') => nlist_eqb a a' && (p =? p')
           | Some (a', None) => nlist_eqb a a' && opt_eqb N.eqb (dflt r) (Some p)
           | None => false
           end
      else true
  end.
