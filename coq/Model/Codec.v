(* Model of encoding/UTO311-L0x/UT0311-L0x.go: Marshal / Unmarshal over an arbitrary layout descriptor.
   A layout is the flattened (depth-first) field list of the struct - Go's marshal/unmarshal recursion into an
   embedded struct is exactly a sequential walk of that flattened list (errors propagate).  No proofs here. *)
From UV Require Import Base.Bytes Model.BCD Model.WireTypes.
Open Scope N_scope.

Inductive field :=
| FMsgType (tag : option (option N))           (* types.MsgType; tag = parsed `value:` (Some None: ParseUint error) *)
| FSOM (tag : option (option N))               (* types.SOM *)
| FData (k : kind) (off : nat) (vtag : option (option N))   (* `offset:N` field of a supported kind *)
| FSkip                                        (* no `offset:` tag (and not a header type): ignored both ways *)
| FUnsupported (off : nat).                    (* `offset:N` on a type the codec has no case for: panic *)

Definition layout := list field.

(* copy(bytes[off:off+w], bs) *)
Definition copy_at (buf : list N) (off w : nat) (bs : list N) : outcome (list N) :=
  if Nat.leb (off + w) (length buf) then Ok (write_at buf off (firstn w bs)) else Panic.

(* value of a header field without a tag: byte(f.Uint()) *)
Definition hdr_byte (tag : option (option N)) (v : fval) : outcome N :=
  match tag with
  | Some (Some t) => Ok t
  | Some None => Err
  | None => match v with VN n => Ok (n mod 256) | _ => Ok 0 end
  end.

Definition set_nth (buf : list N) (i : nat) (x : N) : list N := write_at buf i [x].

Definition marshal_field (f : field) (v : fval) (buf : list N) : outcome (list N) :=
  match f with
  | FSOM tag => b <- hdr_byte tag v ;; Ok (set_nth buf 0 b)
  | FMsgType tag => b <- hdr_byte tag v ;; Ok (set_nth buf 1 b)
  | FSkip => Ok buf
  | FUnsupported _ => Panic
  | FData k off vtag =>
      match enc k vtag v with
      | EWrite bs w => copy_at buf off w bs
      | ESkip => Ok buf
      | EErr => Err
      end
  end.

Fixpoint marshal_fields (L : layout) (vs : list fval) (buf : list N) : outcome (list N) :=
  match L, vs with
  | f :: L', v :: vs' => b <- marshal_field f v buf ;; marshal_fields L' vs' b
  | _, _ => Ok buf
  end.

(* bytes := make([]byte, 64); bytes[0] = 0x17; marshal(...) *)
Definition marshal (L : layout) (vs : list fval) : outcome (list N) :=
  marshal_fields L vs (0x17 :: repeat 0 63).

(* one field of unmarshal; result = new value of the field (untouched = its zero value) *)
Definition unmarshal_field (f : field) (buf : list N) : outcome fval :=
  match f with
  | FSOM _ => Ok (VN 0)                          (* not an offset field: `continue` *)
  | FSkip => Ok VNil
  | FUnsupported _ => Panic
  | FMsgType tag =>
      match tag with
      | Some None => Err
      | _ => let expect := match tag with Some (Some t) => t | _ => 0 end in
             match nth_error buf 1 with
             | Some b => if b =? expect then Ok (VN b) else Err
             | None => Panic
             end
      end
  | FData k off vtag =>
      if Nat.leb (off + width k) (length buf)
      then match dec k vtag (sub buf off (width k)) with
           | Ok (Some v) => Ok v
           | Ok None => Ok (zero_of k)
           | Err => Err
           | Panic => Panic
           end
      else Panic
  end.

Fixpoint unmarshal_fields (L : layout) (buf : list N) : outcome (list fval) :=
  match L with
  | [] => Ok []
  | f :: L' => v <- unmarshal_field f buf ;; vs <- unmarshal_fields L' buf ;; Ok (v :: vs)
  end.

(* len(bytes) != 64 -> error; SOM gate; then the fields *)
Definition som_ok (buf : list N) : bool :=
  match buf with
  | b0 :: b1 :: _ => (b0 =? 0x17) || ((b0 =? 0x19) && (b1 =? 0x20))
  | _ => false
  end.

Definition unmarshal (L : layout) (buf : list N) : outcome (list fval) :=
  if negb (Nat.eqb (length buf) 64) then Err
  else if negb (som_ok buf) then Err
  else unmarshal_fields L buf.

(* Go evaluates fields in order and stops at the first error/panic; [unmarshal_fields] above evaluates in the
   same order (obind is strict left to right). *)

(* ---------- well-formed layouts (the hypothesis of the C18 theorems) ---------- *)
(* bytes a field occupies: data fields at their offset, the header fields at bytes 0 (SOM) and 1 (MsgType) *)
Definition fspan (f : field) : option (nat * nat) :=
  match f with
  | FSOM _ => Some (0, 1)%nat
  | FMsgType _ => Some (1, 1)%nat
  | FData k off _ => Some (off, width k)
  | _ => None
  end.

Definition data_span (f : field) : option (nat * nat) :=
  match f with FData k off _ => Some (off, width k) | _ => None end.

Definition span_ok (s : nat * nat) : bool := Nat.leb 2 (fst s) && Nat.leb (fst s + snd s) 64.
Definition spans_disjoint (a b : nat * nat) : bool :=
  Nat.leb (fst a + snd a) (fst b) || Nat.leb (fst b + snd b) (fst a).

Fixpoint collect {A} (g : field -> option A) (L : layout) : list A :=
  match L with
  | [] => []
  | f :: L' => match g f with Some s => s :: collect g L' | None => collect g L' end
  end.

Definition spans (L : layout) : list (nat * nat) := collect data_span L.
Definition all_spans (L : layout) : list (nat * nat) := collect fspan L.

Fixpoint pairwise_disjoint (l : list (nat * nat)) : bool :=
  match l with
  | [] => true
  | s :: r => forallb (spans_disjoint s) r && pairwise_disjoint r
  end.

Definition field_supported (f : field) : bool :=
  match f with
  | FUnsupported _ => false
  | FMsgType (Some (Some t)) => t <? 256
  | FMsgType _ => false                         (* the function code must be a fixed, parseable tag *)
  | FSOM (Some (Some t)) => t <? 256
  | FSOM _ => false
  | FData KU8 _ (Some None) => false
  | FData KU8 _ (Some (Some t)) => t <? 256
  | _ => true
  end.

Definition count_msgtype (L : layout) : nat :=
  length (filter (fun f => match f with FMsgType _ => true | _ => false end) L).

(* supported kinds and parseable tags; every data field inside bytes 2..63; no two fields (header fields
   included, so at most one SOM and one MsgType) share a byte *)
Definition wf_layout (L : layout) : bool :=
  forallb field_supported L && forallb span_ok (spans L) && pairwise_disjoint (all_spans L).
