(* Model of the part of Go's time package the library relies on, and of the date / date-time constructors of package
   types on top of it.  A time zone is an offset function  off : Z -> Z  (seconds east of UTC at a UTC instant); for
   execution it is given by a transition table extracted from Go for the process zone.  No proofs here.

   time.Date(y,m,d,h,mi,s,0,loc)   = go_date off (unix_of_civil ...)     (time.go: "Look for zone offset for expected time")
   t.Year()/Month()/Day()/Format   = civil_of_unix (t + off t)
   time.ParseInLocation(layout without zone, s, loc) = time.Date of the parsed fields *)
From UV Require Import Base.Bytes.
Open Scope Z_scope.

(* ---------- proleptic Gregorian calendar (days relative to 1970-01-01) ---------- *)
Definition days_from_civil (y m d : Z) : Z :=
  let y' := if m <=? 2 then y - 1 else y in
  let era := y' / 400 in
  let yoe := y' - era * 400 in
  let mp := if 2 <? m then m - 3 else m + 9 in
  let doy := (153 * mp + 2) / 5 + d - 1 in
  let doe := yoe * 365 + yoe / 4 - yoe / 100 + doy in
  era * 146097 + doe - 719468.

Definition civil_from_days (z0 : Z) : Z * Z * Z :=
  let z := z0 + 719468 in
  let era := z / 146097 in
  let doe := z - era * 146097 in
  let yoe := (doe - doe / 1460 + doe / 36524 - doe / 146096) / 365 in
  let y := yoe + era * 400 in
  let doy := doe - (365 * yoe + yoe / 4 - yoe / 100) in
  let mp := (5 * doy + 2) / 153 in
  let d := doy - (153 * mp + 2) / 5 + 1 in
  let m := if mp <? 10 then mp + 3 else mp - 9 in
  (if m <=? 2 then y + 1 else y, m, d).

Definition is_leap_year (y : Z) : bool := (y mod 4 =? 0) && (negb (y mod 100 =? 0) || (y mod 400 =? 0)).
Definition days_in_month (y m : Z) : Z :=
  if m =? 2 then (if is_leap_year y then 29 else 28)
  else if (m =? 4) || (m =? 6) || (m =? 9) || (m =? 11) then 30 else 31.
Definition valid_md (y m d : Z) : bool := (1 <=? m) && (m <=? 12) && (1 <=? d) && (d <=? days_in_month y m).
Definition valid_tod (h mi s : Z) : bool := (0 <=? h) && (h <? 24) && (0 <=? mi) && (mi <? 60) && (0 <=? s) && (s <? 60).

Definition civil := (Z * Z * Z * Z * Z * Z)%type.     (* y m d h mi s *)

Definition unix_of_civil (c : civil) : Z :=
  let '(y, m, d, h, mi, s) := c in days_from_civil y m d * 86400 + h * 3600 + mi * 60 + s.

Definition civil_of_unix (u : Z) : civil :=
  let days := u / 86400 in
  let sod := u mod 86400 in
  let '(y, m, d) := civil_from_days days in
  (y, m, d, sod / 3600, (sod mod 3600) / 60, sod mod 60).

(* ---------- zones ---------- *)
(* transition table: initial offset and (instant, new offset) pairs in increasing order *)
Definition ztable := (Z * list (Z * Z))%type.

Fixpoint off_list (cur : Z) (l : list (Z * Z)) (t : Z) : Z :=
  match l with
  | [] => cur
  | (at_, o) :: r => if t <? at_ then cur else off_list o r t
  end.
Definition off_table (z : ztable) (t : Z) : Z := off_list (fst z) (snd z) t.

(* decidable well-formedness of a transition table for the window hypothesis of Proofs/ZoneProofs.v: every offset within
   +-B, transitions in increasing order and more than 2B apart *)
Fixpoint chain (B prev : Z) (l : list (Z * Z)) : bool :=
  match l with
  | [] => true
  | (at_, o) :: r => (prev + 2 * B <? at_) && (- B <=? o) && (o <=? B) && chain B at_ r
  end.
Definition table_ok (B : Z) (z : ztable) : bool :=
  (0 <=? B) && (- B <=? fst z) && (fst z <=? B) &&
  match snd z with [] => true | (at_, o) :: r => (- B <=? o) && (o <=? B) && chain B at_ r end.

Section Zone.
  Variable off : Z -> Z.

  (* wall-clock reading of a UTC instant, as seconds "as if UTC" *)
  Definition local (t : Z) : Z := t + off t.

  (* time.Date's adjustment from "wall clock read as UTC" to the UTC instant *)
  Definition go_date (u0 : Z) : Z := u0 - off (u0 - off u0).

  Definition time_date (c : civil) : Z := go_date (unix_of_civil c).
  Definition civil_in (t : Z) : civil := civil_of_unix (local t).
  Definition date_in (t : Z) : Z * Z * Z := let '(y, m, d, _, _, _) := civil_in t in (y, m, d).

  (* types.ToDate / ParseDate / Date wire and JSON decoding: the start of the calendar day in the local zone -
     the first whole hour h = 0..23 for which time.Date reads back the requested day; midnight if there is none *)
  Fixpoint first_hour (y m d : Z) (hours : list Z) : option Z :=
    match hours with
    | [] => None
    | h :: r => let t := time_date (y, m, d, h, 0, 0) in
                let '(y', m', d') := date_in t in
                if (y' =? y) && (m' =? m) && (d' =? d) then Some t else first_hour y m d r
    end.
  Definition hours24 : list Z := [0;1;2;3;4;5;6;7;8;9;10;11;12;13;14;15;16;17;18;19;20;21;22;23].
  Definition local_date (y m d : Z) : Z :=
    match first_hour y m d hours24 with Some t => t | None => time_date (y, m, d, 0, 0, 0) end.

  (* the code before the repair: local midnight only *)
  Definition local_date_midnight (y m d : Z) : Z := time_date (y, m, d, 0, 0, 0).

  (* status: controller system date and time of day recombined (get_status.go, listen.go) *)
  Definition sys_datetime (y m d h mi s : Z) : civil := civil_in (time_date (y, m, d, h, mi, s)).

  (* does a civil time exist in the zone?  (candidates: the instants u0 - o for the offsets in force around u0) *)
  Definition exists_civil (c : civil) : bool :=
    let u0 := unix_of_civil c in
    let cand := [u0 - off u0; u0 - off (u0 - off u0); u0 - off (u0 - 86400); u0 - off (u0 + 86400)] in
    existsb (fun t => local t =? u0) cand.
End Zone.
