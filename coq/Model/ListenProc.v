(* C10: the receiver goroutine, the unbuffered pipe and the dispatcher goroutine of Listen (uhppote/listen.go,
   uhppote.go listen, UT0311.go Listen) as a two-process transition system; ALL interleavings.
   Steps: read-bad (OnError), read-ok (offer on the pipe), hand-off (rendezvous), deliver (OnEvent), signal, receiver
   stop (socket closed: unread datagrams are dropped), dispatcher stop.  Model and proofs in one Section over abstract
   datagrams/events; instantiated with Model/Listen.v in Properties/C10.v. *)
From Coq Require Import List Bool Lia.
Import ListNotations.

Section Listener.
  Variable dgram event : Type.
  Variable wf : dgram -> bool.          (* handler accepts: length, serial, decode ok *)
  Variable decode : dgram -> event.     (* meaningful when wf d = true *)

  Inductive cb := Connected | Ev (e : event) | Er (d : dgram).

  Inductive rx := RxIdle | RxOffer (e : event) | RxDone.
  Inductive dx := DxWait | DxHold (e : event) | DxDone.

  Record st := { inbox : list dgram; r : rx; d : dx; trace : list cb; closing : bool }.

  (* all interleavings of the receiver, the rendezvous on the unbuffered channel and the dispatcher *)
  Inductive step : st -> st -> Prop :=
  | s_read_bad : forall x xs dd tr c, wf x = false ->
      step {| inbox := x :: xs; r := RxIdle; d := dd; trace := tr; closing := c |}
           {| inbox := xs; r := RxIdle; d := dd; trace := tr ++ [Er x]; closing := c |}
  | s_read_ok : forall x xs dd tr c, wf x = true ->
      step {| inbox := x :: xs; r := RxIdle; d := dd; trace := tr; closing := c |}
           {| inbox := xs; r := RxOffer (decode x); d := dd; trace := tr; closing := c |}
  | s_handoff : forall xs e tr c,
      step {| inbox := xs; r := RxOffer e; d := DxWait; trace := tr; closing := c |}
           {| inbox := xs; r := RxIdle; d := DxHold e; trace := tr; closing := c |}
  | s_deliver : forall xs rr e tr c,
      step {| inbox := xs; r := rr; d := DxHold e; trace := tr; closing := c |}
           {| inbox := xs; r := rr; d := DxWait; trace := tr ++ [Ev e]; closing := c |}
  | s_signal : forall xs rr dd tr,                      (* q fires at any moment *)
      step {| inbox := xs; r := rr; d := dd; trace := tr; closing := false |}
           {| inbox := xs; r := rr; d := dd; trace := tr; closing := true |}
  | s_rx_stop : forall xs dd tr,                         (* socket closed: the read fails, loop exits; unread datagrams are dropped *)
      step {| inbox := xs; r := RxIdle; d := dd; trace := tr; closing := true |}
           {| inbox := []; r := RxDone; d := dd; trace := tr; closing := true |}
  | s_dx_stop : forall xs tr,                            (* pipe closed after the receiver ended *)
      step {| inbox := xs; r := RxDone; d := DxWait; trace := tr; closing := true |}
           {| inbox := xs; r := RxDone; d := DxDone; trace := tr; closing := true |}.

  Inductive steps : st -> st -> Prop :=
  | steps_refl : forall s, steps s s
  | steps_cons : forall s1 s2 s3, step s1 s2 -> steps s2 s3 -> steps s1 s3.

  Definition init (ds : list dgram) : st :=
    {| inbox := ds; r := RxIdle; d := DxWait; trace := [Connected]; closing := false |}.

  Definition events (tr : list cb) : list event :=
    flat_map (fun c => match c with Ev e => [e] | _ => [] end) tr.
  Definition errors (tr : list cb) : list dgram :=
    flat_map (fun c => match c with Er x => [x] | _ => [] end) tr.

  Definition rx_pending (x : rx) : list event := match x with RxOffer e => [e] | _ => [] end.
  Definition dx_pending (x : dx) : list event := match x with DxHold e => [e] | _ => [] end.

  Definition good (xs : list dgram) := map decode (filter wf xs).
  Definition bad (xs : list dgram) := filter (fun x => negb (wf x)) xs.

  (* consumed = what has been taken from the inbox so far; the invariant is stated with an explicit
     consumed prefix so that dropped datagrams at shutdown are accounted for *)
  Definition inv (ds : list dgram) (s : st) : Prop :=
    exists consumed rest, ds = consumed ++ rest /\
      (inbox s = rest \/ (r s = RxDone /\ inbox s = [])) /\
      events (trace s) ++ dx_pending (d s) ++ rx_pending (r s) = good consumed /\
      errors (trace s) = bad consumed /\
      hd_error (trace s) = Some Connected.

  Lemma events_app a b : events (a ++ b) = events a ++ events b.
  Proof. unfold events. apply flat_map_app. Qed.
  Lemma errors_app a b : errors (a ++ b) = errors a ++ errors b.
  Proof. unfold errors. apply flat_map_app. Qed.
  Lemma good_snoc c x : good (c ++ [x]) = good c ++ (if wf x then [decode x] else []).
  Proof. unfold good. rewrite filter_app, map_app. cbn. destruct (wf x); reflexivity. Qed.
  Lemma bad_snoc c x : bad (c ++ [x]) = bad c ++ (if wf x then [] else [x]).
  Proof. unfold bad. rewrite filter_app. cbn. destruct (wf x); reflexivity. Qed.
  Lemma hd_app_some {A} (a b : list A) x : hd_error a = Some x -> hd_error (a ++ b) = Some x.
  Proof. destruct a; cbn; [discriminate|auto]. Qed.

  Lemma inv_init ds : inv ds (init ds).
  Proof. exists [], ds. cbn. auto. Qed.

  Lemma inv_step ds s s' : inv ds s -> step s s' -> inv ds s'.
  Proof.
    intros [c [rest [Hds [Hin [Hev [Her Hhd]]]]]] Hst.
    inversion Hst; subst; cbn [inbox r d trace closing rx_pending dx_pending] in *;
      rewrite ?app_nil_r in *.
    - (* read bad *)
      destruct Hin as [Hin|[Hr _]]; [|discriminate]. subst rest.
      exists (c ++ [x]), xs. rewrite <- app_assoc. cbn [app inbox r d trace closing rx_pending dx_pending].
      rewrite events_app, errors_app, good_snoc, bad_snoc, H. cbn [events errors flat_map app].
      rewrite ?app_nil_r. repeat split; auto. { congruence. } apply hd_app_some; exact Hhd.
    - (* read ok *)
      destruct Hin as [Hin|[Hr _]]; [|discriminate]. subst rest.
      exists (c ++ [x]), xs. rewrite <- app_assoc. cbn [app inbox r d trace closing rx_pending dx_pending].
      rewrite good_snoc, bad_snoc, H. rewrite ?app_nil_r. repeat split; auto.
      rewrite <- Hev. rewrite <- !app_assoc. reflexivity.
    - (* handoff *)
      exists c, rest. cbn [inbox r d trace closing rx_pending dx_pending]. rewrite ?app_nil_r. repeat split; auto.
      destruct Hin as [Hin|[Hr _]]; [left; auto|discriminate].
    - (* deliver *)
      exists c, rest. cbn [inbox r d trace closing rx_pending dx_pending].
      rewrite events_app, errors_app. cbn [events errors flat_map app]. rewrite ?app_nil_r. repeat split; auto.
      + rewrite <- Hev. rewrite <- !app_assoc. reflexivity.
      + apply hd_app_some; exact Hhd.
    - (* signal *) exists c, rest. cbn [inbox r d trace closing rx_pending dx_pending]. rewrite ?app_nil_r. repeat split; auto.
    - (* rx stop *) exists c, rest. cbn [inbox r d trace closing rx_pending dx_pending]. rewrite ?app_nil_r. repeat split; auto.
    - (* dx stop *) exists c, rest. cbn [inbox r d trace closing rx_pending dx_pending]. rewrite ?app_nil_r. repeat split; auto.
  Qed.

  Theorem inv_steps ds s : steps (init ds) s -> inv ds s.
  Proof.
    intros H. remember (init ds) as s0 eqn:E.
    assert (I0 : inv ds s0) by (subst; apply inv_init).
    clear E. induction H; auto. apply IHsteps. eapply inv_step; eauto.
  Qed.

  (* C10 for all interleavings: at every reachable state the delivered events are a prefix of the valid
     datagrams in arrival order; at quiescence without shutdown every datagram has produced exactly one callback *)
  Theorem listener_prefix ds s : steps (init ds) s ->
    exists consumed, (exists rest, ds = consumed ++ rest) /\
      (exists pending, events (trace s) ++ pending = good consumed) /\ errors (trace s) = bad consumed.
  Proof.
    intros H. destruct (inv_steps ds s H) as [c [rest [Hds [_ [Hev [Her _]]]]]].
    exists c. split; [eauto|]. split; [eauto|exact Her].
  Qed.

  Theorem listener_complete ds s : steps (init ds) s ->
    inbox s = [] -> r s = RxIdle -> d s = DxWait ->
    events (trace s) = good ds /\ errors (trace s) = bad ds /\ hd_error (trace s) = Some Connected.
  Proof.
    intros H Hi Hr Hd. destruct (inv_steps ds s H) as [c [rest [Hds [Hin [Hev [Her Hhd]]]]]].
    rewrite Hr, Hd in *. cbn in Hev. rewrite app_nil_r in Hev.
    destruct Hin as [Hin|[Hx _]]; [|discriminate].
    rewrite Hi in Hin. subst rest. rewrite app_nil_r in Hds. subst c. auto.
  Qed.
End Listener.
