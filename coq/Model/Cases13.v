(* Case evaluation for C13: the date / date-time constructors of package types under the process zone, whose
   transition table (extracted from Go by the harness) instantiates the abstract offset function of Model/GoTime.v. *)
From UV Require Import Base.Bytes Model.BCD Model.WireTypes Model.GoTime Spec.WireSpec.
Open Scope Z_scope.

Inductive case13 :=
| CDateCtor (z : ztable) (ctor : N) (y m d : Z) (obs : Z * Z * Z) (enc : list N)
| CDateTime (z : ztable) (c : civil) (obs : civil)
| CSysDT (z : ztable) (c : civil) (obs : civil)
| CZoneOK (z : ztable).           (* the zone's table satisfies the hypothesis of the C13 theorems (B = 16 h) *)

Definition civil_eqb (a b : civil) : bool :=
  let '(y1, m1, d1, h1, n1, s1) := a in let '(y2, m2, d2, h2, n2, s2) := b in
  (y1 =? y2) && (m1 =? m2) && (d1 =? d2) && (h1 =? h2) && (n1 =? n2) && (s1 =? s2).
Definition ymd_eqb (a b : Z * Z * Z) : bool :=
  let '(y1, m1, d1) := a in let '(y2, m2, d2) := b in (y1 =? y2) && (m1 =? m2) && (d1 =? d2).

Definition enc_of (t : Z) (ymd : Z * Z * Z) : list N :=
  let '(y, m, d) := ymd in
  if t =? -62135596800 then [0; 0; 0; 0]%N
  else match bcd_encode (fmt_int 4 y ++ fmt_int 2 m ++ fmt_int 2 d) with Some b => b | None => [] end.

Definition model_ok13 (c : case13) : bool :=
  match c with
  | CDateCtor z ctor y m d obs enc =>
      let off := off_table z in
      let t := local_date off y m d in
      ymd_eqb (date_in off t) obs && nlist_eqb (enc_of t (date_in off t)) enc
  | CDateTime z c obs => let off := off_table z in civil_eqb (civil_in off (time_date off c)) obs
  | CSysDT z c obs =>
      let off := off_table z in
      let '(y, m, d, h, mi, s) := c in
      (* the system date is a Date-like value (start of its day), the time of day is parsed on 0000-01-01; both are
         formatted back and the text re-parsed in the local zone *)
      let '(y', m', d') := date_in off (local_date off y m d) in
      let '(_, _, _, h', mi', s') := civil_in off (time_date off (0, 1, 1, h, mi, s)) in
      civil_eqb (civil_in off (time_date off (y', m', d', h', mi', s'))) obs
  | CZoneOK z => true
  end.

(* C13 from the property text: exactly that year, month and day - and exactly those digits - unless the zone skipped
   the calendar day entirely; a date-time reports the transmitted fields whenever that civil time exists in the zone *)
Definition day_exists (off : Z -> Z) (y m d : Z) : bool :=
  existsb (fun h => exists_civil off (y, m, d, h, 0, 0) || exists_civil off (y, m, d, h, 30, 0) || exists_civil off (y, m, d, h, 59, 59)) hours24.

Definition spec_ok13 (c : case13) : bool :=
  match c with
  | CDateCtor z ctor y m d obs enc =>
      let off := off_table z in
      if day_exists off y m d then ymd_eqb obs (y, m, d) && nlist_eqb enc (spec_date_bytes y m d) else true
  | CDateTime z c obs => if exists_civil (off_table z) c then civil_eqb obs c else true
  | CSysDT z c obs =>
      let '(y, m, d, h, mi, s) := c in
      if exists_civil (off_table z) c && exists_civil (off_table z) (0, 1, 1, h, mi, s) then civil_eqb obs c else true
  | CZoneOK z => table_ok 57600 z
  end.
