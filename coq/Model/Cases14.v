(* C14 cases and oracle: JSON / text forms of the value types of package types. *)
From UV Require Import Base.Bytes Model.WireTypes Model.Addr Model.Cases15 Model.TextForms Model.TextComposites.
Open Scope N_scope.

Definition to_json (t : ty) (v : cv) (aux : list N) : option json :=
  let str o := match o with Some s => Some (JStr s) | None => None end in
  match t with
  | TyDate => str (date_to v)
  | TyDateTime => str (datetime_to v aux)
  | TyHHmm => str (hhmm_to v)
  | TyPIN => str (pin_to v)
  | TyControl => str (control_to v)
  | TyTaskType => str (tasktype_to v)
  | TyVersion => str (version_to v)
  | TyMAC => str (mac_to v)
  | TyAddr r => str (addr_to r v)
  | TyWeekdays => str (weekdays_to v)
  | TySegments => segments_to v
  | TyCard => card_to v
  | TyProfile => profile_to v
  | TyTask => task_to v
  end.

Definition of_json_a (inforce : list N) (t : ty) (prior : list cv) (j : json) : presult cv :=
  let opt o := match o with Some v => POk v | None => PErr end in
  match t, j with
  | TyDate, JStr s => opt (date_of s)
  | TyDate, JNull => POk cv_date_zero
  | TyDateTime, JStr s => match datetime_of inforce s with DOk v => POk v | DErr => PErr | DUnknown => PUnknown end
  | TyDateTime, JNull => POk (VL [VZ 1; VZ 1; VZ 1; VZ 0; VZ 0; VZ 0])
  | TyHHmm, JStr s => opt (hhmm_of s)
  | TyPIN, JStr s => opt (pin_of s)
  | TyPIN, JNull => POk (VZ 0)
  | TyControl, JStr s => opt (control_of s)
  | TyTaskType, JNum n => opt (tasktype_of_num n)
  | TyTaskType, JStr s => opt (tasktype_of_name s)
  | TyVersion, JStr s => match version_of s with Some v => POk v | None => PUnknown end
  | TyMAC, JStr s => match mac_of s with Some v => POk v | None => PUnknown end
  | TyAddr r, JStr s => addr_of r s
  | TyWeekdays, JStr s => opt (weekdays_of s)
  | TyWeekdays, JNull => opt (weekdays_of [])              (* null leaves the intermediate string empty *)
  | TySegments, _ => opt (segments_of prior j)
  | TyCard, _ => card_of j
  | TyProfile, _ => profile_of j
  | TyTask, _ => task_of j
  | _, _ => PErr
  end.

Definition of_json := of_json_a [].

Fixpoint cv_eqb (a b : cv) {struct a} : bool :=
  match a, b with
  | VZ x, VZ y => (x =? y)%Z
  | VS x, VS y => nlist_eqb x y
  | VL x, VL y => (fix go (x y : list cv) : bool :=
                     match x, y with [], [] => true | p :: x', q :: y' => cv_eqb p q && go x' y' | _, _ => false end) x y
  | _, _ => false
  end.

Fixpoint json_eqb (a b : json) {struct a} : bool :=
  match a, b with
  | JStr x, JStr y => nlist_eqb x y
  | JNum x, JNum y => (x =? y)%Z
  | JBool x, JBool y => Bool.eqb x y
  | JNull, JNull => true
  | JArr x, JArr y => (fix go (x y : list json) : bool :=
                         match x, y with [], [] => true | p :: x', q :: y' => json_eqb p q && go x' y' | _, _ => false end) x y
  | JObj x, JObj y => (fix go (x y : list (list N * json)) : bool :=
                         match x, y with
                         | [], [] => true
                         | (k, p) :: x', (k', q) :: y' => nlist_eqb k k' && json_eqb p q && go x' y'
                         | _, _ => false end) x y
  | _, _ => false
  end.

Inductive case14 :=
| CRound (t : ty) (v : cv) (aux : list N) (j : json) (back : option cv)     (* encode, then decode into a fresh zero value *)
| COf (t : ty) (prior : list cv) (j : json) (obs : option cv)
| CText (k : N) (s : list N) (obs : option cv)
| CTextRound (k : N) (v : cv) (s : list N) (obs : option cv).               (* String() of a value fed back to its parser *)

Definition res_ok (m : presult cv) (obs : option cv) : bool :=
  match m, obs with
  | PUnknown, _ => true
  | POk v, Some w => cv_eqb v w
  | PErr, None => true
  | _, _ => false
  end.

(* the text parsers: 0 ParseDate, 1 HHmmFromString, 2 TimeFromString, 3 TaskType.UnmarshalTSV, 4 CardFormatFromString *)
Fixpoint is_prefix_ci (p l : list N) : bool :=
  match p, l with [], _ => true | x :: p', y :: l' => (lower x =? lower y) && is_prefix_ci p' l' | _, [] => false end.
Fixpoint contains_ci (pat s : list N) : bool :=
  is_prefix_ci pat s || match s with [] => false | _ :: r => contains_ci pat r end.

Definition s_any := [97;110;121].
Definition s_wiegand := [119;105;101;103;97;110;100].
Fixpoint has_w26 (s : list N) : bool :=
  (is_prefix_ci s_wiegand s &&
   let r := skipn 7 s in
   is_prefix_ci [50;54] r || match r with c :: r' => ((c =? 32) || (c =? 45)) && is_prefix_ci [50;54] r' | [] => false end)
  || match s with [] => false | _ :: r => has_w26 r end.

Definition text_of (k : N) (s : list N) : presult cv :=
  let opt o := match o with Some v => POk v | None => PErr end in
  if k =? 0 then opt (parse_date_text s)
  else if k =? 1 then opt (hhmm_of s)
  else if k =? 2 then (match parse_time8 s with Some (h, m, se) => POk (VL [VZ h; VZ m; VZ se]) | None => PErr end)
  else if k =? 3 then opt (tasktype_of_text s)
  else if contains_ci s_any s then POk (VZ 0) else if has_w26 s then POk (VZ 1) else PErr.

(* String() of the five types with a text parser *)
Definition s_Wiegand26 := [87;105;101;103;97;110;100;45;50;54].
Definition text_to (k : N) (v : cv) : option (list N) :=
  if k =? 0 then date_to v
  else if k =? 1 then hhmm_to v
  else if k =? 2 then match v with VL [VZ h; VZ m; VZ s] => Some (str_time h m s) | _ => None end
  else if k =? 3 then tasktype_to v
  else match v with VZ 0 => Some s_any | VZ 1 => Some s_Wiegand26 | _ => None end.

Definition model_ok14 (c : case14) : bool :=
  match c with
  | CRound t v aux j back =>
      match to_json t v aux with Some mj => json_eqb mj j | None => false end && res_ok (of_json_a aux t [] j) back
  | COf t prior j obs => res_ok (of_json t prior j) obs
  | CText k s obs => res_ok (text_of k s) obs
  | CTextRound k v s obs => match text_to k v with Some ms => nlist_eqb ms s | None => false end && res_ok (text_of k s) obs
  end.

(* ---------- the property: round trip of in-domain values; the listed rejections ---------- *)
Definition hhmm_dom (h m : Z) : bool := ((0 <=? h) && (h <=? 23) && (0 <=? m) && (m <=? 59) || ((h =? 24) && (m =? 0)))%Z.
(* one entry of a Segments map: absent (and then nothing to compare), or present with two in-domain times *)
Definition seg_item_ok (it : cv) : bool :=
  match it with
  | VL [VZ 0; VL [VL [VZ 0; VZ 0]; VL [VZ 0; VZ 0]]]%Z => true
  | VL [VZ 1; VL [VL [VZ h1; VZ m1]; VL [VZ h2; VZ m2]]]%Z => hhmm_dom h1 m1 && hhmm_dom h2 m2
  | _ => false
  end.
(* no id absent below one that is present (see F15 for the others) *)
Definition no_gap (v : cv) : bool :=
  match v with
  | VL [VL (VZ a :: _); VL (VZ b :: _); VL (VZ c :: _)] => ((b <=? a) && (c <=? b))%Z
  | _ => false
  end.

(* domains of the text forms: as the JSON ones; ParseDate documents that the blank text of the zero date is refused *)
Definition text_dom (k : N) (v : cv) : bool :=
  if k =? 0 then match v with
                 | VL [VZ y; VZ m; VZ d] => (1 <=? y)%Z && (y <=? 9999)%Z && valid_ymd (Z.to_N y) (Z.to_N m) (Z.to_N d) && negb ((y =? 1) && (m =? 1) && (d =? 1))%Z
                 | _ => false end
  else if k =? 1 then match v with VL [VZ h; VZ m] => hhmm_dom h m | _ => false end
  else if k =? 2 then match v with VL [VZ h; VZ m; VZ s] => (0 <=? h)%Z && (0 <=? m)%Z && (0 <=? s)%Z && valid_hms (Z.to_N h) (Z.to_N m) (Z.to_N s) | _ => false end
  else if k =? 3 then match v with VZ t => ((0 <=? t) && (t <=? 12))%Z | _ => false end
  else match v with VZ 0 | VZ 1 => true | _ => false end.

Definition date_dom14 (y m d : Z) : bool :=
  ((y =? 1) && (m =? 1) && (d =? 1))%Z || ((1 <=? y)%Z && (y <=? 9999)%Z && valid_ymd (Z.to_N y) (Z.to_N m) (Z.to_N d) && (0 <=? m)%Z && (0 <=? d)%Z).

Definition in_dom (t : ty) (v : cv) : bool :=
  match t, v with
  | TyDate, VL [VZ y; VZ m; VZ d] => ((y =? 1) && (m =? 1) && (d =? 1))%Z || ((1 <=? y)%Z && (y <=? 9999)%Z && valid_ymd (Z.to_N y) (Z.to_N m) (Z.to_N d))
  | TyDateTime, VL [VZ y; VZ m; VZ d; VZ h; VZ mi; VZ s] =>
      ((1 <=? y)%Z && (y <=? 9999)%Z && valid_ymd (Z.to_N y) (Z.to_N m) (Z.to_N d) && (0 <=? h)%Z && (0 <=? mi)%Z && (0 <=? s)%Z
       && valid_hms (Z.to_N h) (Z.to_N mi) (Z.to_N s))
  | TyHHmm, VL [VZ h; VZ m] => hhmm_dom h m
  | TyPIN, VZ p => ((0 <=? p) && (p <=? 999999))%Z
  | TyControl, VZ s => ((1 <=? s) && (s <=? 3))%Z
  | TyTaskType, VZ t' => ((0 <=? t') && (t' <=? 12))%Z
  | TyVersion, VZ n => ((0 <=? n) && (n <? 65536))%Z
  | TyMAC, VS b => Nat.eqb (length b) 6 && forallb (fun x => x <? 256) b
  | TyAddr r, VL [VS a; VZ p] => Nat.eqb (length a) 4 && forallb (fun x => x <? 256) a && (0 <=? p)%Z && (p <? 65536)%Z && rule r (Z.to_N p)
  | TyWeekdays, VL fl => Nat.eqb (length fl) 7 && forallb (fun x => match x with VZ 0 | VZ 1 => true | _ => false end) fl
  | TySegments, VL its => Nat.eqb (length its) 3 && forallb seg_item_ok its
  | TyCard, VL [VZ n; VL [VZ y1; VZ m1; VZ d1]; VL [VZ y2; VZ m2; VZ d2]; VL [VZ a; VZ b; VZ c; VZ d]; VZ pin] =>
      (* the decoder demands both dates: a card without dates is outside the JSON domain *)
      ((0 <=? n) && (n <? 4294967296))%Z && text_dom 0 (VL [VZ y1; VZ m1; VZ d1]) && text_dom 0 (VL [VZ y2; VZ m2; VZ d2])
      && forallb (fun x => (0 <=? x) && (x <? 256))%Z [a; b; c; d] && ((0 <=? pin) && (pin <=? 999999))%Z
  | TyProfile, VL [VZ id; VZ linked; VL [VZ y1; VZ m1; VZ d1]; VL [VZ y2; VZ m2; VZ d2]; VL fl; VL [s1; s2; s3]] =>
      forallb (fun x => (0 <=? x) && (x <? 256))%Z [id; linked] && date_dom14 y1 m1 d1 && date_dom14 y2 m2 d2
      && Nat.eqb (length fl) 7 && forallb (fun x => match x with VZ 0 | VZ 1 => true | _ => false end) fl
      && forallb (fun it => match it with VL [VZ 1; _] => seg_item_ok it | _ => false end) [s1; s2; s3]
  | TyTask, VL [VZ ty; VZ door; VL [VZ y1; VZ m1; VZ d1]; VL [VZ y2; VZ m2; VZ d2]; VL fl; VL [VZ h; VZ mi]; VZ cards] =>
      ((0 <=? ty) && (ty <=? 12))%Z && forallb (fun x => (0 <=? x) && (x <? 256))%Z [door; cards] && date_dom14 y1 m1 d1 && date_dom14 y2 m2 d2
      && Nat.eqb (length fl) 7 && forallb (fun x => match x with VZ 0 | VZ 1 => true | _ => false end) fl && hhmm_dom h mi
  | _, _ => false
  end.

(* texts outside the domain that the property lists: they must be refused *)
Definition must_reject (t : ty) (j : json) : bool :=
  match t, j with
  | TyDate, JStr [y1;y2;y3;y4;c1;m1;m2;c2;d1;d2] =>
      (c1 =? 45) && (c2 =? 45) && forallb isdig [y1;y2;y3;y4;m1;m2;d1;d2]
      && negb (valid_ymd (Z.to_N (zd y1 * 1000 + zd y2 * 100 + zd y3 * 10 + zd y4)) (Z.to_N (num2 m1 m2)) (Z.to_N (num2 d1 d2)))
  | TyHHmm, JStr [h1;h2;c;m1;m2] =>
      (c =? 58) && forallb isdig [h1;h2;m1;m2] && ((24 <? num2 h1 h2) || (59 <? num2 m1 m2) || ((num2 h1 h2 =? 24) && negb (num2 m1 m2 =? 0)))%Z
  | TyPIN, JStr s => forallb isdig s && Nat.ltb 6 (length s)
  | TyControl, JStr s => negb (nlist_eqb s s_normally_open || nlist_eqb s s_normally_closed || nlist_eqb s s_controlled)
  | TyTaskType, JNum n => ((n <=? 0) || (14 <=? n))%Z
  | TyAddr r, JStr s => match canonical s with
                        | Some (_, Some p) => negb (rule r p)
                        | Some (_, None) => match dflt r with None => true | Some _ => false end
                        | None => false end
  | _, _ => false
  end.

Definition spec_ok14 (c : case14) : bool :=
  match c with
  | CRound t v aux j back => if in_dom t v then match back with Some w => cv_eqb w v | None => false end else true
  | COf t prior j obs => if must_reject t j then match obs with None => true | Some _ => false end else true
  | CText k s obs =>
      if k =? 0 then (if must_reject TyDate (JStr s) || match s with [] => true | _ => false end then match obs with None => true | _ => false end else true)
      else if k =? 1 then (if must_reject TyHHmm (JStr s) then match obs with None => true | _ => false end else true)
      else if k =? 3 then (if forallb isdig s && negb (Nat.eqb (length s) 0) && Nat.leb (length s) 9 && ((num_of_digits s =? 0) || (14 <=? num_of_digits s))
                           then match obs with None => true | _ => false end else true)
      else true
  | CTextRound k v s obs => if text_dom k v then match obs with Some w => cv_eqb w v | None => false end else true
  end.
