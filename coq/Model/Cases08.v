(* C08 / C09 cases: calls served on the loopback farm, in the order in which the farm saw their requests *)
From UV Require Import Base.Bytes Model.Driver.
Open Scope Z_scope.

Inductive case08 :=
| CServe (T : Z) (cs : list call) (obs : list res)
| CTimed (T : Z) (kind : nat) (delay_ms : option Z) (obs : res) (dur_ms : Z).

Definition res_eqb (a b : res) : bool :=
  match a, b with Reply x, Reply y => Nat.eqb x y | Timeout, Timeout => true | _, _ => false end.
Fixpoint ress_eqb (a b : list res) : bool :=
  match a, b with [] , [] => true | x :: a', y :: b' => res_eqb x y && ress_eqb a' b' | _, _ => false end.

(* the deadline is taken after the lock (the code as repaired); the model's outcome does not depend on the exact arrival
   times as long as every delay is well inside T, which is how the scenarios are generated *)
Definition model_ok08 (c : case08) : bool :=
  match c with
  | CServe T cs obs => ress_eqb (map (fun x => let '(_, r, _, _) := x in r) (serve T true 0 [] cs)) obs
  | CTimed T kind d obs dur =>
      match d with
      | Some dl => if dl <? T then res_eqb obs (Reply 0) else res_eqb obs Timeout
      | None => res_eqb obs Timeout
      end
  end.

(* C08: every call whose controller answers within T of being asked returns its own reply.
   C09: a call returns by its timeout (plus scheduling slack, 150 ms here), with an error if nothing acceptable arrived -
   and never early: a failure for lack of a reply takes the full timeout, a reply before the deadline is accepted *)
Definition slack : Z := 150.
Definition spec_ok08 (c : case08) : bool :=
  match c with
  | CServe T cs obs =>
      (fix go (cs : list call) (obs : list res) : bool :=
         match cs, obs with
         | [], [] => true
         | c :: cs', r :: obs' =>
             (match delay c with
              | Some d => if (0 <=? d) && (d <? T) then res_eqb r (Reply (tag c)) else true
              | None => res_eqb r Timeout
              end) && go cs' obs'
         | _, _ => false
         end) cs obs
  | CTimed T kind d obs dur =>
      (dur <=? T + slack) &&
      match d with
      | Some dl => if dl <? T - 40 then res_eqb obs (Reply 0) && (dl - 5 <=? dur)
                   else if T + 40 <? dl then res_eqb obs Timeout && (T - 5 <=? dur) else true
      | None => res_eqb obs Timeout && (match kind with 0%nat | 1%nat => T - 5 <=? dur | _ => true end)
      end
  end.
