(* Model of the four address parsers (types/bind_addr.go, broadcast_addr.go, listen_addr.go, controller_addr.go), the
   two unanchored regular expressions they use, and the parts of net/netip they call (ParseAddrPort, ParseAddr and
   parseIPv4 of Go 1.23; anything that leads into the IPv6 parser or the bracket syntax is [PUnknown]).  No proofs. *)
From UV Require Import Base.Bytes Model.WireTypes.
Open Scope N_scope.

Definition dig (c : N) : bool := (48 <=? c) && (c <=? 57).
Definition dot : N := 46.
Definition colon : N := 58.

(* ---------- the regular expressions, as list-of-successes matchers ---------- *)
(* remainders after [0-9]{1,3} *)
Definition take13 (s : list N) : list (list N) :=
  match s with
  | c1 :: r1 =>
      if dig c1 then
        r1 :: match r1 with
              | c2 :: r2 =>
                  if dig c2 then
                    r2 :: match r2 with
                          | c3 :: r3 => if dig c3 then [r3] else []
                          | [] => []
                          end
                  else []
              | [] => []
              end
      else []
  | [] => []
  end.

Definition take_dot (s : list N) : list (list N) :=
  match s with c :: r => if c =? dot then [r] else [] | [] => [] end.

Definition bind {A B} (l : list A) (f : A -> list B) : list B := flat_map f l.

(* remainders after [0-9]{1,3}\.[0-9]{1,3}\.[0-9]{1,3}\.[0-9]{1,3} at the start of s *)
Definition quad_rests (s : list N) : list (list N) :=
  bind (take13 s) (fun s1 => bind (take_dot s1) (fun s2 =>
  bind (take13 s2) (fun s3 => bind (take_dot s3) (fun s4 =>
  bind (take13 s4) (fun s5 => bind (take_dot s5) (fun s6 => take13 s6)))))).

Definition quad_hereb (s : list N) : bool := match quad_rests s with [] => false | _ => true end.

(* ... followed by :[0-9]{1,5} *)
Definition port_follows (r : list N) : bool :=
  match r with c :: d :: _ => (c =? colon) && dig d | _ => false end.
Definition quadport_hereb (s : list N) : bool := existsb port_follows (quad_rests s).

(* regexp.MatchString is unanchored: a match may start anywhere *)
Fixpoint contains_quad (s : list N) : bool :=
  quad_hereb s || match s with [] => false | _ :: r => contains_quad r end.
Fixpoint contains_quadport (s : list N) : bool :=
  quadport_hereb s || match s with [] => false | _ :: r => contains_quadport r end.

(* ---------- net/netip ---------- *)
Inductive presult (A : Type) := POk (a : A) | PErr | PUnknown.
Arguments POk {A} a. Arguments PErr {A}. Arguments PUnknown {A}.

(* parseIPv4: the loop over the characters; st = (fields so far (reversed), val, digLen) *)
Fixpoint ipv4_loop (s : list N) (first : bool) (prev_dot : bool) (fields : list N) (val : N) (diglen : nat) : presult (list N) :=
  match s with
  | [] => if Nat.ltb (length fields) 3 then PErr else POk (rev (val :: fields))
  | c :: r =>
      if dig c then
        if Nat.eqb diglen 1 && (val =? 0) then PErr                          (* octet with leading zero *)
        else let v := val * 10 + (c - 48) in
             if 255 <? v then PErr else ipv4_loop r false false fields v (S diglen)
      else if c =? dot then
        if first || (match r with [] => true | _ => false end) || prev_dot then PErr
        else if Nat.eqb (length fields) 3 then PErr                            (* too long *)
        else ipv4_loop r false true (val :: fields) 0 0
      else PErr
  end.

Definition parse_ipv4 (s : list N) : presult (list N) := ipv4_loop s true false [] 0 0.

(* ParseAddr: the first of '.', ':' and '%' decides *)
Fixpoint parse_addr_scan (s whole : list N) : presult (list N) :=
  match s with
  | [] => PErr
  | c :: r => if c =? dot then parse_ipv4 whole
              else if c =? colon then PUnknown
              else if c =? 37 then PErr
              else parse_addr_scan r whole
  end.
Definition parse_addr (s : list N) : presult (list N) := parse_addr_scan s s.

(* strconv.ParseUint(s, 10, 16) *)
Fixpoint parse_uint_loop (s : list N) (acc : N) : option N :=
  match s with
  | [] => Some acc
  | c :: r => if dig c then (let v := acc * 10 + (c - 48) in if 65535 <? v then None else parse_uint_loop r v) else None
  end.
Definition parse_port (s : list N) : option N := match s with [] => None | _ => parse_uint_loop s 0 end.

(* split at the last ':' *)
Fixpoint split_last_colon (s : list N) : option (list N * list N) :=
  match s with
  | [] => None
  | c :: r => match split_last_colon r with
              | Some (a, b) => Some (c :: a, b)
              | None => if c =? colon then Some ([], r) else None
              end
  end.

Definition parse_addrport (s : list N) : presult (list N * N) :=
  match split_last_colon s with
  | None => PErr
  | Some (ip, port) =>
      match ip with
      | [] => PErr
      | c :: _ =>
          if c =? 91 then PUnknown                                              (* '[' : bracket syntax *)
          else match port with
               | [] => PErr
               | _ => match parse_port port with
                      | None => PErr
                      | Some p => match parse_addr ip with
                                  | POk a => POk (a, p)
                                  | PErr => PErr
                                  | PUnknown => PUnknown
                                  end
                      end
               end
      end
  end.

(* ---------- the four roles ---------- *)
Inductive role := RBind | RBroadcast | RListen | RController.

Definition port_ok (r : role) (p : N) : bool :=
  match r with
  | RBind => negb (p =? 60000)
  | RBroadcast | RController => negb (p =? 0)
  | RListen => negb (p =? 0) && negb (p =? 60000)
  end.
Definition default_port (r : role) : option N :=
  match r with RBind => Some 0 | RBroadcast | RController => Some 60000 | RListen => None end.

Definition parse (r : role) (s : list N) : presult (list N * N) :=
  if contains_quadport s
  then match parse_addrport s with
       | POk (a, p) => if port_ok r p then POk (a, p) else PErr
       | PErr => PErr
       | PUnknown => PUnknown
       end
  else match default_port r with
       | Some dp => if contains_quad s
                    then match parse_addr s with POk a => POk (a, dp) | PErr => PErr | PUnknown => PUnknown end
                    else PErr
       | None => PErr
       end.

(* String(): "" when invalid; the default port is omitted (listen: never) *)
Definition quad_str (a : list N) : list N :=
  match a with
  | [a1; a2; a3; a4] => digits a1 ++ dot :: digits a2 ++ dot :: digits a3 ++ dot :: digits a4
  | _ => []
  end.
Definition format (r : role) (x : list N * N) : list N :=
  let '(a, p) := x in
  if (match r with RListen | RController => p =? 0 | _ => false end) then []     (* !IsValid(): port 0 *)
  else
  match default_port r with
  | Some dp => if p =? dp then quad_str a else quad_str a ++ colon :: digits p
  | None => quad_str a ++ colon :: digits p
  end.
