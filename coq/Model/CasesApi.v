(* Case evaluation for the API engine (C01, C02, C03, C06, C07, C11, C17, C04): one API call on a configured client
   with a scripted driver; observed = returned value (canonicalised) and the recorded driver calls. *)
From Coq Require Import String.
From UV Require Import Base.Bytes Model.WireTypes Model.Codec Model.Interp Model.Cases18 Model.Ops.

Inductive caseapi :=
| CApi (c : config) (o : op) (s : script) (res : result) (calls : list (endpoint * list N)).

Definition endpoint_eqb (a b : endpoint) : bool :=
  match a, b with
  | EBroadcast x p, EBroadcast y q | EBroadcastTo x p, EBroadcastTo y q | EUdp x p, EUdp y q | ETcp x p, ETcp y q =>
      nlist_eqb x y && (p =? q)%N
  | _, _ => false
  end.

Fixpoint calls_eqb (a b : list (endpoint * list N)) : bool :=
  match a, b with
  | [], [] => true
  | (e1, m1) :: a', (e2, m2) :: b' => endpoint_eqb e1 e2 && nlist_eqb m1 m2 && calls_eqb a' b'
  | _, _ => false
  end.

Fixpoint lists_eqb (a b : list (list fval)) : bool :=
  match a, b with
  | [], [] => true
  | x :: a', y :: b' => fvals_eqb x y && lists_eqb a' b'
  | _, _ => false
  end.

Definition result_eqb (a b : result) : bool :=
  match a, b with
  | RErr, RErr | RNone, RNone | RPanic, RPanic => true
  | RVals x, RVals y => fvals_eqb x y
  | RList x, RList y => lists_eqb x y
  | _, _ => false
  end.

Definition model_okA (c : caseapi) : bool :=
  match c with
  | CApi cfg o s res calls => let '(r, cs) := api cfg o s in result_eqb r res && calls_eqb cs calls
  end.
