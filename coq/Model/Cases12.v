(* Case evaluation for the C12 correspondence check (imported by generated cases files). *)
From UV Require Import Base.Bytes Model.BCD Spec.BCDSpec.

Inductive case12 :=
| CEnc (s : list N) (observed : option (list N))
| CDec (bs : list N) (observed : option (list N)).

Definition oleq := opt_eqb nlist_eqb.

(* model agrees with the implementation *)
Definition model_ok (c : case12) : bool :=
  match c with
  | CEnc s o => oleq (bcd_encode s) o
  | CDec b o => oleq (bcd_decode b) o
  end.

(* the implementation's behaviour is admitted by the specification (independent of the model) *)
Definition spec_ok (c : case12) : bool :=
  match c with
  | CEnc s o => oleq (spec_encode s) o &&
                match o with Some bs => oleq (spec_decode bs) (Some (pad s)) | None => true end
  | CDec b o => oleq (spec_decode b) o &&
                match o with Some s => oleq (spec_encode s) (Some b) | None => true end
  end.
