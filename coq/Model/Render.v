(* Model of the String / MarshalJSON methods that index a table with a value that can come from the wire.
   (All other String methods of returned types format their fields with fmt verbs and index nothing.) *)
From UV Require Import Base.Bytes.
Open Scope Z_scope.

Definition control_state_names : list (list N) :=
  [[]; [110;111;114;109;97;108;108;121;32;111;112;101;110]%N; [110;111;114;109;97;108;108;121;32;99;108;111;115;101;100]%N;
   [99;111;110;116;114;111;108;108;101;100]%N].

(* states := [...]string{...}; if v < 0 || int(v) >= len(states) { return "" }; return states[v] *)
Definition control_state_string (v : Z) : outcome (list N) :=
  if (v <? 0) || (Z.of_nat (length control_state_names) <=? v) then Ok []
  else match nth_error control_state_names (Z.to_nat v) with Some s => Ok s | None => Panic end.

(* ---------- codec.Dump: the hex dump the driver formats for every request and every received datagram ---------- *)
(* for ix := 0; ix < len(m); ix += 16 { chunk := m[ix:]; for i := 0; i < 8 && i < len(chunk); i++ { chunk[i] } ...
   for i := 8; i < 16 && i < len(chunk); i++ { chunk[i] } }.  The model returns the byte values printed per row (the
   "%02x" formatting itself cannot fail); fuel exhaustion is Err and is excluded by the theorem. *)
Open Scope nat_scope.
Fixpoint dump_cols (chunk : list N) (i n : nat) : outcome (list N) :=      (* columns i .. i+n-1 while i < len(chunk) *)
  match n with
  | O => Ok []
  | S n' => if Nat.ltb i (length chunk)
            then (b <- index chunk i ;; r <- dump_cols chunk (S i) n' ;; Ok (b :: r))
            else Ok []
  end.

Fixpoint dump_rows (m : list N) (ix fuel : nat) : outcome (list (list N)) :=
  match fuel with
  | O => Err
  | S f => if Nat.ltb ix (length m)
           then (chunk <- slice m ix (length m) ;;
                 lo <- dump_cols chunk 0 8 ;; hi <- dump_cols chunk 8 8 ;;
                 rest <- dump_rows m (ix + 16) f ;; Ok ((lo ++ hi) :: rest))
           else Ok []
  end.

Definition dump (m : list N) : outcome (list (list N)) := dump_rows m 0 (S (length m)).
Close Scope nat_scope.
