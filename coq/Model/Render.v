(* Model of the String / MarshalJSON methods that index a table with a value that can come from the wire.
   (All other String methods of returned types format their fields with fmt verbs and index nothing.) *)
From UV Require Import Base.Bytes.
Open Scope Z_scope.

Definition control_state_names : list (list N) :=
  [[]; [110;111;114;109;97;108;108;121;32;111;112;101;110]%N; [110;111;114;109;97;108;108;121;32;99;108;111;115;101;100]%N;
   [99;111;110;116;114;111;108;108;101;100]%N].

(* states := [...]string{...}; if v < 0 || int(v) >= len(states) { return "" }; return states[v] *)
Definition control_state_string (v : Z) : outcome (list N) :=
  if (v <? 0) || (Z.of_nat (length control_state_names) <=? v) then Ok []
  else match nth_error control_state_names (Z.to_nat v) with Some s => Ok s | None => Panic end.
