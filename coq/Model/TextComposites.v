(* JSON forms of the composite types of package types - Card, TimeProfile, Task - over JSON value trees, built from the
   scalar forms of Model/TextForms.v.  Modelled domain (what the library itself produces): a card's doors map has exactly
   the keys 1..4; weekday maps have all seven keys; a profile's segments map has the keys 1..3.  No proofs.
     card     = VL [VZ number; date; date; VL [VZ d1; VZ d2; VZ d3; VZ d4]; VZ pin]
     profile  = VL [VZ id; VZ linked; date; date; weekdays; segments]        (weekdays / segments as in TextForms)
     task     = VL [VZ type; VZ door; date; date; weekdays; hhmm; VZ cards] *)
From UV Require Import Base.Bytes Model.WireTypes Model.Addr Model.TextForms.
Open Scope N_scope.

Definition ascii (s : list N) := s.
Definition k_PIN := [80;73;78].
Definition k_card_number := [99;97;114;100;45;110;117;109;98;101;114].
Definition k_doors := [100;111;111;114;115].
Definition k_end_date := [101;110;100;45;100;97;116;101].
Definition k_start_date := [115;116;97;114;116;45;100;97;116;101].
Definition k_id := [105;100].
Definition k_linked := [108;105;110;107;101;100;45;112;114;111;102;105;108;101].
Definition k_weekdays := [119;101;101;107;100;97;121;115].
Definition k_segments := [115;101;103;109;101;110;116;115].
Definition k_task := [116;97;115;107].
Definition k_door := [100;111;111;114].
Definition k_cards := [99;97;114;100;115].

Definition jstr (o : option (list N)) : option json := match o with Some s => Some (JStr s) | None => None end.

(* insert members, dropping absent ones; the harness sorts members by name, and so do the lists below *)
Fixpoint members (l : list (list N * option json)) : list (list N * json) :=
  match l with [] => [] | (k, Some j) :: r => (k, j) :: members r | (_, None) :: r => members r end.

(* ---------- Card ---------- *)
Definition card_to (v : cv) : option json :=
  match v with
  | VL [VZ n; from; to; VL [VZ d1; VZ d2; VZ d3; VZ d4]; VZ pin] =>
      match date_to from, date_to to with
      | Some f, Some t =>
          let pin' := if (999999 <? pin)%Z then 0%Z else pin in
          Some (JObj (members
            [(k_PIN, if (pin' =? 0)%Z then None else jstr (pin_to (VZ pin')));
             (k_card_number, Some (JNum n));
             (k_doors, Some (JObj [([49], JNum d1); ([50], JNum d2); ([51], JNum d3); ([52], JNum d4)]));
             (k_end_date, Some (JStr t));
             (k_start_date, Some (JStr f))]))
      | _, _ => None
      end
  | _ => None
  end.

Definition door_val (fs : list (list N * json)) (k : N) : presult Z :=
  match jget fs [k] with
  | None => POk 0%Z
  | Some (JNum z) => if ((0 <=? z) && (z <? 256))%Z then POk z else PUnknown      (* Go truncates to 8 bits: not modelled *)
  | Some _ => PErr
  end.

Definition card_of (j : json) : presult cv :=
  match j with
  | JObj fs =>
      let num := match jget fs k_card_number with
                 | None => POk 0%Z
                 | Some (JNum z) => if ((0 <=? z) && (z <? 4294967296))%Z then POk z else PErr
                 | Some _ => PErr end in
      let date k := match jget fs k with
                    | Some (JStr s) => (match parse_date_text s with Some d => POk d | None => PErr end)
                    | None => PErr               (* blank text is refused *)
                    | Some _ => PErr end in
      let doors := match jget fs k_doors with
                   | None | Some JNull => POk (VL [VZ 0; VZ 0; VZ 0; VZ 0])%Z
                   | Some (JObj ds) =>
                       if forallb (fun kv => match fst kv with [c] => (49 <=? c) && (c <=? 52) | _ => false end) ds
                       then match door_val ds 49, door_val ds 50, door_val ds 51, door_val ds 52 with
                            | POk a, POk b, POk c, POk d => POk (VL [VZ a; VZ b; VZ c; VZ d])
                            | PErr, _, _, _ | _, PErr, _, _ | _, _, PErr, _ | _, _, _, PErr => PErr
                            | _, _, _, _ => PUnknown end
                       else PUnknown               (* other door keys: outside the modelled domain *)
                   | Some _ => PErr end in
      let pin := match jget fs k_PIN with
                 | None | Some JNull => POk (VZ 0)
                 | Some (JStr s) => (match pin_of s with Some p => POk p | None => PErr end)
                 | Some _ => PErr end in
      match num, date k_start_date, date k_end_date, doors, pin with
      | POk n, POk f, POk t, POk ds, POk p => POk (VL [VZ n; f; t; ds; p])
      | PUnknown, _, _, _, _ | _, PUnknown, _, _, _ | _, _, PUnknown, _, _ | _, _, _, PUnknown, _ | _, _, _, _, PUnknown => PUnknown
      | _, _, _, _, _ => PErr
      end
  | _ => PErr
  end.

(* ---------- TimeProfile ---------- *)
Definition weekdays_any (v : cv) : bool :=
  match v with VL fl => existsb (fun x => match x with VZ 1 => true | _ => false end) fl | _ => false end.
Definition zero_seg : cv := VL [VZ 1; VL [cv_hhmm 0 0; cv_hhmm 0 0]]%Z.

(* omitempty: a zero linked profile, an EMPTY weekdays / segments map are left out; dates never are (struct values).
   The modelled values have full maps, so weekdays and segments are always present. *)
Definition profile_to (v : cv) : option json :=
  match v with
  | VL [VZ id; VZ linked; from; to; wd; sg] =>
      match date_to from, date_to to, weekdays_to wd, segments_to sg with
      | Some f, Some t, Some w, Some s =>
          Some (JObj (members
            [(k_end_date, Some (JStr t)); (k_id, Some (JNum id));
             (k_linked, if (linked =? 0)%Z then None else Some (JNum linked));
             (k_segments, Some s); (k_start_date, Some (JStr f)); (k_weekdays, Some (JStr w))]))
      | _, _, _, _ => None
      end
  | _ => None
  end.

Definition u8_of (o : option json) : presult Z :=
  match o with
  | None | Some JNull => POk 0%Z
  | Some (JNum z) => if ((0 <=? z) && (z <? 256))%Z then POk z else PErr
  | Some _ => PErr
  end.
Definition date_member (o : option json) : presult cv :=
  match o with
  | None | Some JNull => POk cv_date_zero
  | Some (JStr s) => (match date_of s with Some d => POk d | None => PErr end)
  | Some _ => PErr
  end.
Definition all_false7 : cv := VL [VZ 0; VZ 0; VZ 0; VZ 0; VZ 0; VZ 0; VZ 0]%Z.
Definition weekdays_member (o : option json) : presult cv :=
  match o with
  | None | Some JNull => POk all_false7           (* the preset empty map: every lookup false *)
  | Some (JStr s) => (match weekdays_of s with Some w => POk w | None => PErr end)
  | Some _ => PErr
  end.

Definition profile_of (j : json) : presult cv :=
  match j with
  | JObj fs =>
      let sg := match jget fs k_segments with
                | None => POk (VL [zero_seg; zero_seg; zero_seg])
                | Some js => (match segments_of [zero_seg; zero_seg; zero_seg] js with Some s => POk s | None => PErr end) end in
      match u8_of (jget fs k_id), u8_of (jget fs k_linked), date_member (jget fs k_start_date), date_member (jget fs k_end_date),
            weekdays_member (jget fs k_weekdays), sg with
      | POk id, POk l, POk f, POk t, POk w, POk s => POk (VL [VZ id; VZ l; f; t; w; s])
      | _, _, _, _, _, _ => PErr
      end
  | _ => PErr
  end.

(* ---------- Task ---------- *)
Definition k_start := TextForms.k_start.
Definition task_to (v : cv) : option json :=
  match v with
  | VL [VZ ty; VZ door; from; to; wd; start; VZ cards] =>
      match tasktype_to (VZ ty), date_to from, date_to to, weekdays_to wd, hhmm_to start with
      | Some n, Some f, Some t, Some w, Some s =>
          Some (JObj (members
            [(k_cards, if (cards =? 0)%Z then None else Some (JNum cards));
             (k_door, if (door =? 0)%Z then None else Some (JNum door));
             (k_end_date, Some (JStr t)); (k_start, Some (JStr s)); (k_start_date, Some (JStr f));
             (k_task, Some (JStr n)); (k_weekdays, Some (JStr w))]))
      | _, _, _, _, _ => None
      end
  | _ => None
  end.

Definition task_of (j : json) : presult cv :=
  match j with
  | JObj fs =>
      let ty := match jget fs k_task with
                | None | Some JNull => POk (VZ 0)
                | Some (JNum n) => (match tasktype_of_num n with Some t => POk t | None => PErr end)
                | Some (JStr s) => (match tasktype_of_name s with Some t => POk t | None => PErr end)
                | Some _ => PErr end in
      let date k := match jget fs k with          (* both dates are mandatory (pointer members) *)
                    | None | Some JNull => PErr
                    | Some (JStr s) => (match date_of s with Some d => POk d | None => PErr end)
                    | Some _ => PErr end in
      let start := match jget fs k_start with
                   | None | Some JNull => POk (cv_hhmm 0 0)
                   | Some (JStr s) => (match hhmm_of s with Some h => POk h | None => PErr end)
                   | Some _ => PErr end in
      match ty, u8_of (jget fs k_door), date k_start_date, date k_end_date, weekdays_member (jget fs k_weekdays), start, u8_of (jget fs k_cards) with
      | POk (VZ t), POk d, POk f, POk e, POk w, POk s, POk c => POk (VL [VZ t; VZ d; f; e; w; s; VZ c])
      | _, _, _, _, _, _, _ => PErr
      end
  | _ => PErr
  end.
