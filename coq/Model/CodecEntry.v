(* The codec's other public entry points (UT0311-L0x.go): UnmarshalAs and UnmarshalArrayElement decode one datagram into a
   fresh value of the given type - the same function as Unmarshal on a zero value - and UnmarshalArray decodes a list of
   datagrams element by element, in order, stopping at the first one that fails.  No proofs here. *)
From UV Require Import Base.Bytes Model.WireTypes Model.Codec.

Definition unmarshal_as (L : layout) (buf : list N) : outcome (list fval) := unmarshal L buf.
Definition unmarshal_array_element (L : layout) (buf : list N) : outcome (list fval) := unmarshal L buf.

Fixpoint unmarshal_array (L : layout) (bufs : list (list N)) : outcome (list (list fval)) :=
  match bufs with
  | [] => Ok []
  | b :: bs => v <- unmarshal L b ;; vs <- unmarshal_array L bs ;; Ok (v :: vs)
  end.
