(* Model of the comparison methods: types/date.go (Before, After, Equals), types/HHmm.go (Before, After, Equals),
   types/datetime.go (DateTime.Before) and the segment guard of uhppote/set_time_profile.go.  No proofs. *)
From UV Require Import Base.Bytes.
Open Scope Z_scope.

Definition ymd := (Z * Z * Z)%type.
Definition hm := (Z * Z)%type.

(* if p.Year() < q.Year() {true}; if == { if p.Month() < q.Month() {true}; if == { if p.Day() < q.Day() {true} } }; false *)
Definition date_before (a b : ymd) : bool :=
  let '(y1, m1, d1) := a in let '(y2, m2, d2) := b in
  if y1 <? y2 then true
  else if y1 =? y2 then (if m1 <? m2 then true else if m1 =? m2 then (if d1 <? d2 then true else false) else false)
  else false.

Definition date_after (a b : ymd) : bool :=
  let '(y1, m1, d1) := a in let '(y2, m2, d2) := b in
  if y1 >? y2 then true
  else if y1 =? y2 then (if m1 >? m2 then true else if m1 =? m2 then (if d1 >? d2 then true else false) else false)
  else false.

Definition date_equals (a b : ymd) : bool :=
  let '(y1, m1, d1) := a in let '(y2, m2, d2) := b in (y1 =? y2) && (m1 =? m2) && (d1 =? d2).

Definition hhmm_before (a b : hm) : bool :=
  if fst a <? fst b then true else if fst a =? fst b then (if snd a <? snd b then true else false) else false.
Definition hhmm_after (a b : hm) : bool :=
  if fst a >? fst b then true else if fst a =? fst b then (if snd a >? snd b then true else false) else false.
Definition hhmm_equals (a b : hm) : bool := (fst a =? fst b) && (snd a =? snd b).

(* p := time.Time(d).UnixMilli() / 1000; q := t.UnixMilli() / 1000; p < q   (Go's / truncates toward zero) *)
Definition datetime_before (ms_d ms_t : Z) : bool := Z.quot ms_d 1000 <? Z.quot ms_t 1000.

(* SetTimeProfile: a segment is rejected iff segment.End.Before(segment.Start) *)
Definition segment_accepted (start finish : hm) : bool := negb (hhmm_before finish start).
