(* Model of encoding/bcd/bcd.go, construct by construct.  Strings are byte lists (DESIGN 4.1). *)
From UV Require Import Base.Bytes.

Definition is_digit (c : N) : bool := (48 <=? c) && (c <=? 57).

(* bytes[i] = f(bytes[i]) for i < len *)
Fixpoint upd (i : nat) (f : N -> N) (l : list N) : list N :=
  match i, l with
  | O, x :: r => f x :: r
  | S k, x :: r => x :: upd k f r
  | _, [] => []
  end.

(* for _, ch := range s { switch ch {... default: return nil, err}; bytes[ix/2] *= 16; bytes[ix/2] += b; ix += 1 } *)
Fixpoint enc_loop (s : list N) (ix : nat) (buf : list N) : option (list N) :=
  match s with
  | [] => Some buf
  | c :: r => if is_digit c
              then enc_loop r (S ix) (upd (Nat.div ix 2) (fun b => (b * 16 + (c - 48)) mod 256) buf)
              else None
  end.

(* N := (len(s)+1)/2; bytes := make([]byte, N); ix := len(s) % 2 *)
Definition bcd_encode (s : list N) : option (list N) :=
  let n := length s in
  enc_loop s (Nat.modulo n 2) (repeat 0 (Nat.div (n + 1) 2)).

(* switch b & 0xf0 {...}; switch b & 0x0f {...} *)
Fixpoint bcd_decode (bs : list N) : option (list N) :=
  match bs with
  | [] => Some []
  | b :: r => let hi := b / 16 in let lo := b mod 16 in
              if (hi <=? 9) && (lo <=? 9)
              then match bcd_decode r with Some d => Some (48 + hi :: 48 + lo :: d) | None => None end
              else None
  end.
