From UV Require Import Base.Bytes Model.Order Spec.OrderSpec.
Open Scope Z_scope.
Inductive case16 :=
| CDate (a b : Z * Z * Z) (before after equals : bool)
| CHHmm (a b : Z * Z) (before after equals : bool)
| CDT (ms_d ms_t : Z) (before : bool)
| CSeg (s e : Z * Z) (accepted : bool).

Definition model_ok16 (c : case16) : bool :=
  match c with
  | CDate a b x y z => Bool.eqb (date_before a b) x && Bool.eqb (date_after a b) y && Bool.eqb (date_equals a b) z
  | CHHmm a b x y z => Bool.eqb (hhmm_before a b) x && Bool.eqb (hhmm_after a b) y && Bool.eqb (hhmm_equals a b) z
  | CDT d t x => Bool.eqb (datetime_before d t) x
  | CSeg s e x => Bool.eqb (segment_accepted s e) x
  end.

Definition eq3 (a b : Z * Z * Z) : bool := let '(y1, m1, d1) := a in let '(y2, m2, d2) := b in (y1 =? y2) && (m1 =? m2) && (d1 =? d2).
Definition eq2 (a b : Z * Z) : bool := (fst a =? fst b) && (snd a =? snd b).

(* the verdicts the calendar / clock order dictates *)
Definition spec_ok16 (c : case16) : bool :=
  match c with
  | CDate a b x y z => Bool.eqb x (lex3_ltb a b) && Bool.eqb y (lex3_ltb b a) && Bool.eqb z (eq3 a b)
  | CHHmm a b x y z => Bool.eqb x (lex2_ltb a b) && Bool.eqb y (lex2_ltb b a) && Bool.eqb z (eq2 a b)
  | CDT d t x => if (0 <=? d) && (0 <=? t) then Bool.eqb x (whole_seconds d <? whole_seconds t) else true
  | CSeg s e x => Bool.eqb x (negb (lex2_ltb e s))
  end.
