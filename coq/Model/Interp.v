(* Interpretation of the translator's output (coq/Gen/Layouts.v: Go type text and raw `uhppote:"..."` tags) as
   codec layouts: the two tag regular expressions, strconv.ParseUint(.., 0, 8), the type switch.  No proofs. *)
From Coq Require Import String Ascii.
From UV Require Import Base.Bytes Model.WireTypes Model.Codec.
Open Scope N_scope.

Definition bytes_of_string (s : string) : list N := map N_of_ascii (list_ascii_of_string s).

Fixpoint is_prefix (p l : list N) : bool :=
  match p, l with
  | [], _ => true
  | x :: p', y :: l' => (x =? y) && is_prefix p' l'
  | _, [] => false
  end.

Definition is_space (c : N) : bool := (c =? 9) || (c =? 10) || (c =? 12) || (c =? 13) || (c =? 32).
Definition is_dec (c : N) : bool := (48 <=? c) && (c <=? 57).
Definition is_hex (c : N) : bool := is_dec c || ((65 <=? c) && (c <=? 70)) || ((97 <=? c) && (c <=? 102)).

Fixpoint drop_while (f : N -> bool) (l : list N) : list N :=
  match l with c :: r => if f c then drop_while f r else l | [] => [] end.
Fixpoint take_while (f : N -> bool) (l : list N) : list N :=
  match l with c :: r => if f c then c :: take_while f r else [] | [] => [] end.

Definition s_offset := bytes_of_string "offset:".
Definition s_value := bytes_of_string "value:".

(* re = `offset:\s*([0-9]+)`  (leftmost match; returns the captured digits) *)
Fixpoint find_offset (l : list N) : option (list N) :=
  match l with
  | [] => None
  | _ :: r =>
      if is_prefix s_offset l
      then match take_while is_dec (drop_while is_space (skipn 7 l)) with
           | [] => find_offset r
           | ds => Some ds
           end
      else find_offset r
  end.

(* vre = `value:\s*((?:0[xX])?[0-9a-fA-F]+)` *)
Definition capture_value (l : list N) : list N :=
  match l with
  | 48 :: x :: h :: r => if ((x =? 120) || (x =? 88)) && is_hex h then 48 :: x :: take_while is_hex (h :: r)
                         else take_while is_hex l
  | _ => take_while is_hex l
  end.

Fixpoint find_value (l : list N) : option (list N) :=
  match l with
  | [] => None
  | _ :: r =>
      if is_prefix s_value l
      then match capture_value (drop_while is_space (skipn 6 l)) with
           | [] => find_value r
           | cs => Some cs
           end
      else find_value r
  end.

Definition lower (c : N) : N := if (65 <=? c) && (c <=? 90) then c + 32 else c.
Definition digit_val (c : N) : N :=
  if is_dec c then c - 48 else if (97 <=? lower c) && (lower c <=? 122) then lower c - 87 else 255.

Fixpoint parse_base (base : N) (l : list N) (acc : N) : option N :=
  match l with
  | [] => Some acc
  | c :: r => let d := digit_val c in if d <? base then parse_base base r (acc * base + d) else None
  end.

(* strconv.ParseUint(s, 0, 8) on a non-empty string of hex digits / 0x prefix *)
Definition parse_uint0_8 (s : list N) : option N :=
  let res :=
    match s with
    | [] => None
    | 48 :: x :: r =>
        match r with
        | _ :: _ => if lower x =? 98 then parse_base 2 r 0          (* 0b *)
                    else if lower x =? 111 then parse_base 8 r 0    (* 0o *)
                    else if lower x =? 120 then parse_base 16 r 0   (* 0x *)
                    else parse_base 8 (x :: r) 0
        | [] => parse_base 8 [x] 0
        end
    | 48 :: [] => Some 0
    | _ => parse_base 10 s 0
    end in
  match res with Some n => if n <? 256 then Some n else None | None => None end.

Definition value_tag (tag : list N) : option (option N) :=
  match find_value tag with None => None | Some cs => Some (parse_uint0_8 cs) end.

Definition kind_of_type (t : string) : option kind :=
  if String.eqb t "uint8" || String.eqb t "byte" then Some KU8
  else if String.eqb t "uint16" then Some KU16
  else if String.eqb t "uint32" then Some KU32
  else if String.eqb t "bool" then Some KBool
  else if String.eqb t "net.IP" then Some KIP
  else if String.eqb t "netip.AddrPort" then Some KAddrPort
  else if String.eqb t "net.HardwareAddr" then Some KMACraw
  else if String.eqb t "types.MacAddress" then Some KMacT
  else if String.eqb t "types.SerialNumber" then Some KSerial
  else if String.eqb t "types.Date" then Some KDate
  else if String.eqb t "*types.Date" then Some KDateP
  else if String.eqb t "types.DateTime" then Some KDateTime
  else if String.eqb t "*types.DateTime" then Some KDateTimeP
  else if String.eqb t "types.SystemDate" then Some KSysDate
  else if String.eqb t "types.SystemTime" then Some KSysTime
  else if String.eqb t "types.HHmm" then Some KHHmm
  else if String.eqb t "*types.HHmm" then Some KHHmmP
  else if String.eqb t "types.PIN" then Some KPIN
  else if String.eqb t "types.Version" then Some KVersion
  else None.

Definition raw_field := (string * string * bool * string)%type.   (* name, type text, embedded, tag *)
Definition raw_struct := (string * list raw_field)%type.

Definition interp_flat (rf : raw_field) : field :=
  let '(_, ty, _, tag) := rf in
  let t := bytes_of_string tag in
  if String.eqb ty "types.SOM" then FSOM (value_tag t)
  else if String.eqb ty "types.MsgType" then FMsgType (value_tag t)
  else match find_offset t with
       | None => FSkip
       | Some ds =>
           let off := N.to_nat (num_of_digits ds) in
           match kind_of_type ty with
           | Some KU8 => FData KU8 off (value_tag t)
           | Some k => FData k off None
           | None => FUnsupported off
           end
       end.

Fixpoint lookup_struct (structs : list raw_struct) (name : string) : option (list raw_field) :=
  match structs with
  | [] => None
  | (n, fs) :: r => if String.eqb n name then Some fs else lookup_struct r name
  end.

Definition is_embedded (rf : raw_field) : bool := let '(_, _, e, _) := rf in e.
Definition type_of (rf : raw_field) : string := let '(_, ty, _, _) := rf in ty.

(* one level of embedding; anything deeper (or an unknown embedded type) is unsupported *)
Definition interp_field (structs : list raw_struct) (rf : raw_field) : list field :=
  if is_embedded rf
  then match lookup_struct structs (type_of rf) with
       | Some fs => map (fun g => if is_embedded g then FUnsupported 0 else interp_flat g) fs
       | None => [FUnsupported 0]
       end
  else [interp_flat rf].

Definition interp_struct (structs : list raw_struct) (fs : list raw_field) : layout :=
  flat_map (interp_field structs) fs.

Definition layout_of (structs : list raw_struct) (name : string) : option layout :=
  match lookup_struct structs name with Some fs => Some (interp_struct structs fs) | None => None end.
