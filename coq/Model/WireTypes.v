(* Model of the wire forms of the field types: encoding/UTO311-L0x built-ins and the
   MarshalUT0311L0x / UnmarshalUT0311L0x methods of package types.  No proofs here.

   Time values (types.Date, DateTime, SystemDate, SystemTime) are modelled by their civil fields as read in
   the value's own location; the zero time.Time is civil 0001-01-01 00:00:00 (UTC).  The zone-dependent part
   (time.Date / ParseInLocation in time.Local) is modelled separately in Model/GoTime.v; the functions here
   are the TZ=UTC instance, which is what the codec correspondence streams run under. *)
From UV Require Import Base.Bytes Model.BCD.
Open Scope N_scope.

(* ---------- decimal formatting (fmt %0Nd / time.appendInt for non-negative values) ---------- *)
Fixpoint digits_fuel (fuel : nat) (n : N) (acc : list N) : list N :=
  match fuel with
  | O => acc
  | S f => if n <? 10 then (48 + n) :: acc else digits_fuel f (n / 10) ((48 + n mod 10) :: acc)
  end.
Definition digits (n : N) : list N := digits_fuel 40 n [].

Definition pad_to (w : nat) (ds : list N) : list N := repeat 48 (w - length ds) ++ ds.

(* text of a signed integer zero-padded to w digits; a negative value contains '-' (never a BCD digit) *)
Definition fmt_int (w : nat) (z : Z) : list N :=
  if (z <? 0)%Z then 45 :: pad_to w (digits (Z.to_N (- z))) else pad_to w (digits (Z.to_N z)).

Fixpoint num_of_digits_acc (ds : list N) (acc : N) : N :=
  match ds with [] => acc | d :: r => num_of_digits_acc r (acc * 10 + (d - 48)) end.
Definition num_of_digits (ds : list N) : N := num_of_digits_acc ds 0.

(* ---------- calendar validity (time.Parse range checks) ---------- *)
Definition is_leap (y : N) : bool :=
  ((y mod 4 =? 0) && negb (y mod 100 =? 0)) || (y mod 400 =? 0).
Definition days_in (y m : N) : N :=
  if m =? 2 then (if is_leap y then 29 else 28)
  else if (m =? 4) || (m =? 6) || (m =? 9) || (m =? 11) then 30 else 31.
Definition valid_ymd (y m d : N) : bool :=
  (1 <=? m) && (m <=? 12) && (1 <=? d) && (d <=? days_in y m).
Definition valid_hms (h mi s : N) : bool := (h <? 24) && (mi <? 60) && (s <? 60).

(* ---------- field values ---------- *)
Inductive fval :=
| VN (n : N)                                   (* uint8/16/32, SerialNumber, PIN, Version, MsgType, SOM *)
| VB (b : bool)
| VIP (bs : list N)                            (* net.IP as its byte slice: [] = nil *)
| VAP (ap : option (list N * N))               (* netip.AddrPort: None = zero value; Some (address bytes, port) *)
| VMAC (bs : list N)                           (* net.HardwareAddr / types.MacAddress *)
| VDate (y m d : Z)
| VDateTime (y m d h mi s : Z)
| VSysDate (y m d : Z)
| VSysTime (h mi s : Z)
| VHHmm (h m : Z)
| VNil.                                        (* nil pointer *)

Definition date_zero := VDate 1 1 1.
Definition datetime_zero := VDateTime 1 1 1 0 0 0.

Inductive kind :=
| KU8 | KU16 | KU32 | KBool | KIP | KAddrPort | KMACraw | KMacT | KSerial
| KDate | KDateP | KDateTime | KDateTimeP | KSysDate | KSysTime | KHHmm | KHHmmP | KPIN | KVersion.

Definition kind_eqb (a b : kind) : bool :=
  match a, b with
  | KU8, KU8 | KU16, KU16 | KU32, KU32 | KBool, KBool | KIP, KIP | KAddrPort, KAddrPort
  | KMACraw, KMACraw | KMacT, KMacT | KSerial, KSerial | KDate, KDate | KDateP, KDateP
  | KDateTime, KDateTime | KDateTimeP, KDateTimeP | KSysDate, KSysDate | KSysTime, KSysTime
  | KHHmm, KHHmm | KHHmmP, KHHmmP | KPIN, KPIN | KVersion, KVersion => true
  | _, _ => false
  end.

(* bytes the decoder of a kind consumes = bytes an in-domain value encodes to *)
Definition width (k : kind) : nat :=
  match k with
  | KU8 | KBool => 1
  | KU16 | KHHmm | KHHmmP | KVersion => 2
  | KSysDate | KSysTime | KPIN => 3
  | KU32 | KIP | KSerial | KDate | KDateP => 4
  | KAddrPort | KMACraw | KMacT => 6
  | KDateTime | KDateTimeP => 7
  end%nat.

(* zero value of a field of that kind in a freshly allocated struct *)
Definition zero_of (k : kind) : fval :=
  match k with
  | KU8 | KU16 | KU32 | KSerial | KPIN | KVersion => VN 0
  | KBool => VB false
  | KIP => VIP []
  | KAddrPort => VAP None
  | KMACraw | KMacT => VMAC []
  | KDate => date_zero
  | KDateTime => datetime_zero
  | KSysDate => VSysDate 1 1 1
  | KSysTime => VSysTime 0 0 0
  | KHHmm => VHHmm 0 0
  | KDateP | KDateTimeP | KHHmmP => VNil
  end.

(* ---------- encoders ---------- *)
(* what the marshal loop does with one field:
   EWrite bs w   copy(bytes[off:off+w], bs)  (panics when off+w > 64; copies min(w, len bs) bytes)
   ESkip         buffer untouched (nil pointer, or a MarshalUT0311L0x error, which the codec ignores)
   EErr          Marshal returns an error *)
Inductive enc_res := EWrite (bs : list N) (w : nat) | ESkip | EErr.

Definition marshaler (o : option (list N)) : enc_res :=
  match o with Some bs => EWrite bs (length bs) | None => ESkip end.

(* net.IP.To4 *)
Definition v4in6_prefix : list N := [0;0;0;0;0;0;0;0;0;0;255;255].
Definition to4 (ip : list N) : list N :=
  if Nat.eqb (length ip) 4 then ip
  else if Nat.eqb (length ip) 16 && nlist_eqb (firstn 12 ip) v4in6_prefix then skipn 12 ip
  else [].

Definition enc_date (y m d : Z) : option (list N) :=
  if ((y =? 1) && (m =? 1) && (d =? 1))%Z then Some [0;0;0;0]
  else bcd_encode (fmt_int 4 y ++ fmt_int 2 m ++ fmt_int 2 d).

(* zero DateTime: seven zero bytes *)
Definition enc_datetime (y m d h mi s : Z) : option (list N) :=
  if ((y =? 1) && (m =? 1) && (d =? 1) && (h =? 0) && (mi =? 0) && (s =? 0))%Z then Some [0;0;0;0;0;0;0]
  else bcd_encode (fmt_int 4 y ++ fmt_int 2 m ++ fmt_int 2 d ++ fmt_int 2 h ++ fmt_int 2 mi ++ fmt_int 2 s).

Definition pad_right (n : nat) (l : list N) : list N := firstn n l ++ repeat 0 (n - length l).

(* vtag: the parsed `value:` tag of a byte field (None: no tag; Some None: ParseUint error) *)
Definition enc (k : kind) (vtag : option (option N)) (v : fval) : enc_res :=
  match k, v with
  | KU8, VN n => match vtag with
                 | Some (Some t) => EWrite [t] 1
                 | Some None => EErr
                 | None => EWrite [n mod 256] 1
                 end
  | KU16, VN n => EWrite (le16 n) 2
  | KU32, VN n => EWrite (le32 n) 4
  | KBool, VB b => EWrite [if b then 1 else 0] 1
  | KIP, VIP ip => EWrite (to4 ip) 4
  | KAddrPort, VAP (Some (a, p)) => if Nat.eqb (length a) 4 then EWrite (a ++ le16 p) 6 else EErr
  | KAddrPort, VAP None => EErr
  | KMACraw, VMAC m => EWrite m 6
  | KMacT, VMAC m => marshaler (Some (pad_right 6 m))
  | KSerial, VN n => marshaler (Some (le32 n))
  | KPIN, VN n => marshaler (Some (le24 n))
  | KVersion, VN n => marshaler (Some (be16 n))
  | KDate, VDate y m d => marshaler (enc_date y m d)
  | KDateP, VDate y m d => marshaler (enc_date y m d)
  | KDateP, VNil => ESkip
  | KDateTime, VDateTime y m d h mi s => marshaler (enc_datetime y m d h mi s)
  | KDateTimeP, VDateTime y m d h mi s => marshaler (enc_datetime y m d h mi s)
  | KDateTimeP, VNil => ESkip
  | KSysDate, VSysDate y m d => marshaler (bcd_encode (fmt_int 2 (y mod 100)%Z ++ fmt_int 2 m ++ fmt_int 2 d))
  | KSysTime, VSysTime h mi s => marshaler (bcd_encode (fmt_int 2 h ++ fmt_int 2 mi ++ fmt_int 2 s))
  | KHHmm, VHHmm h m => marshaler (bcd_encode (fmt_int 2 h ++ fmt_int 2 m))
  | KHHmmP, VHHmm h m => marshaler (bcd_encode (fmt_int 2 h ++ fmt_int 2 m))
  | KHHmmP, VNil => ESkip
  | _, _ => EErr                               (* ill-typed value: never generated *)
  end.

(* ---------- decoders; input: exactly `width k` bytes ---------- *)
(* result: Ok (Some v) field set to v; Ok None field left untouched; Err unmarshal fails *)

Definition two (a b : N) : N := (a - 48) * 10 + (b - 48).

(* time.ParseInLocation("20060102", ...) on eight digits *)
Definition parse_ymd8 (ds : list N) : option (N * N * N) :=
  match ds with
  | [y1;y2;y3;y4;m1;m2;d1;d2] =>
      let y := num_of_digits [y1;y2;y3;y4] in let m := two m1 m2 in let d := two d1 d2 in
      if valid_ymd y m d then Some (y, m, d) else None
  | _ => None
  end.

Definition dec_date (ptr : bool) (b : list N) : outcome (option fval) :=
  match bcd_decode b with
  | None => if ptr then Ok None else Err
  | Some ds =>
      if nlist_eqb ds [48;48;48;48;48;48;48;48] || nlist_eqb ds [48;48;48;49;48;49;48;49]
      then (if ptr then Ok None else Ok (Some date_zero))
      else match parse_ymd8 ds with
           | Some (y, m, d) => Ok (Some (VDate (Z.of_N y) (Z.of_N m) (Z.of_N d)))
           | None => Ok (Some date_zero)
           end
  end.

Definition dec_datetime (ptr : bool) (b : list N) : outcome (option fval) :=
  if nlist_eqb b [0;0;0;0;0;0;0] || nlist_eqb b [32;0;0;0;0;0;0]
  then (if ptr then Ok None else Ok (Some datetime_zero))
  else match bcd_decode b with
       | None => if ptr then Ok None else Err
       | Some ds =>
           match ds with
           | [y1;y2;y3;y4;m1;m2;d1;d2;h1;h2;n1;n2;s1;s2] =>
               let y := num_of_digits [y1;y2;y3;y4] in let m := two m1 m2 in let d := two d1 d2 in
               let h := two h1 h2 in let mi := two n1 n2 in let s := two s1 s2 in
               if valid_ymd y m d && valid_hms h mi s
               then Ok (Some (VDateTime (Z.of_N y) (Z.of_N m) (Z.of_N d) (Z.of_N h) (Z.of_N mi) (Z.of_N s)))
               else Ok (Some datetime_zero)
           | _ => Ok (Some datetime_zero)
           end
       end.

Definition dec_sysdate (b : list N) : outcome (option fval) :=
  if nlist_eqb b [0;0;0] then Ok (Some (VSysDate 1 1 1))
  else match bcd_decode b with
       | None => Err
       | Some [y1;y2;m1;m2;d1;d2] =>
           let yy := two y1 y2 in let y := if 69 <=? yy then 1900 + yy else 2000 + yy in
           let m := two m1 m2 in let d := two d1 d2 in
           if valid_ymd y m d then Ok (Some (VSysDate (Z.of_N y) (Z.of_N m) (Z.of_N d))) else Err
       | Some _ => Err
       end.

Definition dec_systime (b : list N) : outcome (option fval) :=
  match bcd_decode b with
  | Some [h1;h2;m1;m2;s1;s2] =>
      let h := two h1 h2 in let mi := two m1 m2 in let s := two s1 s2 in
      if valid_hms h mi s then Ok (Some (VSysTime (Z.of_N h) (Z.of_N mi) (Z.of_N s))) else Err
  | _ => Err
  end.

Definition dec_hhmm (ptr : bool) (b : list N) : outcome (option fval) :=
  match bcd_decode b with
  | Some [h1;h2;m1;m2] =>
      let h := two h1 h2 in let m := two m1 m2 in
      if (24 <? h) || (59 <? m) || ((h =? 24) && negb (m =? 0))
      then (if ptr then Ok None else Err)
      else Ok (Some (VHHmm (Z.of_N h) (Z.of_N m)))
  | _ => if ptr then Ok None else Err
  end.

Definition dec (k : kind) (vtag : option (option N)) (b : list N) : outcome (option fval) :=
  match k with
  | KU8 => match b with
           | [x] => match vtag with
                    | Some (Some t) => if x =? t then Ok (Some (VN x)) else Err
                    | Some None => Err
                    | None => Ok (Some (VN x))
                    end
           | _ => Err
           end
  | KU16 | KU32 | KSerial | KPIN => Ok (Some (VN (of_le b)))
  | KVersion => Ok (Some (VN (of_be16 b)))
  | KBool => match b with
             | [x] => if x =? 1 then Ok (Some (VB true)) else if x =? 0 then Ok (Some (VB false)) else Err
             | _ => Err
             end
  | KIP => Ok (Some (VIP b))
  | KAddrPort => Ok (Some (VAP (Some (firstn 4 b, of_le (skipn 4 b)))))
  | KMACraw | KMacT => Ok (Some (VMAC b))
  | KDate => dec_date false b
  | KDateP => dec_date true b
  | KDateTime => dec_datetime false b
  | KDateTimeP => dec_datetime true b
  | KSysDate => dec_sysdate b
  | KSysTime => dec_systime b
  | KHHmm => dec_hhmm false b
  | KHHmmP => dec_hhmm true b
  end.

(* ---------- equality on values (for the case files) ---------- *)
Definition fval_eqb (a b : fval) : bool :=
  match a, b with
  | VN x, VN y => x =? y
  | VB x, VB y => Bool.eqb x y
  | VIP x, VIP y => nlist_eqb x y
  | VAP None, VAP None => true
  | VAP (Some (a1, p1)), VAP (Some (a2, p2)) => nlist_eqb a1 a2 && (p1 =? p2)
  | VMAC x, VMAC y => nlist_eqb x y
  | VDate y1 m1 d1, VDate y2 m2 d2 => ((y1 =? y2) && (m1 =? m2) && (d1 =? d2))%Z
  | VDateTime y1 m1 d1 h1 n1 s1, VDateTime y2 m2 d2 h2 n2 s2 =>
      ((y1 =? y2) && (m1 =? m2) && (d1 =? d2) && (h1 =? h2) && (n1 =? n2) && (s1 =? s2))%Z
  | VSysDate y1 m1 d1, VSysDate y2 m2 d2 => ((y1 =? y2) && (m1 =? m2) && (d1 =? d2))%Z
  | VSysTime y1 m1 d1, VSysTime y2 m2 d2 => ((y1 =? y2) && (m1 =? m2) && (d1 =? d2))%Z
  | VHHmm h1 m1, VHHmm h2 m2 => ((h1 =? h2) && (m1 =? m2))%Z
  | VNil, VNil => true
  | _, _ => false
  end.

Fixpoint fvals_eqb (a b : list fval) : bool :=
  match a, b with
  | [], [] => true
  | x :: a', y :: b' => fval_eqb x y && fvals_eqb a' b'
  | _, _ => false
  end.
