(* Model of package uhppote: the 32 API operations (uhppote/*.go), sendto / broadcast (uhppote.go) and the routing
   closure, against a scripted driver.  Request and reply structs are the GENERATED layouts (by struct name, fields by
   field name), so a change to a message struct changes what this model computes.  No proofs here. *)
From Coq Require Import String.
From UV Require Import Base.Bytes Model.WireTypes Model.Codec Model.Interp Model.Cases18 Gen.Layouts.
Open Scope N_scope.

(* ---------- building request structs / reading reply structs by field name ---------- *)
Definition fname (rf : raw_field) : string := let '(n, _, _, _) := rf in n.

Definition leafs (fs : list raw_field) : list raw_field :=
  flat_map (fun rf => if is_embedded rf
                      then match lookup_struct structs (type_of rf) with Some g => g | None => [] end
                      else [rf]) fs.

Definition default_of (rf : raw_field) : fval :=
  match interp_flat rf with
  | FData k _ _ => zero_of k
  | FMsgType _ | FSOM _ => VN 0
  | _ => VNil
  end.

Fixpoint env_get (env : list (string * fval)) (n : string) : option fval :=
  match env with
  | [] => None
  | (k, v) :: r => if String.eqb k n then Some v else env_get r n
  end.

Definition struct_leafs (sname : string) : list raw_field :=
  match lookup_struct structs sname with Some fs => leafs fs | None => [] end.

(* messages.XRequest{Field: value, ...}: unnamed fields keep their zero value *)
Definition build (sname : string) (env : list (string * fval)) : list fval :=
  map (fun rf => match env_get env (fname rf) with Some v => v | None => default_of rf end) (struct_leafs sname).

Fixpoint index_of (n : string) (l : list raw_field) (i : nat) : option nat :=
  match l with
  | [] => None
  | rf :: r => if String.eqb (fname rf) n then Some i else index_of n r (S i)
  end.

(* reply.Field *)
Definition get (sname : string) (vs : list fval) (n : string) : fval :=
  match index_of n (struct_leafs sname) 0 with Some i => nth i vs VNil | None => VNil end.

Definition zero_reply (sname : string) : list fval := map default_of (struct_leafs sname).

(* ---------- arguments ---------- *)
Definition gomap (A : Type) := list (N * A).          (* Go map with integer keys; nil = [] ; later bindings never shadow *)
Fixpoint mget {A} (m : gomap A) (k : N) (d : A) : A :=
  match m with [] => d | (k', v) :: r => if k' =? k then v else mget r k d end.
Fixpoint mhas {A} (m : gomap A) (k : N) : bool :=
  match m with [] => false | (k', _) :: r => (k' =? k) || mhas r k end.

Record card := { c_number : N; c_from : Z * Z * Z; c_to : Z * Z * Z; c_doors : gomap N; c_pin : N }.
Record segment := { s_start : Z * Z; s_end : Z * Z }.
Record profile := { p_id : N; p_linked : N; p_from : Z * Z * Z; p_to : Z * Z * Z;
                    p_weekdays : gomap bool; p_segments : gomap segment }.
Record task := { t_task : Z; t_door : N; t_from : Z * Z * Z; t_to : Z * Z * Z; t_weekdays : gomap bool;
                 t_start : Z * Z; t_cards : N }.

Definition vdate (d : Z * Z * Z) : fval := let '(y, m, dd) := d in VDate y m dd.
Definition vhhmm (t : Z * Z) : fval := VHHmm (fst t) (snd t).
Definition date_is_zero (d : Z * Z * Z) : bool := let '(y, m, dd) := d in ((y =? 1) && (m =? 1) && (dd =? 1))%Z.

Inductive op :=
| GetDevices
| GetDevice (id : N)
| SetAddress (id : N) (addr mask gw : list N)
| GetListener (id : N)
| SetListener (id : N) (ap : option (list N * N)) (interval : N)
| GetTime (id : N)
| SetTime (id : N) (y m d h mi s : Z)
| GetDoorControlState (id door : N)
| SetDoorControlState (id door : N) (state : Z) (delay : N)
| GetStatus (id : N)
| GetCards (id : N)
| GetCardByID (id cardno : N)
| GetCardByIndex (id idx : N)
| PutCard (id : N) (c : card) (formats : list N)
| DeleteCard (id cardno : N)
| DeleteCards (id : N)
| GetTimeProfile (id pid : N)
| SetTimeProfile (id : N) (p : profile)
| ClearTimeProfiles (id : N)
| ClearTaskList (id : N)
| AddTask (id : N) (t : task)
| RefreshTaskList (id : N)
| RecordSpecialEvents (id : N) (enable : bool)
| GetEvent (id idx : N)
| GetEventIndex (id : N)
| SetEventIndex (id idx : N)
| SetDoorPasscodes (id door : N) (codes : list N)
| OpenDoor (id door : N)
| SetPCControl (id : N) (enable : bool)
| SetInterlock (id : N) (mode : N)
| ActivateKeypads (id : N) (readers : gomap bool)
| RestoreDefaultParameters (id : N).

Definition op_id (o : op) : N :=
  match o with
  | GetDevices => 0
  | GetDevice id | SetAddress id _ _ _ | GetListener id | SetListener id _ _ | GetTime id | SetTime id _ _ _ _ _ _
  | GetDoorControlState id _ | SetDoorControlState id _ _ _ | GetStatus id | GetCards id | GetCardByID id _
  | GetCardByIndex id _ | PutCard id _ _ | DeleteCard id _ | DeleteCards id | GetTimeProfile id _
  | SetTimeProfile id _ | ClearTimeProfiles id | ClearTaskList id | AddTask id _ | RefreshTaskList id
  | RecordSpecialEvents id _ | GetEvent id _ | GetEventIndex id | SetEventIndex id _ | SetDoorPasscodes id _ _
  | OpenDoor id _ | SetPCControl id _ | SetInterlock id _ | ActivateKeypads id _ | RestoreDefaultParameters id => id
  end.

Definition magic : N := 0x55aaaa55.
Definition u8 (z : Z) : N := Z.to_N (z mod 256).       (* uint8(x) conversion of a Go int *)

(* isWiegand26: s := fmt.Sprintf("%08v", card); facility := s[:3]; number := s[3:]; card > 99999999 rejected *)
Definition is_wiegand26 (c : N) : bool :=
  if 99999999 <? c then false
  else let ds := pad_to 8 (digits c) in
       let fc := num_of_digits (firstn 3 ds) in
       let cn := num_of_digits (skipn 3 ds) in
       (fc <=? 255) && (cn <=? 65535).

(* isCardNumberValid: no formats => valid; Wiegand26 = 1, WiegandAny = 0; other values match nothing *)
Definition card_number_valid (c : N) (formats : list N) : bool :=
  match formats with
  | [] => true
  | _ => existsb (fun f => if f =? 1 then is_wiegand26 c else if f =? 0 then true else false) formats
  end.

(* HHmm.Before *)
Definition hhmm_before (a b : Z * Z) : bool :=
  ((fst a <? fst b) || ((fst a =? fst b) && (snd a <? snd b)))%Z.

(* net.IP.To4() != nil *)
Definition is_ip4 (ip : list N) : bool := negb (Nat.eqb (length (to4 ip)) 0).

(* the guards of each operation that come before sendto (which itself rejects id 0) *)
Definition guards (o : op) : bool :=
  match o with
  | SetAddress _ a m g => is_ip4 a && is_ip4 m && is_ip4 g
  | SetListener _ ap _ =>
      match ap with
      | None => false                                          (* !address.IsValid() *)
      | Some (a, p) => (nlist_eqb a [0;0;0;0] && (p =? 0)) || (Nat.eqb (length a) 4 && negb (p =? 0))
      end
  | PutCard _ c formats =>
      negb ((c_number c =? 0) || (c_number c =? 0xffffffff) || (c_number c =? 0x00ffffff))
      && card_number_valid (c_number c) formats && (c_pin c <=? 999999)
  | SetDoorPasscodes _ door _ => (1 <=? door) && (door <=? 4)
  | SetTimeProfile _ p =>
      negb (date_is_zero (p_from p)) && negb (date_is_zero (p_to p)) &&
      forallb (fun k => mhas (p_segments p) k &&
                        let s := mget (p_segments p) k {| s_start := (0, 0)%Z; s_end := (0, 0)%Z |} in
                        negb (hhmm_before (s_end s) (s_start s))) [1; 2; 3]
  | _ => true
  end.

Definition accepted (o : op) : bool :=
  match o with
  | GetDevices => true
  | _ => negb (op_id o =? 0) && guards o
  end.

Definition req_name (o : op) : string :=
  match o with
  | GetDevices | GetDevice _ => "GetDeviceRequest"
  | SetAddress _ _ _ _ => "SetAddressRequest"
  | GetListener _ => "GetListenerRequest"
  | SetListener _ _ _ => "SetListenerRequest"
  | GetTime _ => "GetTimeRequest"
  | SetTime _ _ _ _ _ _ _ => "SetTimeRequest"
  | GetDoorControlState _ _ => "GetDoorControlStateRequest"
  | SetDoorControlState _ _ _ _ => "SetDoorControlStateRequest"
  | GetStatus _ => "GetStatusRequest"
  | GetCards _ => "GetCardsRequest"
  | GetCardByID _ _ => "GetCardByIDRequest"
  | GetCardByIndex _ _ => "GetCardByIndexRequest"
  | PutCard _ _ _ => "PutCardRequest"
  | DeleteCard _ _ => "DeleteCardRequest"
  | DeleteCards _ => "DeleteCardsRequest"
  | GetTimeProfile _ _ => "GetTimeProfileRequest"
  | SetTimeProfile _ _ => "SetTimeProfileRequest"
  | ClearTimeProfiles _ => "ClearTimeProfilesRequest"
  | ClearTaskList _ => "ClearTaskListRequest"
  | AddTask _ _ => "AddTaskRequest"
  | RefreshTaskList _ => "RefreshTaskListRequest"
  | RecordSpecialEvents _ _ => "RecordSpecialEventsRequest"
  | GetEvent _ _ => "GetEventRequest"
  | GetEventIndex _ => "GetEventIndexRequest"
  | SetEventIndex _ _ => "SetEventIndexRequest"
  | SetDoorPasscodes _ _ _ => "SetDoorPasscodesRequest"
  | OpenDoor _ _ => "OpenDoorRequest"
  | SetPCControl _ _ => "SetPCControlRequest"
  | SetInterlock _ _ => "SetInterlockRequest"
  | ActivateKeypads _ _ => "ActivateAccessKeypadsRequest"
  | RestoreDefaultParameters _ => "RestoreDefaultParametersRequest"
  end%string.

(* the reply type sendto[T] decodes into; "" = none{} (SetAddress) *)
Definition resp_name (o : op) : string :=
  match o with
  | GetDevices | GetDevice _ => "GetDeviceResponse"
  | SetAddress _ _ _ _ => ""
  | GetListener _ => "GetListenerResponse"
  | SetListener _ _ _ => "SetListenerResponse"
  | GetTime _ => "GetTimeResponse"
  | SetTime _ _ _ _ _ _ _ => "SetTimeResponse"
  | GetDoorControlState _ _ => "GetDoorControlStateResponse"
  | SetDoorControlState _ _ _ _ => "SetDoorControlStateResponse"
  | GetStatus _ => "GetStatusResponse"
  | GetCards _ => "GetCardsResponse"
  | GetCardByID _ _ => "GetCardByIDResponse"
  | GetCardByIndex _ _ => "GetCardByIndexResponse"
  | PutCard _ _ _ => "PutCardResponse"
  | DeleteCard _ _ => "DeleteCardResponse"
  | DeleteCards _ => "DeleteCardsResponse"
  | GetTimeProfile _ _ => "GetTimeProfileResponse"
  | SetTimeProfile _ _ => "SetTimeProfileResponse"
  | ClearTimeProfiles _ => "ClearTimeProfilesResponse"
  | ClearTaskList _ => "ClearTaskListResponse"
  | AddTask _ _ => "AddTaskResponse"
  | RefreshTaskList _ => "RefreshTaskListResponse"
  | RecordSpecialEvents _ _ => "RecordSpecialEventsResponse"
  | GetEvent _ _ => "GetEventResponse"
  | GetEventIndex _ => "GetEventIndexResponse"
  | SetEventIndex _ _ => "SetEventIndexResponse"
  | SetDoorPasscodes _ _ _ => "SetDoorPasscodesResponse"
  | OpenDoor _ _ => "OpenDoorResponse"
  | SetPCControl _ _ => "SetPCControlResponse"
  | SetInterlock _ _ => "SetInterlockResponse"
  | ActivateKeypads _ _ => "ActivateAccessKeypadsResponse"
  | RestoreDefaultParameters _ => "RestoreDefaultParametersResponse"
  end%string.

Definition passcode (codes : list N) (i : nat) : N :=
  match nth_error codes i with Some c => if c <=? 999999 then c else 0 | None => 0 end.

Definition wd (m : gomap bool) (k : N) : fval := VB (mget m k false).   (* time.Sunday = 0 ... time.Saturday = 6 *)
Definition seg (p : profile) (k : N) : segment := mget (p_segments p) k {| s_start := (0, 0)%Z; s_end := (0, 0)%Z |}.

(* the request struct literal of each operation: (field name, value) *)
Definition req_env (o : op) : list (string * fval) :=
  let sn id := ("SerialNumber", VN id) in
  match o with
  | GetDevices => []
  | GetDevice id | GetListener id | GetTime id | GetStatus id | GetCards id | GetEventIndex id => [sn id]
  | SetAddress id a m g => [sn id; ("Address", VIP a); ("Mask", VIP m); ("Gateway", VIP g); ("MagicWord", VN magic)]
  | SetListener id ap itv => [sn id; ("AddrPort", VAP ap); ("Interval", VN itv)]
  | SetTime id y m d h mi s => [sn id; ("DateTime", VDateTime y m d h mi s)]
  | GetDoorControlState id door => [sn id; ("Door", VN door)]
  | SetDoorControlState id door st delay => [sn id; ("Door", VN door); ("ControlState", VN (u8 st)); ("Delay", VN delay)]
  | GetCardByID id c => [sn id; ("CardNumber", VN c)]
  | GetCardByIndex id i => [sn id; ("Index", VN i)]
  | PutCard id c _ =>
      [sn id; ("CardNumber", VN (c_number c)); ("From", vdate (c_from c)); ("To", vdate (c_to c));
       ("Door1", VN (mget (c_doors c) 1 0)); ("Door2", VN (mget (c_doors c) 2 0));
       ("Door3", VN (mget (c_doors c) 3 0)); ("Door4", VN (mget (c_doors c) 4 0)); ("PIN", VN (c_pin c))]
  | DeleteCard id c => [sn id; ("CardNumber", VN c)]
  | DeleteCards id | ClearTimeProfiles id | ClearTaskList id | RefreshTaskList id | RestoreDefaultParameters id =>
      [sn id; ("MagicWord", VN magic)]
  | GetTimeProfile id p => [sn id; ("ProfileID", VN p)]
  | SetTimeProfile id p =>
      [sn id; ("ProfileID", VN (p_id p)); ("From", vdate (p_from p)); ("To", vdate (p_to p));
       ("Monday", wd (p_weekdays p) 1); ("Tuesday", wd (p_weekdays p) 2); ("Wednesday", wd (p_weekdays p) 3);
       ("Thursday", wd (p_weekdays p) 4); ("Friday", wd (p_weekdays p) 5); ("Saturday", wd (p_weekdays p) 6);
       ("Sunday", wd (p_weekdays p) 0);
       ("Segment1Start", vhhmm (s_start (seg p 1))); ("Segment1End", vhhmm (s_end (seg p 1)));
       ("Segment2Start", vhhmm (s_start (seg p 2))); ("Segment2End", vhhmm (s_end (seg p 2)));
       ("Segment3Start", vhhmm (s_start (seg p 3))); ("Segment3End", vhhmm (s_end (seg p 3)));
       ("LinkedProfileID", VN (p_linked p))]
  | AddTask id t =>
      [sn id; ("From", vdate (t_from t)); ("To", vdate (t_to t));
       ("Monday", wd (t_weekdays t) 1); ("Tuesday", wd (t_weekdays t) 2); ("Wednesday", wd (t_weekdays t) 3);
       ("Thursday", wd (t_weekdays t) 4); ("Friday", wd (t_weekdays t) 5); ("Saturday", wd (t_weekdays t) 6);
       ("Sunday", wd (t_weekdays t) 0);
       ("Start", vhhmm (t_start t)); ("Door", VN (t_door t)); ("Task", VN (u8 (t_task t))); ("MoreCards", VN (t_cards t))]
  | RecordSpecialEvents id b => [sn id; ("Enable", VB b)]
  | GetEvent id i => [sn id; ("Index", VN i)]
  | SetEventIndex id i => [sn id; ("Index", VN i); ("MagicWord", VN magic)]
  | SetDoorPasscodes id door codes =>
      [sn id; ("Door", VN door); ("Passcode1", VN (passcode codes 0)); ("Passcode2", VN (passcode codes 1));
       ("Passcode3", VN (passcode codes 2)); ("Passcode4", VN (passcode codes 3))]
  | OpenDoor id door => [sn id; ("Door", VN door)]
  | SetPCControl id b => [sn id; ("MagicWord", VN magic); ("Enable", VB b)]
  | SetInterlock id m => [sn id; ("Interlock", VN m)]
  | ActivateKeypads id r =>
      [sn id; ("Reader1", VB (mget r 1 false)); ("Reader2", VB (mget r 2 false));
       ("Reader3", VB (mget r 3 false)); ("Reader4", VB (mget r 4 false))]
  end%string.

Definition request_values (o : op) : list fval := build (req_name o) (req_env o).
Definition request_bytes (o : op) : outcome (list N) := marshal (msg_layout (req_name o)) (request_values o).

(* ---------- client configuration and routing ---------- *)
Record device := { d_id : N; d_name : list N; d_addr : option (list N * N); d_proto : list N }.
Record config := { cfg_devices : list device;               (* NewUHPPOTE's slice: later entries overwrite earlier ones *)
                   cfg_bcast : option (list N * N) }.       (* None: BroadcastAddr not valid *)

Fixpoint find_device (ds : list device) (id : N) (acc : option device) : option device :=
  match ds with
  | [] => acc
  | d :: r => find_device r id (if d_id d =? id then Some d else acc)
  end.
Definition lookup_device (c : config) (id : N) : option device := find_device (cfg_devices c) id None.

Inductive endpoint := EBroadcast (a : list N) (p : N) | EBroadcastTo (a : list N) (p : N) | EUdp (a : list N) (p : N) | ETcp (a : list N) (p : N).

Definition bcast_addr (c : config) : list N * N :=
  match cfg_bcast c with Some ap => ap | None => ([255;255;255;255], 60000) end.

Definition s_tcp : list N := [116; 99; 112].

(* the closure f in sendto *)
Definition route (c : config) (id : N) : endpoint :=
  let b := bcast_addr c in
  match lookup_device c id with
  | None => EBroadcastTo (fst b) (snd b)
  | Some d =>
      match d_addr d with
      | None => EBroadcastTo (fst b) (snd b)                               (* !Address.IsValid() *)
      | Some (a, p) =>
          if nlist_eqb a [0;0;0;0] then EBroadcastTo (fst b) (snd b)       (* == netip.IPv4Unspecified() *)
          else if nlist_eqb (d_proto d) s_tcp then ETcp a p else EUdp a p
      end
  end.

(* ---------- the scripted driver ---------- *)
(* what the driver does when called: for BroadcastTo the datagrams it offers to the callback in order (it returns the
   first accepted one, or a timeout error); for SendUDP/SendTCP the single return value; for Broadcast all replies *)
Inductive script :=
| SDatagrams (ds : list (list N))      (* BroadcastTo / Broadcast *)
| SReturn (d : list N)                 (* SendUDP / SendTCP returns these bytes *)
| SNil                                 (* returns (nil, nil) *)
| SError.                              (* returns an error *)

Definition serial_of (d : list N) : N := of_le (sub d 4 4).

(* udpBroadcastTo's handler *)
Definition handler_accepts (id : N) (d : list N) : bool := Nat.eqb (length d) 64 && (serial_of d =? id).

Inductive driver_result := DBytes (d : list N) | DNil | DErr.

Definition drive (e : endpoint) (id : N) (s : script) : driver_result :=
  match e, s with
  | EBroadcastTo _ _, SDatagrams ds => match find (handler_accepts id) ds with Some d => DBytes d | None => DErr end
  | EBroadcastTo _ _, SNil => DNil
  | (EUdp _ _ | ETcp _ _), SReturn d => DBytes d
  | (EUdp _ _ | ETcp _ _), SNil => DNil
  | (EUdp _ _ | ETcp _ _), SDatagrams (d :: _) => DBytes d
  | _, _ => DErr
  end.

(* the reply struct of an operation; none{} (SetAddress) has no fields *)
Definition resp_layout (o : op) : layout :=
  if String.eqb (resp_name o) "" then [] else msg_layout (resp_name o).

(* sendto[T]: Ok vs = decoded reply struct (zero struct for a nil response) *)
Definition sendto (c : config) (o : op) (s : script) : outcome (list fval) * list (endpoint * list N) :=
  let id := op_id o in
  if id =? 0 then (Err, [])
  else match request_bytes o with
       | Ok m =>
           let e := route c id in
           (match drive e id s with
            | DErr => Err
            | DNil => Ok (zero_reply (resp_name o))
            | DBytes r =>
                if negb (Nat.eqb (length r) 64) then Err
                else if negb (serial_of r =? id) then Err
                else unmarshal (resp_layout o) r
            end, [(e, m)])
       | Err => (Err, [])
       | Panic => (Panic, [])
       end.

(* ---------- results ---------- *)
Inductive result := RErr | RNone | RVals (vs : list fval) | RList (l : list (list fval)) | RPanic.

Definition sysdatetime (g : string -> fval) : fval :=
  match g "SystemDate"%string, g "SystemTime"%string with
  | VSysDate y m d, VSysTime h mi s =>
      if ((y =? 1) && (m =? 1) && (d =? 1))%Z then datetime_zero else VDateTime y m d h mi s
  | _, _ => datetime_zero
  end.

Definition status_of (g : string -> fval) : list fval :=
  [g "SerialNumber"; g "Door1State"; g "Door2State"; g "Door3State"; g "Door4State";
   g "Door1Button"; g "Door2Button"; g "Door3Button"; g "Door4Button"; g "SystemError"; sysdatetime g;
   g "SequenceId"; g "SpecialInfo"; g "RelayState"; g "InputState"]%string ++
  (match g "EventIndex"%string with
   | VN 0 => [VN 0; VN 0; VB false; VN 0; VN 0; VN 0; datetime_zero; VN 0]
   | _ => [g "EventIndex"; g "EventType"; g "Granted"; g "Door"; g "Direction"; g "CardNumber"; g "Timestamp"; g "Reason"]
   end)%string.

Definition hh (v : fval) : fval := match v with VNil => VHHmm 0 0 | _ => v end.

Definition card_of (g : string -> fval) : list fval :=
  [g "CardNumber"; g "From"; g "To"; g "Door1"; g "Door2"; g "Door3"; g "Door4"; g "PIN"]%string.

(* address completion of GetDevice / GetDevices *)
Definition device_of (c : config) (g : string -> fval) (port : N) : list fval :=
  let name := match g "SerialNumber"%string with
              | VN sn => match lookup_device c sn with Some d => d_name d | None => [] end
              | _ => [] end in
  let addr := match g "IpAddress"%string with
              | VIP ip => if Nat.eqb (length (to4 ip)) 4 then VAP (Some (to4 ip, port)) else VAP None
              | _ => VAP None end in
  [VMAC name; g "SerialNumber"; g "IpAddress"; g "SubnetMask"; g "Gateway"; g "MacAddress"; g "Version"; g "Date"; addr]%string.

Definition bcast_port (c : config) : N := match cfg_bcast c with Some (_, p) => p | None => 60000 end.

Definition result_of (c : config) (o : op) (vs : list fval) : result :=
  let g := get (resp_name o) vs in
  match o with
  | GetDevices => RErr
  | GetDevice id =>
      let port := match lookup_device c id with
                  | Some d => match d_addr d with Some (_, p) => p | None => bcast_port c end
                  | None => bcast_port c end in
      RVals (device_of c g port)
  | SetAddress id _ _ _ => RVals [VN id; VB true]
  | GetListener _ => RVals [g "AddrPort"; g "Interval"]
  | SetListener id _ _ => match g "SerialNumber" with
                          | VN sn => if N.eqb sn id then RVals [g "Succeeded"] else RErr
                          | _ => RErr end
  | GetTime _ | SetTime _ _ _ _ _ _ _ => RVals [g "SerialNumber"; g "DateTime"]
  | GetDoorControlState _ _ | SetDoorControlState _ _ _ _ => RVals [g "SerialNumber"; g "Door"; g "ControlState"; g "Delay"]
  | GetStatus _ => RVals (status_of g)
  | GetCards _ => RVals [g "Records"]
  | GetCardByID _ cardno =>
      match g "CardNumber" with
      | VN 0 => RNone
      | VN n => if N.eqb n cardno then RVals (card_of g) else RErr
      | _ => RErr
      end
  | GetCardByIndex _ _ =>
      match g "CardNumber" with
      | VN n => if (N.eqb n 0) || (N.eqb n 0xffffffff) then RNone else RVals (card_of g)
      | _ => RErr
      end
  | PutCard _ _ _ | DeleteCard _ _ | DeleteCards _ | SetTimeProfile _ _ | ClearTimeProfiles _ | ClearTaskList _
  | AddTask _ _ | RecordSpecialEvents _ _ | SetDoorPasscodes _ _ _ | SetPCControl _ _ | SetInterlock _ _
  | ActivateKeypads _ _ | RestoreDefaultParameters _ => RVals [g "Succeeded"]
  | RefreshTaskList _ => RVals [g "Refreshed"]
  | GetTimeProfile _ pid =>
      match g "ProfileID" with
      | VN n => if negb (N.eqb n 0) && negb (N.eqb n pid) then RErr
                else if N.eqb n 0 then RNone
                else RVals [g "ProfileID"; g "LinkedProfileID"; g "From"; g "To";
                            g "Monday"; g "Tuesday"; g "Wednesday"; g "Thursday"; g "Friday"; g "Saturday"; g "Sunday";
                            hh (g "Segment1Start"); hh (g "Segment1End"); hh (g "Segment2Start"); hh (g "Segment2End");
                            hh (g "Segment3Start"); hh (g "Segment3End")]
      | _ => RErr
      end
  | GetEvent _ _ =>
      match g "Type", g "Index" with
      | VN t, VN i => if N.eqb t 0xff then RErr else if N.eqb i 0 then RNone
                      else RVals [g "SerialNumber"; g "Index"; g "Type"; g "Granted"; g "Door"; g "Direction";
                                  g "CardNumber"; g "Timestamp"; g "Reason"]
      | _, _ => RErr
      end
  | GetEventIndex _ => RVals [g "SerialNumber"; g "Index"]
  | SetEventIndex _ idx => RVals [g "SerialNumber"; VN idx; g "Changed"]
  | OpenDoor _ _ => RVals [g "SerialNumber"; g "Succeeded"]
  end%string.

(* u.broadcast + GetDevices: every 64-byte reply that decodes, in order *)
Definition get_devices (c : config) (replies : list (list N)) : list (list fval) :=
  flat_map (fun r => if Nat.eqb (length r) 64
                     then match unmarshal (msg_layout "GetDeviceResponse") r with
                          | Ok vs => [device_of c (get "GetDeviceResponse" vs) (bcast_port c)]
                          | _ => []
                          end
                     else []) replies.

(* one API call: result and the driver calls it made *)
Definition api (c : config) (o : op) (s : script) : result * list (endpoint * list N) :=
  match o with
  | GetDevices =>
      match request_bytes o with
      | Ok m => let b := bcast_addr c in
                (match s with
                 | SDatagrams ds => RList (get_devices c ds)
                 | SNil => RList []
                 | _ => RErr
                 end, [(EBroadcast (fst b) (snd b), m)])
      | Err => (RErr, [])
      | Panic => (RPanic, [])
      end
  | _ =>
      if negb (accepted o) then (RErr, [])
      else match sendto c o s with
           | (Ok vs, calls) => (result_of c o vs, calls)
           | (Err, calls) => (RErr, calls)
           | (Panic, calls) => (RPanic, calls)
           end
  end.
