(* Bytes, byte lists, little/big-endian integers, outcomes.  No proofs here. *)
From Coq Require Export NArith ZArith List Bool Lia.
Export ListNotations.
Open Scope N_scope.

(* ---- outcomes: every Go construct that can fail or panic ---- *)
Inductive outcome (A : Type) : Type :=
| Ok (a : A)
| Err
| Panic.
Arguments Ok {A} a.
Arguments Err {A}.
Arguments Panic {A}.

Definition obind {A B} (o : outcome A) (f : A -> outcome B) : outcome B :=
  match o with Ok a => f a | Err => Err | Panic => Panic end.
Notation "x <- e ;; k" := (obind e (fun x => k)) (at level 61, e at next level, right associativity).

Definition omap {A B} (f : A -> B) (o : outcome A) : outcome B :=
  match o with Ok a => Ok (f a) | Err => Err | Panic => Panic end.

Definition of_option {A} (o : option A) : outcome A :=
  match o with Some a => Ok a | None => Err end.

Definition is_ok {A} (o : outcome A) : bool := match o with Ok _ => true | _ => false end.
Definition is_err {A} (o : outcome A) : bool := match o with Err => true | _ => false end.
Definition is_panic {A} (o : outcome A) : bool := match o with Panic => true | _ => false end.

(* ---- bytes ---- *)
Definition byte := N.
Definition bytes := list N.

Definition is_byte (b : N) : bool := b <? 256.
Definition all_bytes (l : list N) : bool := forallb is_byte l.

Definition zeros (n : nat) : list N := repeat 0 n.

(* Go slice expression b[lo:hi] on a slice of length = capacity: panics unless lo <= hi <= len *)
Definition slice (b : list N) (lo hi : nat) : outcome (list N) :=
  if (Nat.leb lo hi && Nat.leb hi (length b))%bool then Ok (firstn (hi - lo) (skipn lo b)) else Panic.

(* b[i] *)
Definition index (b : list N) (i : nat) : outcome N :=
  match nth_error b i with Some x => Ok x | None => Panic end.

(* total read used under a proved length guard *)
Definition sub (b : list N) (off len : nat) : list N := firstn len (skipn off b).

(* copy(dst[off:off+len(src)], src) for off+len(src) <= len(dst) *)
Definition write_at (buf : list N) (off : nat) (src : list N) : list N :=
  firstn off buf ++ src ++ skipn (off + length src) buf.

(* little endian, by iterated division (see DESIGN 4.1) *)
Definition le16 (n : N) : list N := [n mod 256; (n / 256) mod 256].
Definition le24 (n : N) : list N := [n mod 256; (n / 256) mod 256; ((n / 256) / 256) mod 256].
Definition le32 (n : N) : list N :=
  [n mod 256; (n / 256) mod 256; ((n / 256) / 256) mod 256; (((n / 256) / 256) / 256) mod 256].
Definition be16 (n : N) : list N := [(n / 256) mod 256; n mod 256].

Definition of_le (l : list N) : N := fold_right (fun b acc => b + 256 * acc) 0 l.
Definition of_be16 (l : list N) : N :=
  match l with [a; b] => a * 256 + b | _ => 0 end.

Definition list_eqb (a b : list N) : bool :=
  if list_eq_dec N.eq_dec a b then true else false.

Fixpoint nlist_eqb (a b : list N) : bool :=
  match a, b with
  | [], [] => true
  | x :: a', y :: b' => (x =? y) && nlist_eqb a' b'
  | _, _ => false
  end.

Definition opt_eqb {A} (eqb : A -> A -> bool) (a b : option A) : bool :=
  match a, b with
  | None, None => true
  | Some x, Some y => eqb x y
  | _, _ => false
  end.

(* indices (from 0) of the elements failing a test; used by every cases file *)
Fixpoint failing_from {A} (i : nat) (f : A -> bool) (l : list A) : list nat :=
  match l with
  | [] => []
  | x :: r => if f x then failing_from (S i) f r else i :: failing_from (S i) f r
  end.
Definition failing {A} (f : A -> bool) (l : list A) : list nat := failing_from 0 f l.
