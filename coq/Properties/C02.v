(* C02 - replies are interpreted exactly as the protocol defines, sentinels included. *)
From UV Require Import Base.Bytes Model.WireTypes Model.Codec Model.Ops Spec.WireSpec Spec.CodecSpec Spec.Protocol Spec.ReplySpec
  Proofs.WireProofs Proofs.ReplyProofs Proofs.ReplyE2E.
Open Scope N_scope.

(* generated-data obligation: for all 31 reply-bearing operations the reply struct declared in messages/*.go is the flat
   protocol table (encoding, offset) of Spec/ReplySpec.v *)
Theorem C02_reply_layouts : forall o, resp_layout o = reply_layout_spec o.
Proof. exact resp_match. Qed.
Print Assumptions C02_reply_layouts.

(* every field, for ALL byte strings of its width: the decoder's verdict is the protocol's - the decoded value, a
   rejection, or the field's 'no value'; never a different in-domain value *)
Theorem C02_field_decoding : forall k b, length b = width k -> dec_agrees k (dec k None b) (spec_dec k b) = true.
Proof. exact dec_agrees_all. Qed.
Print Assumptions C02_field_decoding.

(* the whole reply, for all 2^(8*64) byte strings: no panic; failure only for a bad header or a field outside its domain;
   each decoded field is the protocol decoding of its bytes or its zero *)
Theorem C02_reply_decoding : forall o r, spec_unmarshal_admits (resp_layout o) r (unmarshal (resp_layout o) r) = true.
Proof. exact reply_decoding. Qed.
Print Assumptions C02_reply_decoding.

(* only a 64-byte datagram with the addressed serial number is ever decoded *)
Theorem C02_gate : forall cfg o s vs, fst (sendto cfg o s) = Ok vs ->
  op_id o <> 0 /\
  (drive (route cfg (op_id o)) (op_id o) s = DNil /\ vs = zero_reply (resp_name o) \/
   exists r, drive (route cfg (op_id o)) (op_id o) s = DBytes r /\ length r = 64%nat /\ serial_of r = op_id o /\
             unmarshal (resp_layout o) r = Ok vs).
Proof. exact sendto_gate. Qed.
Print Assumptions C02_gate.

(* END TO END, for every operation and all 2^(8*56) payloads behind a correct 8-byte header: what the API model computes from
   the decoded reply is admitted by the flat protocol specification of Spec/ReplySpec.v - each result field is the
   protocol decoding of its bytes at its protocol offset, the sentinels and echo checks are honoured, a field outside its
   domain makes the call fail or comes back as its 'no value', and decoding never panics *)
Theorem C02_reply_interpreted : forall cfg o r, reply_header_ok o r = true ->
  match unmarshal (resp_layout o) r with
  | Ok vs => admits_result cfg o r (result_of cfg o vs) = true
  | Err => admits_result cfg o r RErr = true
  | Panic => False
  end.
Proof. exact reply_interpreted. Qed.
Print Assumptions C02_reply_interpreted.

(* the same through the model of the whole call (argument check, routing, driver, gate, decoding, result mapping) *)
Theorem C02_api_result_admitted : forall cfg o s r m, o <> GetDevices -> accepted o = true -> op_id o <> 0 -> request_bytes o = Ok m ->
  drive (route cfg (op_id o)) (op_id o) s = DBytes r -> reply_header_ok o r = true ->
  admits_result cfg o r (fst (api cfg o s)) = true.
Proof. exact api_reply_admitted. Qed.
Print Assumptions C02_api_result_admitted.

(* non-vacuity / sentinels on concrete replies (evaluated end to end through the model of the API) *)
Definition reply_card (n : N) : list N :=
  [0x17; 0x5a; 0; 0; 0x2d; 0x55; 0x39; 0x19] ++ le32 n ++ [0x20; 0x24; 0x01; 0x01; 0x20; 0x24; 0x12; 0x31; 1; 0; 29; 1; 0x40; 0xe2; 0x01] ++ repeat 0 37.
Example C02_ex_sentinels :
  let cfg := {| cfg_devices := []; cfg_bcast := None |} in
  fst (api cfg (GetCardByID 423187757 6154412) (SDatagrams [reply_card 0])) = RNone /\
  fst (api cfg (GetCardByID 423187757 6154412) (SDatagrams [reply_card 6154413])) = RErr /\
  fst (api cfg (GetCardByID 423187757 6154412) (SDatagrams [reply_card 6154412])) =
    RVals [VN 6154412; VDate 2024 1 1; VDate 2024 12 31; VN 1; VN 0; VN 29; VN 1; VN 123456] /\
  admits_result cfg (GetCardByID 423187757 6154412) (reply_card 6154412)
    (RVals [VN 6154412; VDate 2024 1 1; VDate 2024 12 31; VN 1; VN 0; VN 29; VN 1; VN 123456]) = true /\
  admits_result cfg (GetCardByID 423187757 6154412) (reply_card 6154412)
    (RVals [VN 6154412; VDate 2024 1 1; VDate 2024 12 31; VN 0; VN 1; VN 29; VN 1; VN 123456]) = false.
Proof. vm_compute. repeat split. Qed.
