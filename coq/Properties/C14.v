(* C14 - JSON and text forms of the public value types round-trip; text outside the domain is refused.
   Values are canonical trees [cv] (numbers, byte strings, lists); strings are byte lists; the model works on JSON value
   trees (encoding/json does the text <-> tree step and is exercised by the correspondence runs, not modelled).
   to-functions model MarshalJSON / String(), of-functions UnmarshalJSON into a fresh zero value / the text parsers. *)
From UV Require Import Proofs.WireProofs Proofs.AddrProofs Proofs.TextProofs.
From UV Require Import Base.Bytes Model.WireTypes Spec.WireSpec Model.Addr Model.Cases15 Model.TextForms Model.TextComposites Model.Cases14.
Open Scope N_scope.

(* ---- round trips: decoding the encoding of an in-domain value yields that value ---- *)
(* every calendar date of years 1..9999 (0001-01-01 is the zero date, encoded as "") *)
Theorem C14_date : forall y m d, date_dom y m d = true ->
  exists s, date_to (cv_date y m d) = Some s /\ date_of s = Some (cv_date y m d).
Proof. exact date_roundtrip. Qed.
Print Assumptions C14_date.
(* every date-time of years 1..9999, printed with the zone abbreviation in force (whatever it is: UTC, AEDT, -03, +0545, ...
   - the one Go prints and, reading its own print, resolves to the same offset; an abbreviation naming ANOTHER offset of the
   same location is outside the model) *)
Theorem C14_datetime : forall y m d h mi s abbr, datetime_dom y m d h mi s = true -> abbr <> [] ->
  exists t, datetime_to (VL [VZ y; VZ m; VZ d; VZ h; VZ mi; VZ s]) abbr = Some t
            /\ datetime_of abbr t = DOk (VL [VZ y; VZ m; VZ d; VZ h; VZ mi; VZ s]).
Proof. exact datetime_roundtrip14. Qed.
Print Assumptions C14_datetime.
Theorem C14_hhmm : forall h m, hhmm_dom h m = true -> exists s, hhmm_to (cv_hhmm h m) = Some s /\ hhmm_of s = Some (cv_hhmm h m).
Proof. exact hhmm_roundtrip. Qed.
Print Assumptions C14_hhmm.
Theorem C14_pin : forall p, (0 <= p <= 999999)%Z -> exists s, pin_to (VZ p) = Some s /\ pin_of s = Some (VZ p).
Proof. exact pin_roundtrip. Qed.
Print Assumptions C14_pin.
Theorem C14_control : forall c, (1 <= c <= 3)%Z -> exists s, control_to (VZ c) = Some s /\ control_of s = Some (VZ c).
Proof. exact control_roundtrip. Qed.
Print Assumptions C14_control.
(* task type: the JSON form is the name; the name is also accepted by the text parser *)
Theorem C14_tasktype : forall t, (0 <= t <= 12)%Z ->
  exists s, tasktype_to (VZ t) = Some s /\ tasktype_of_name s = Some (VZ t) /\ tasktype_of_text s = Some (VZ t).
Proof. exact tasktype_roundtrip. Qed.
Print Assumptions C14_tasktype.
Theorem C14_version : forall n, (0 <= n < 65536)%Z -> exists s, version_to (VZ n) = Some s /\ version_of s = Some (VZ n).
Proof. exact version_roundtrip. Qed.
Print Assumptions C14_version.
Theorem C14_mac : forall a b c d e f, a < 256 -> b < 256 -> c < 256 -> d < 256 -> e < 256 -> f < 256 ->
  exists s, mac_to (VS [a;b;c;d;e;f]) = Some s /\ mac_of s = Some (VS [a;b;c;d;e;f]).
Proof. exact mac_roundtrip. Qed.
Print Assumptions C14_mac.
(* the four address types, every address and every port the role allows *)
Theorem C14_addr : forall r a b c d p, a < 256 -> b < 256 -> c < 256 -> d < 256 -> (0 <= p <= 65535)%Z -> port_ok r (Z.to_N p) = true ->
  exists s, addr_to r (VL [VS [a;b;c;d]; VZ p]) = Some s /\ addr_of r s = POk (VL [VS [a;b;c;d]; VZ p]).
Proof. exact addr_roundtrip. Qed.
Print Assumptions C14_addr.
(* all 128 sets of weekdays *)
Theorem C14_weekdays : forall b1 b2 b3 b4 b5 b6 b7,
  let v := VL (map flag [b1; b2; b3; b4; b5; b6; b7]) in exists s, weekdays_to v = Some s /\ weekdays_of s = Some v.
Proof. exact weekdays_roundtrip. Qed.
Print Assumptions C14_weekdays.
(* segments decoded into a fresh nil map ([] = nothing there before): the four shapes without a gap *)
Theorem C14_segments_1 : forall a1 a2 a3 a4, seg_dom a1 a2 a3 a4 = true ->
  let v := VL [present (seg a1 a2 a3 a4); absent; absent] in exists j, segments_to v = Some j /\ segments_of [] j = Some v.
Proof. exact segments_roundtrip_1. Qed.
Print Assumptions C14_segments_1.
Theorem C14_segments_2 : forall a1 a2 a3 a4 b1 b2 b3 b4, seg_dom a1 a2 a3 a4 = true -> seg_dom b1 b2 b3 b4 = true ->
  let v := VL [present (seg a1 a2 a3 a4); present (seg b1 b2 b3 b4); absent] in exists j, segments_to v = Some j /\ segments_of [] j = Some v.
Proof. exact segments_roundtrip_2. Qed.
Print Assumptions C14_segments_2.
Theorem C14_segments_3 : forall a1 a2 a3 a4 b1 b2 b3 b4 c1 c2 c3 c4, seg_dom a1 a2 a3 a4 = true -> seg_dom b1 b2 b3 b4 = true -> seg_dom c1 c2 c3 c4 = true ->
  let v := VL [present (seg a1 a2 a3 a4); present (seg b1 b2 b3 b4); present (seg c1 c2 c3 c4)] in
  exists j, segments_to v = Some j /\ segments_of [] j = Some v.
Proof. exact segments_roundtrip_3. Qed.
Print Assumptions C14_segments_3.
Theorem C14_segments_0 : let v := VL [absent; absent; absent] in exists j, segments_to v = Some j /\ segments_of [] j = Some v.
Proof. exact segments_roundtrip_0. Qed.
Print Assumptions C14_segments_0.
(* F15, known finding: the full statement is FALSE for a Segments value with a gap - witness {1: 08:30-09:45, 3: 15:10-18:00} *)
Theorem C14_segments_gap_refuted : exists v j, in_dom TySegments v = true /\ segments_to v = Some j /\ segments_of [] j <> Some v.
Proof. exact segments_gap_refuted. Qed.
Print Assumptions C14_segments_gap_refuted.

(* ---- composites (values with the maps the library itself builds: doors 1..4, all seven weekdays, segments 1..3) ---- *)
(* a card: any number, BOTH dates (the decoder refuses a card without dates), door values 0..255, PIN 0..999999 *)
Theorem C14_card : forall n y1 m1 d1 y2 m2 d2 a b c d pin,
  (0 <= n < 4294967296)%Z -> date_dom y1 m1 d1 = true -> (y1, m1, d1) <> (1, 1, 1)%Z -> date_dom y2 m2 d2 = true -> (y2, m2, d2) <> (1, 1, 1)%Z ->
  u8 a = true -> u8 b = true -> u8 c = true -> u8 d = true -> (0 <= pin <= 999999)%Z ->
  let v := VL [VZ n; cv_date y1 m1 d1; cv_date y2 m2 d2; VL [VZ a; VZ b; VZ c; VZ d]; VZ pin] in
  exists j, card_to v = Some j /\ card_of j = POk v.
Proof. exact card_roundtrip. Qed.
Print Assumptions C14_card.
Theorem C14_time_profile : forall id linked y1 m1 d1 y2 m2 d2 f1 f2 f3 f4 f5 f6 f7 a1 a2 a3 a4 b1 b2 b3 b4 c1 c2 c3 c4,
  u8 id = true -> u8 linked = true -> date_dom y1 m1 d1 = true -> date_dom y2 m2 d2 = true ->
  seg_dom a1 a2 a3 a4 = true -> seg_dom b1 b2 b3 b4 = true -> seg_dom c1 c2 c3 c4 = true ->
  let v := VL [VZ id; VZ linked; cv_date y1 m1 d1; cv_date y2 m2 d2; VL (map flag [f1; f2; f3; f4; f5; f6; f7]);
               VL [present (seg a1 a2 a3 a4); present (seg b1 b2 b3 b4); present (seg c1 c2 c3 c4)]] in
  exists j, profile_to v = Some j /\ profile_of j = POk v.
Proof. exact profile_roundtrip. Qed.
Print Assumptions C14_time_profile.
Theorem C14_task : forall ty door y1 m1 d1 y2 m2 d2 f1 f2 f3 f4 f5 f6 f7 h mi cards,
  (0 <= ty <= 12)%Z -> u8 door = true -> u8 cards = true -> date_dom y1 m1 d1 = true -> date_dom y2 m2 d2 = true -> hhmm_dom h mi = true ->
  let v := VL [VZ ty; VZ door; cv_date y1 m1 d1; cv_date y2 m2 d2; VL (map flag [f1; f2; f3; f4; f5; f6; f7]); cv_hhmm h mi; VZ cards] in
  exists j, task_to v = Some j /\ task_of j = POk v.
Proof. exact task_roundtrip. Qed.
Print Assumptions C14_task.

(* ---- rejections ---- *)
(* ten characters dddd-dd-dd that are not a calendar date (2023-02-29, 2024-13-01, 2024-04-31, ...) *)
Theorem C14_date_rejects : forall y1 y2 y3 y4 m1 m2 d1 d2,
  valid_ymd (Z.to_N (zd y1 * 1000 + zd y2 * 100 + zd y3 * 10 + zd y4)) (Z.to_N (num2 m1 m2)) (Z.to_N (num2 d1 d2)) = false ->
  date_of [y1;y2;y3;y4;45;m1;m2;45;d1;d2] = None.
Proof. exact date_rejects. Qed.
Print Assumptions C14_date_rejects.
Theorem C14_datetime_rejects : forall (dte tme rest : list N) c, length dte = 10%nat -> length tme = 8%nat ->
  parse_date10 dte = None \/ parse_time8 tme = None -> forall inforce, datetime_of inforce (dte ++ c :: tme ++ rest) = DErr.
Proof. exact datetime_rejects. Qed.
Print Assumptions C14_datetime_rejects.
(* hh:mm with two-digit fields beyond 24:00 or minutes above 59 (24:01, 23:60, 25:00, 99:99) *)
Theorem C14_hhmm_rejects : forall h m, (0 <= h <= 99)%Z -> (0 <= m <= 99)%Z -> hhmm_dom h m = false ->
  hhmm_of (fmt_w 2 h ++ 58 :: fmt_w 2 m) = None.
Proof. exact hhmm_rejects. Qed.
Print Assumptions C14_hhmm_rejects.
Theorem C14_pin_rejects : forall s, (6 < length s)%nat -> pin_of s = None.
Proof. exact pin_rejects. Qed.
Print Assumptions C14_pin_rejects.
Theorem C14_control_rejects : forall s, s <> s_normally_open -> s <> s_normally_closed -> s <> s_controlled -> control_of s = None.
Proof. exact control_rejects. Qed.
Print Assumptions C14_control_rejects.
Theorem C14_tasktype_numbers : forall n : Z, ((n <= 0 \/ 14 <= n)%Z -> tasktype_of_num n = None) /\ ((1 <= n <= 13)%Z -> tasktype_of_num n = Some (VZ (n - 1)%Z)).
Proof. exact tasktype_numbers. Qed.
Print Assumptions C14_tasktype_numbers.
Theorem C14_addr_rejects_port : forall r a b c d p, a < 256 -> b < 256 -> c < 256 -> d < 256 -> p <= 65535 -> port_ok r p = false ->
  addr_of r (quad_str [a; b; c; d] ++ colon :: digits p) = PErr.
Proof. exact addr_rejects_port. Qed.
Print Assumptions C14_addr_rejects_port.
Theorem C14_addr_rejects_listen_without_port : forall a b c d, a < 256 -> b < 256 -> c < 256 -> d < 256 -> addr_of RListen (quad_str [a; b; c; d]) = PErr.
Proof. exact addr_rejects_listen_without_port. Qed.
Print Assumptions C14_addr_rejects_listen_without_port.
(* the executable reject oracle applied to every harness case is sound for the model *)
Theorem C14_reject_oracle_sound : forall t j prior, (forall r, t <> TyAddr r) -> must_reject t j = true -> of_json t prior j = PErr.
Proof. exact must_reject_sound. Qed.
Print Assumptions C14_reject_oracle_sound.

(* ---- text forms: String() fed back to the parser ---- *)
Theorem C14_text_date : forall y m d, date_dom y m d = true -> (y, m, d) <> (1, 1, 1)%Z ->
  exists s, text_to 0 (cv_date y m d) = Some s /\ text_of 0 s = POk (cv_date y m d).
Proof. exact text_date_roundtrip. Qed.
Print Assumptions C14_text_date.
Theorem C14_text_hhmm : forall h m, hhmm_dom h m = true -> exists s, text_to 1 (cv_hhmm h m) = Some s /\ text_of 1 s = POk (cv_hhmm h m).
Proof. exact text_hhmm_roundtrip. Qed.
Print Assumptions C14_text_hhmm.
Theorem C14_text_systime : forall h m s, ((0 <=? h) && (0 <=? m) && (0 <=? s))%Z = true -> valid_hms (zn h) (zn m) (zn s) = true ->
  exists t, text_to 2 (VL [VZ h; VZ m; VZ s]) = Some t /\ text_of 2 t = POk (VL [VZ h; VZ m; VZ s]).
Proof. exact text_systime_roundtrip. Qed.
Print Assumptions C14_text_systime.
Theorem C14_text_tasktype : forall t, (0 <= t <= 12)%Z -> exists s, text_to 3 (VZ t) = Some s /\ text_of 3 s = POk (VZ t).
Proof. exact text_tasktype_roundtrip. Qed.
Print Assumptions C14_text_tasktype.
Theorem C14_text_cardformat : forall f, (f = 0 \/ f = 1)%Z -> exists s, text_to 4 (VZ f) = Some s /\ text_of 4 s = POk (VZ f).
Proof. exact text_cardformat_roundtrip. Qed.
Print Assumptions C14_text_cardformat.

(* non-vacuity: the domains are inhabited, and the listed bad texts are in the reject sets *)
Example C14_ex :
  date_dom 2024 2 29 = true /\ date_dom 2023 2 29 = false /\ datetime_dom 2024 3 10 23 59 59 = true
  /\ hhmm_dom 24 0 = true /\ hhmm_dom 24 1 = false /\ hhmm_dom 23 60 = false /\ seg_dom 8 30 17 0 = true
  /\ must_reject TyHHmm (JStr [50;51;58;54;48]) = true                                     (* "23:60" *)
  /\ must_reject TyPIN (JStr [49;48;48;48;48;48;48]) = true                                 (* "1000000" *)
  /\ must_reject TyDate (JStr [50;48;50;51;45;48;50;45;50;57]) = true                       (* "2023-02-29" *)
  /\ must_reject TyTaskType (JNum 14) = true /\ must_reject TyTaskType (JNum 0) = true
  /\ datetime_of [43;48;53;52;53] [50;48;50;52;45;48;51;45;49;48;32;49;50;58;51;48;58;48;48;32;43;48;53;52;53]
     = DOk (VL [VZ 2024; VZ 3; VZ 10; VZ 12; VZ 30; VZ 0])%Z.                              (* "2024-03-10 12:30:00 +0545" *)
Proof. vm_compute. repeat split; reflexivity. Qed.
