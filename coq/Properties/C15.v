(* C15 - address parsing accepts exactly IPv4[:port] under each role's port rule.
   Strings are byte lists; [quad_str [a;b;c;d]] is "a.b.c.d" and [digits p] the plain decimal numeral of p. *)
From UV Require Import Base.Bytes Model.WireTypes Model.Addr Proofs.AddrProofs.
Open Scope N_scope.

(* every a.b.c.d:port (octets 0..255, port 0..65535, no leading zeros): accepted iff the role's port rule holds,
   yielding exactly that address and port - all 2^32 addresses, all 2^16 ports, all four roles *)
Theorem C15_with_port : forall r a b c d p, a < 256 -> b < 256 -> c < 256 -> d < 256 -> p <= 65535 ->
  parse r (quad_str [a; b; c; d] ++ colon :: digits p) = if port_ok r p then POk ([a; b; c; d], p) else PErr.
Proof. exact accept_with_port. Qed.
Print Assumptions C15_with_port.

(* a.b.c.d without a port: the role's default port (bind 0, broadcast / controller 60000); mandatory for listen *)
Theorem C15_without_port : forall r a b c d, a < 256 -> b < 256 -> c < 256 -> d < 256 ->
  parse r (quad_str [a; b; c; d]) = match default_port r with Some dp => POk ([a; b; c; d], dp) | None => PErr end.
Proof. exact accept_without_port. Qed.
Print Assumptions C15_without_port.

(* every string that contains no dotted quad at all is rejected (the matcher is proved equal to its denotation) *)
Theorem C15_reject_no_quad : forall r s, ~ has_dotted_quad s -> parse r s = PErr.
Proof. exact reject_no_quad. Qed.
Print Assumptions C15_reject_no_quad.

Theorem C15_matcher_denotation : forall s, contains_quad s = true <-> has_dotted_quad s.
Proof. exact contains_quad_spec. Qed.
Print Assumptions C15_matcher_denotation.

(* formatting an accepted address (the text omits the default port) and parsing it again returns it *)
Theorem C15_format_parse : forall r a b c d p, a < 256 -> b < 256 -> c < 256 -> d < 256 -> p <= 65535 -> port_ok r p = true ->
  parse r (format r ([a; b; c; d], p)) = POk ([a; b; c; d], p).
Proof. exact format_parse. Qed.
Print Assumptions C15_format_parse.

Example C15_ex :
  parse RBind [49;57;50;46;49;54;56;46;49;46;49;48;48;58;54;48;48;48;48] = PErr /\          (* 192.168.1.100:60000 *)
  parse RController [49;57;50;46;49;54;56;46;49;46;49;48;48] = POk ([192;168;1;100], 60000) /\
  parse RListen [49;57;50;46;49;54;56;46;49;46;49;48;48] = PErr /\
  port_ok RListen 60001 = true /\ ~ has_dotted_quad [49;46;50;46;51].
Proof.
  repeat split; try reflexivity. intros H. apply contains_quad_spec in H. discriminate H.
Qed.
