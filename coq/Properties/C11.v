(* C11 - discovery returns exactly the controllers that answered, despite network noise.
   Part (a): broadcast / GetDevices over ALL finite reply sequences (this file); part (b): the collecting loop of the real
   driver against loopback peers (net engine). *)
From Coq Require Import String.
From UV Require Import Base.Bytes Model.WireTypes Model.Codec Model.Interp Model.Cases18 Model.Ops Spec.CodecSpec Proofs.RecvProofs.
Open Scope N_scope.

(* never an error because of what arrived *)
Theorem C11_result : forall cfg ds, fst (api cfg GetDevices (SDatagrams ds)) = RList (get_devices cfg ds).
Proof. exact discovery_result. Qed.
Print Assumptions C11_result.

(* arrival order, duplicates included: the result of a concatenation is the concatenation of the results *)
Theorem C11_order : forall cfg l1 l2, get_devices cfg (l1 ++ l2) = (get_devices cfg l1 ++ get_devices cfg l2)%list.
Proof. exact discovery_app. Qed.
Print Assumptions C11_order.

Theorem C11_entry : forall cfg d vs, length d = 64%nat -> unmarshal (msg_layout "GetDeviceResponse") d = Ok vs ->
  get_devices cfg [d] = [device_of cfg (get "GetDeviceResponse" vs) (bcast_port cfg)].
Proof. exact discovery_entry. Qed.
Print Assumptions C11_entry.

(* malformed datagrams anywhere in the sequence change nothing *)
Theorem C11_noise : forall cfg l1 d l2, listable d = false ->
  get_devices cfg (l1 ++ d :: l2) = get_devices cfg (l1 ++ l2).
Proof. exact discovery_noise. Qed.
Print Assumptions C11_noise.

(* which datagrams decode: the protocol decoding of the get-device reply (C02) *)
Theorem C11_listable : forall d,
  spec_unmarshal_admits (resp_layout (GetDevice 0)) d (unmarshal (msg_layout "GetDeviceResponse") d) = true.
Proof. exact discovery_listable_spec. Qed.
Print Assumptions C11_listable.
