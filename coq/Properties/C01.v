(* C01 - every request on the wire is exactly the protocol encoding of the call.
   [proto_request] (Spec/Protocol.v) is the flat protocol description; the request structs are the GENERATED layouts. *)
From UV Require Import Base.Bytes Model.WireTypes Model.Codec Model.Ops Spec.WireSpec Spec.CodecSpec Spec.Protocol Proofs.ApiProofs.
Open Scope N_scope.

(* the bytes: for all 32 operations and all in-domain arguments, what Marshal produces from the request struct the
   operation builds is the protocol message *)
Theorem C01_request_bytes : forall o, args_in_domain o = true -> request_bytes o = Ok (proto_request o).
Proof. exact request_is_proto. Qed.
Print Assumptions C01_request_bytes.

(* exactly one driver call per accepted operation, carrying that message, whatever the client configuration and
   whatever the network answers *)
Theorem C01_wire : forall cfg o s, o <> GetDevices -> accepted o = true -> args_in_domain o = true ->
  snd (api cfg o s) = [(route cfg (op_id o), proto_request o)].
Proof. exact api_sends_proto. Qed.
Print Assumptions C01_wire.

Theorem C01_discovery : forall cfg s,
  snd (api cfg GetDevices s) = [(EBroadcast (fst (bcast_addr cfg)) (snd (bcast_addr cfg)), proto_request GetDevices)].
Proof. exact discovery_sends_proto. Qed.
Print Assumptions C01_discovery.

(* histories: what a sequence of calls sends is the concatenation of what each call alone sends *)
Theorem C01_history : forall cfg steps,
  Forall (fun st => args_in_domain (fst st) = true) steps ->
  flat_map snd (run_history cfg steps) = flat_map (fun st => expected_sent cfg (fst st)) steps.
Proof. exact history_sent. Qed.
Print Assumptions C01_history.

(* the protocol message has the shape the property describes *)
Theorem C01_shape : forall o, length (proto_request o) = 64%nat /\ nth 0 (proto_request o) 0 = 0x17 /\ nth 1 (proto_request o) 0 = proto_code o.
Proof. exact proto_shape. Qed.
Print Assumptions C01_shape.

(* non-vacuity: the upstream golden vector of messages/put_card_test.go *)
Definition ex_card := {| c_number := 6154412; c_from := (2019, 2, 3)%Z; c_to := (2019, 12, 29)%Z;
                         c_doors := [(1, 0); (2, 1); (3, 0); (4, 1)]; c_pin := 0 |}.
Example C01_ex : args_in_domain (PutCard 423187757 ex_card []) = true /\ accepted (PutCard 423187757 ex_card []) = true /\
  proto_request (PutCard 423187757 ex_card []) =
  [0x17; 0x50; 0; 0; 0x2d; 0x55; 0x39; 0x19; 0xac; 0xe8; 0x5d; 0; 0x20; 0x19; 0x02; 0x03; 0x20; 0x19; 0x12; 0x29; 0; 1; 0; 1] ++ repeat 0 40.
Proof. vm_compute. repeat split. Qed.
