(* C08 - concurrent use is race-free and replies are never crossed between calls (PARTIAL).
   Proved: the timed model of the shared-fixed-bind-port protocol (Model/Driver.v): mutex hand-off order arbitrary, a call's
   deadline taken after the lock, datagrams addressed to the port delivered to whoever holds it.
   Not a theorem (named in DESIGN.md 10): memory-level interleavings of the real binary and the kernel's UDP queues - those
   are exercised by the loopback farm and the race detector on every run. *)
From UV Require Import Base.Bytes Model.Driver Proofs.DriverProofs.
Open Scope Z_scope.

(* every call whose controller answers within T of the request being sent returns the reply to ITS OWN request - for any
   number of calls on a shared fixed bind port, in whatever order the lock serves them, however long each had to wait *)
Theorem C08_own_reply : forall T cs free_at,
  Forall (answers_in_time T) cs ->
  Forall (fun x => let '(c, r, acq, ret) := x in
                   r = Reply (tag c) /\ (exists d, delay c = Some d /\ ret = acq + d) /\ ret < acq + T)
         (serve T true free_at [] cs).
Proof. exact own_reply. Qed.
Print Assumptions C08_own_reply.

(* the code before the repair (deadline taken before the lock) did not have the property: three calls, T = 300 ms,
   controller answering after 200 ms *)
Theorem C08_own_reply_refuted_before_lock :
  Forall (answers_in_time 300) [c1; c2; c3] /\
  map (fun x => let '(c, r, _, _) := x in r) (serve 300 false 0 [] [c1; c2; c3]) = [Reply 1; Timeout; Timeout] /\
  map (fun x => let '(c, r, _, _) := x in r) (serve 300 true 0 [] [c1; c2; c3]) = [Reply 1; Reply 2; Reply 3].
Proof. exact own_reply_refuted_before_lock. Qed.
Print Assumptions C08_own_reply_refuted_before_lock.
