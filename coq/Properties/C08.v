(* C08 - concurrent use is race-free and replies are never crossed between calls (PARTIAL).
   Proved: the timed model of the shared-fixed-bind-port protocol (Model/Driver.v): mutex hand-off order arbitrary, a call's
   deadline taken after the lock, datagrams addressed to the port delivered to whoever holds it.
   Not a theorem (named in DESIGN.md 10): memory-level interleavings of the real binary and the kernel's UDP queues - those
   are exercised by the loopback farm and the race detector on every run. *)
From UV Require Import Base.Bytes Model.Driver Proofs.DriverProofs.
Open Scope Z_scope.

(* every call whose controller answers within T of the request being sent returns the reply to ITS OWN request - for any
   number of calls on a shared fixed bind port, in whatever order the lock serves them, however long each had to wait *)
Theorem C08_own_reply : forall T cs free_at,
  Forall (answers_in_time T) cs ->
  Forall (fun x => let '(c, r, acq, ret) := x in
                   r = Reply (tag c) /\ (exists d, delay c = Some d /\ ret = acq + d) /\ ret < acq + T)
         (serve T true free_at [] cs).
Proof. exact own_reply. Qed.
Print Assumptions C08_own_reply.

(* the code before the repair (deadline taken before the lock) did not have the property: three calls, T = 300 ms,
   controller answering after 200 ms *)
Theorem C08_own_reply_refuted_before_lock :
  Forall (answers_in_time 300) [c1; c2; c3] /\
  map (fun x => let '(c, r, _, _) := x in r) (serve 300 false 0 [] [c1; c2; c3]) = [Reply 1; Timeout; Timeout] /\
  map (fun x => let '(c, r, _, _) := x in r) (serve 300 true 0 [] [c1; c2; c3]) = [Reply 1; Reply 2; Reply 3].
Proof. exact own_reply_refuted_before_lock. Qed.
Print Assumptions C08_own_reply_refuted_before_lock.

(* ---- race freedom of the source, statically: the lock-set discipline ---- *)
From Coq Require Import String List.
From UV Require Import Gen.SyncSkeleton Model.Sync Proofs.SyncProofs.
Import ListNotations.
Open Scope string_scope.
Open Scope list_scope.

(* soundness, in the trace model of mutexes (any valid trace, any number of threads and mutexes): two accesses made while
   the same mutex is held are separated by an Unlock of the first thread followed by a Lock of the second - a
   synchronises-with edge of the Go memory model, hence ordered by happens-before *)
Theorem C08_lockset_orders : forall m t1 t2 p q r x1 w1 x2 w2, t1 <> t2 ->
  holds m t1 p -> holds m t2 (p ++ (t1, Acc x1 w1) :: q) ->
  let tr := p ++ (t1, Acc x1 w1) :: q ++ (t2, Acc x2 w2) :: r in
  exists q1 q2 q3, q = q1 ++ (t1, Rel m) :: q2 ++ (t2, Acq m) :: q3 /\
                   tr = p ++ (t1, Acc x1 w1) :: q1 ++ (t1, Rel m) :: q2 ++ (t2, Acq m) :: q3 ++ (t2, Acc x2 w2) :: r.
Proof. exact lockset_orders. Qed.
Print Assumptions C08_lockset_orders.

(* what the decision procedure establishes for a skeleton it accepts *)
Theorem C08_lockset_ok_spec : forall sk, lockset_ok sk = true -> forall fn v accs, In (fn, v, accs) sk ->
  In (fn, v) ordered_otherwise \/
  (forall a b, In a accs -> In b accs -> conflicting a b = true -> exists m, In m (a_locks a) /\ In m (a_locks b)).
Proof. exact lockset_ok_spec. Qed.
Print Assumptions C08_lockset_ok_spec.

(* GENERATED-DATA OBLIGATION, re-checked against the source on every run: every variable of a goroutine-starting function
   of package uhppote that is assigned inside a goroutine or after the first go statement is accessed by different
   threads only under a common mutex (exception reviewed: ut0311.Listen's closed flag, ordered through the socket close) *)
Theorem C08_source_disciplined : lockset_ok sync_skeleton = true.
Proof. exact skeleton_disciplined. Qed.
Print Assumptions C08_source_disciplined.

(* the pre-repair Broadcast (F9) is rejected by the same procedure *)
Example C08_f9_rejected :
  lockset_ok [("uhppote.ut0311.Broadcast", "replies", [("go1", "w", [], 86%nat); ("go1", "r", [], 86%nat); ("parent", "r", [], 96%nat)])] = false.
Proof. exact f9_rejected. Qed.

(* ---- what concurrent calls can share at all: the process-wide state of the library ---- *)
From UV Require Import Gen.SharedState.

(* what the decision procedure establishes for a list of package-level variables it accepts: none of them is written after
   initialisation, and each is of a form that is immutable once built or documented safe for concurrent use *)
Theorem C08_shared_ok_spec : forall l, shared_ok l = true ->
  forall p n k w, In (p, n, k, w) l -> w = 0%nat /\ In k benign_kinds.
Proof. exact shared_ok_spec. Qed.
Print Assumptions C08_shared_ok_spec.

(* GENERATED-DATA OBLIGATION, re-checked against the source on every run: the package-level variables of types/, encoding/,
   messages/ and uhppote/ are the bind-port mutex, compiled regular expressions, reflect.Type values, error values, one
   time value and the two dispatch tables, none of them written after initialisation - concurrent calls share no mutable
   memory except through the mutex (a buffer pool, a memo table or a cache added at package level falsifies this) *)
Theorem C08_shared_state_benign : shared_ok shared_state = true.
Proof. exact shared_state_benign. Qed.
Print Assumptions C08_shared_state_benign.

Example C08_pool_rejected : shared_ok [("uhppote", "buffers", "composite:sync.Pool", 0%nat)] = false.
Proof. exact pool_rejected. Qed.
