(* C04 - nothing the network or the caller supplies can crash the library. *)
From Coq Require Import String.
From UV Require Import Base.Bytes Model.WireTypes Model.Codec Model.Interp Model.Cases18 Model.Messages Model.Ops Model.Listen Model.Render
  Gen.PanicSites Model.PanicCovered Proofs.LayoutProps Proofs.ApiProofs Proofs.PanicProofs.
Open Scope N_scope.

(* all 31 reply types, 32 request types and the event types, every byte string of every length *)
Theorem C04_decode_total : forall name L buf, In (name, L) shipped -> unmarshal L buf <> Panic.
Proof. exact decode_total. Qed.
Print Assumptions C04_decode_total.

Theorem C04_dispatch_total : forall buf, unmarshal_request buf <> Panic /\ unmarshal_response buf <> Panic.
Proof. exact dispatch_total. Qed.
Print Assumptions C04_dispatch_total.

(* whatever the network returns to any operation *)
Theorem C04_api_total : forall cfg o s, args_in_domain o = true -> fst (api cfg o s) <> RPanic.
Proof. exact api_total. Qed.
Print Assumptions C04_api_total.

(* whatever is delivered to the event listener *)
Theorem C04_listen_total : forall d, listen_step d <> Panic.
Proof. exact listen_total. Qed.
Print Assumptions C04_listen_total.

(* the one table lookup that takes a wire value (door control state) *)
Theorem C04_render_total : forall v, control_state_string v <> Panic.
Proof. exact render_total. Qed.
Print Assumptions C04_render_total.

(* the hex dump the driver formats for every request and every received datagram (before it looks at the debug flag):
   total, and every byte is printed exactly once, in order - for byte strings of every length *)
Theorem C04_dump_total : forall m, exists rows, dump m = Ok rows /\ concat rows = m.
Proof. exact dump_total. Qed.
Print Assumptions C04_dump_total.

(* generated-data obligation: no panic-capable expression in the source that was not reviewed *)
Theorem C04_panic_sites_covered : forallb (fun s => existsb (site_eqb s) covered_sites) panic_sites = true.
Proof. exact panic_sites_covered. Qed.
Print Assumptions C04_panic_sites_covered.

(* generated-data obligation: the library keeps no package-level variable that is written after initialisation (an
   unsynchronised write to a package-level map from two goroutines is a fatal error of the Go runtime that no caller can
   recover from), re-checked against the source on every run *)
From Coq Require Import String.
From UV Require Import Gen.SharedState Model.Sync Proofs.SyncProofs.
Theorem C04_no_written_shared_state : shared_ok shared_state = true.
Proof. exact shared_state_benign. Qed.
Print Assumptions C04_no_written_shared_state.
