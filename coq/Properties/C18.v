(* C18 - the codec is generic over message layouts, not only right for the shipped messages.
   Every theorem quantifies over ALL layouts L accepted by [wf_layout] (supported kinds, parseable fixed tags, every data
   field inside bytes 2..63, no two fields sharing a byte) - i.e. over programs - and over all values / all byte strings.
   Theorems only; proofs in Proofs/WireProofs.v, Proofs/CodecProofs.v, Proofs/TagProofs.v. *)
From UV Require Import Base.Bytes Model.WireTypes Model.Codec Model.Interp Spec.WireSpec Spec.CodecSpec
  Proofs.WireProofs Proofs.CodecProofs Proofs.TagProofs Model.CodecEntry Proofs.EntryProofs.
Open Scope N_scope.

(* encoding writes exactly each field's protocol bytes at its declared offset, the tag bytes in the header and zero
   elsewhere ([spec_image] is defined pointwise, byte by byte) - in particular it neither fails nor panics *)
Theorem C18_marshal_bytes : forall L vs,
  wf_layout L = true -> values_in_domain L vs = true -> marshal L vs = Ok (spec_image L vs).
Proof. exact marshal_is_image. Qed.
Print Assumptions C18_marshal_bytes.

(* ... where inside the span of any field of the layout the image is that field's bytes *)
Theorem C18_image_field : forall L (vs : list fval) f v off w i,
  pairwise_disjoint (all_spans L) = true -> In (f, v) (combine L vs) -> fspan f = Some (off, w) ->
  covers (off, w) i = true ->
  image_at L vs i = match fbytes f v with Some bs => Some (nth (i - off) bs 0) | None => None end.
Proof. exact image_at_field. Qed.
Print Assumptions C18_image_field.

(* the model's per-kind encoders (fmt + BCD strings, iterated division) produce the protocol bytes *)
Theorem C18_kind_bytes : forall k v, in_domain k v = true -> enc_matches k v.
Proof. exact enc_spec. Qed.
Print Assumptions C18_kind_bytes.

Theorem C18_marshal_total : forall L vs, wf_layout L = true -> values_in_domain L vs = true -> marshal L vs <> Panic.
Proof. exact marshal_total. Qed.
Print Assumptions C18_marshal_total.

(* decoding never panics, whatever the bytes and their number *)
Theorem C18_unmarshal_total : forall L buf, wf_layout L = true -> unmarshal L buf <> Panic.
Proof. exact unmarshal_total. Qed.
Print Assumptions C18_unmarshal_total.

(* decoding is the protocol decoding: it fails only for a bad length/header/tag or a field outside its domain, and every
   returned field is the protocol decoding of its bytes or the field's 'no value' *)
Theorem C18_unmarshal_spec : forall L buf, wf_layout L = true -> spec_unmarshal_admits L buf (unmarshal L buf) = true.
Proof. exact unmarshal_admitted. Qed.
Print Assumptions C18_unmarshal_spec.

Theorem C18_kind_decoding : forall k b, length b = width k -> dec_agrees k (dec k None b) (spec_dec k b) = true.
Proof. exact dec_agrees_all. Qed.
Print Assumptions C18_kind_decoding.

(* decoding returns the encoded values *)
Theorem C18_roundtrip : forall L vs m,
  wf_layout L = true -> values_in_domain L vs = true -> marshal L vs = Ok m -> som_ok m = true ->
  unmarshal L m = Ok (canon_vals L vs).
Proof. exact unmarshal_marshal. Qed.
Print Assumptions C18_roundtrip.

Theorem C18_injective : forall L vs1 vs2 m,
  wf_layout L = true -> values_in_domain L vs1 = true -> values_in_domain L vs2 = true ->
  marshal L vs1 = Ok m -> marshal L vs2 = Ok m -> som_ok m = true -> canon_vals L vs1 = canon_vals L vs2.
Proof. exact marshal_injective. Qed.
Print Assumptions C18_injective.

(* fixed tags are enforced on decode (function code; fixed byte values are part of fields_admit) *)
Theorem C18_tags_enforced : forall L buf vs, wf_layout L = true -> unmarshal L buf = Ok vs ->
  length buf = 64%nat /\ som_ok buf = true /\ msgtypes_match L buf = true /\ fields_admit L buf vs = true.
Proof. exact unmarshal_enforces_tags. Qed.
Print Assumptions C18_tags_enforced.

(* ... and may be written in decimal, 0x.., upper-case hex digits or 0X.. *)
Theorem C18_value_tag_spellings : forall n, n < 256 ->
  value_tag (tag_of (spell_dec n)) = Some (Some n) /\
  value_tag (tag_of (spell_hex false false n)) = Some (Some n) /\
  value_tag (tag_of (spell_hex true false n)) = Some (Some n) /\
  value_tag (tag_of (spell_hex true true n)) = Some (Some n).
Proof. exact value_tag_spellings. Qed.
Print Assumptions C18_value_tag_spellings.

(* the decoded value depends on the header bytes and the fields' bytes only *)
Theorem C18_frame : forall L b b',
  length b = length b' -> (forall i, relevant L i = true -> nth i b 0 = nth i b' 0) -> unmarshal L b = unmarshal L b'.
Proof. exact unmarshal_frame. Qed.
Print Assumptions C18_frame.

(* the list entry point (UnmarshalArray) is the single-datagram decoder applied in order: it succeeds exactly when every
   datagram decodes, with exactly those values in that order (nothing dropped, added or reordered), fails exactly when some
   datagram fails - whatever follows the first failing one - and never panics, for lists of any length *)
Theorem C18_array_pointwise : forall L bufs vss,
  unmarshal_array L bufs = Ok vss <-> Forall2 (fun b vs => unmarshal L b = Ok vs) bufs vss.
Proof. exact array_pointwise. Qed.
Print Assumptions C18_array_pointwise.

Theorem C18_array_err : forall L bufs, wf_layout L = true ->
  (unmarshal_array L bufs = Err <-> exists b, In b bufs /\ unmarshal L b = Err).
Proof. exact array_err. Qed.
Print Assumptions C18_array_err.

Theorem C18_array_first_error : forall L pre b post vs,
  Forall2 (fun b vs => unmarshal L b = Ok vs) pre vs -> unmarshal L b = Err ->
  unmarshal_array L (pre ++ b :: post) = Err.
Proof. exact array_prefix_err. Qed.
Print Assumptions C18_array_first_error.

Theorem C18_array_total : forall L bufs, wf_layout L = true -> unmarshal_array L bufs <> Panic.
Proof. exact array_total. Qed.
Print Assumptions C18_array_total.

Theorem C18_array_roundtrip : forall L vss ms, wf_layout L = true ->
  Forall2 (fun vs m => values_in_domain L vs = true /\ marshal L vs = Ok m /\ som_ok m = true) vss ms ->
  unmarshal_array L ms = Ok (map (canon_vals L) vss).
Proof. exact array_roundtrip. Qed.
Print Assumptions C18_array_roundtrip.

(* non-vacuity: a layout with a 16-bit field ending on the last byte, a pointer date and a fixed byte *)
Definition ex_layout : layout :=
  [FMsgType (Some (Some 0x20)); FData KSerial 4 None; FData KDateP 8 None; FData KU8 12 (Some (Some 0x55)); FData KU16 62 None].
Definition ex_values : list fval := [VN 0; VN 405419896; VDate 2024 2 29; VN 0; VN 0xBEEF].
Example C18_ex : wf_layout ex_layout = true /\ values_in_domain ex_layout ex_values = true /\
  marshal ex_layout ex_values =
    Ok ([0x17; 0x20; 0; 0; 0x78; 0x37; 0x2a; 0x18; 0x20; 0x24; 0x02; 0x29; 0x55] ++ repeat 0 49 ++ [0xEF; 0xBE]) /\
  som_ok (spec_image ex_layout ex_values) = true.
Proof. vm_compute. repeat split. Qed.

Example C18_array_ex :
  unmarshal_array ex_layout [spec_image ex_layout ex_values; spec_image ex_layout ex_values] =
    Ok [canon_vals ex_layout ex_values; canon_vals ex_layout ex_values] /\
  unmarshal_array ex_layout [spec_image ex_layout ex_values; [0x17]; spec_image ex_layout ex_values] = Err.
Proof. vm_compute. split; reflexivity. Qed.
