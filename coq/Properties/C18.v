(* C18 - the codec is generic over message layouts.  Theorems only. *)
From UV Require Import Base.Bytes Model.WireTypes Model.Codec Model.Interp Proofs.TagProofs.
Open Scope N_scope.

(* Function-code / fixed-value tags written in decimal, 0x.., upper-case hex digits or 0X.. denote the same byte *)
Theorem C18_value_tag_spellings : forall n, n < 256 ->
  value_tag (tag_of (spell_dec n)) = Some (Some n) /\
  value_tag (tag_of (spell_hex false false n)) = Some (Some n) /\
  value_tag (tag_of (spell_hex true false n)) = Some (Some n) /\
  value_tag (tag_of (spell_hex true true n)) = Some (Some n).
Proof. exact value_tag_spellings. Qed.
Print Assumptions C18_value_tag_spellings.
