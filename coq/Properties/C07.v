(* C07 - invalid arguments are rejected before anything is sent, and only invalid arguments are. *)
From UV Require Import Base.Bytes Model.WireTypes Model.Codec Model.Ops Spec.Protocol Spec.ApiSpec Proofs.ApiProofs.
Open Scope N_scope.

(* the guards of the 32 operations accept exactly the argument tuples the property lists
   (all 2^32 card numbers against every format list, all PINs, all doors, all address:port values ...) *)
Theorem C07_iff : forall o, accepted o = valid_args o.
Proof. exact accepted_iff_valid. Qed.
Print Assumptions C07_iff.

(* in particular the digit-string Wiegand-26 test of the code is the arithmetic rule, for every card number *)
Theorem C07_wiegand26 : forall c, is_wiegand26 c = (c / 100000 <=? 255) && (c mod 100000 <=? 65535).
Proof. exact is_wiegand26_w26. Qed.
Print Assumptions C07_wiegand26.

(* a rejected call puts nothing on the network and fails *)
Theorem C07_silent : forall cfg o s, valid_args o = false -> snd (api cfg o s) = [] /\ fst (api cfg o s) = RErr.
Proof. intros cfg o s V. apply rejected_sends_nothing. now rewrite accepted_iff_valid. Qed.
Print Assumptions C07_silent.

(* an accepted call sends exactly one request (the request of C01) *)
Theorem C07_accepted_sends : forall cfg o s, o <> GetDevices -> valid_args o = true -> args_in_domain o = true ->
  snd (api cfg o s) = [(route cfg (op_id o), proto_request o)].
Proof. intros cfg o s NG V D. apply api_sends_proto; auto. now rewrite accepted_iff_valid. Qed.
Print Assumptions C07_accepted_sends.

(* SetDoorPasscodes disables (sends 0 for) passcodes above 999999 or beyond the fourth: part of the flat request *)
Theorem C07_passcodes : forall (codes : list N) i, (i < 4)%nat ->
  nth i [passcode codes 0; passcode codes 1; passcode codes 2; passcode codes 3] 0 =
  match nth_error codes i with Some c => if c <=? 999999 then c else 0 | None => 0 end.
Proof. intros codes i H. destruct i as [|[|[|[|i]]]]; try reflexivity; lia. Qed.
Print Assumptions C07_passcodes.

Example C07_ex : valid_args (PutCard 1 {| c_number := 100000000; c_from := (2024,1,1)%Z; c_to := (2024,12,31)%Z; c_doors := []; c_pin := 0 |} [1]) = false
  /\ valid_args (PutCard 1 {| c_number := 25565535; c_from := (2024,1,1)%Z; c_to := (2024,12,31)%Z; c_doors := []; c_pin := 999999 |} [1]) = true.
Proof. split; reflexivity. Qed.
