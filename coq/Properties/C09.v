(* C09 - every call ends within its timeout and releases its socket and goroutines (PARTIAL: wall-clock bounds and
   descriptor release are observed on the real driver; the theorems are about the timed model and the resource footprint). *)
From UV Require Import Base.Bytes Model.Driver Proofs.DriverProofs.
Open Scope Z_scope.

(* whatever arrives - replies, strays, a flood, nothing - a call returns no later than its deadline and, if it fails for
   lack of an acceptable datagram, exactly at its deadline (never early) *)
Theorem C09_bounded : forall T after cs free_at inflight,
  Forall (fun x => let '(c, r, acq, ret) := x in
                   acq <= ret <= Z.max acq (deadline T after c acq) /\ (r = Timeout -> ret = Z.max acq (deadline T after c acq)))
         (serve T after free_at inflight cs).
Proof. exact bounded_hold. Qed.
Print Assumptions C09_bounded.

(* calls sharing a fixed bind port are served in turn, each holding the port for at most one timeout *)
Theorem C09_hold_at_most_T : forall T, 0 < T -> forall cs free_at inflight,
  Forall (fun x => let '(c, r, acq, ret) := x in acq <= ret <= acq + T) (serve T true free_at inflight cs).
Proof. exact hold_at_most_T. Qed.
Print Assumptions C09_hold_at_most_T.

(* a reply that arrives any time before the deadline is accepted (instance of C08_own_reply: the return time is the arrival
   time of the call's own reply) *)
Theorem C09_not_early : forall T cs free_at,
  Forall (answers_in_time T) cs ->
  Forall (fun x => let '(c, r, acq, ret) := x in
                   r = Reply (tag c) /\ (exists d, delay c = Some d /\ ret = acq + d) /\ ret < acq + T)
         (serve T true free_at [] cs).
Proof. exact own_reply. Qed.
Print Assumptions C09_not_early.

(* after any sequence of driver calls, successful or not, no more sockets or goroutines than before *)
Theorem C09_resources : forall (calls : list (dcall * bool)) s g,
  balance (flat_map (fun x => footprint (fst x) (snd x)) calls) s g = (s, g).
Proof. exact resources_balanced. Qed.
Print Assumptions C09_resources.
