(* C05 - encoding and decoding are mutually inverse for every message type; dispatchers.
   Instances of the generic C18 theorems for the GENERATED layouts and tables (coq/Gen/Layouts.v, regenerated from
   /repo/messages/*.go on every run), so these statements are about the message structs the source declares now. *)
From Coq Require Import String.
From UV Require Import Base.Bytes Model.WireTypes Model.Codec Model.Interp Model.Cases18 Model.Messages Gen.Layouts
  Spec.WireSpec Spec.CodecSpec Proofs.WireProofs Proofs.CodecProofs Proofs.LayoutProps.
Open Scope N_scope.

(* generated-data obligations *)
Theorem C05_shipped_wf : forallb (fun p => wf_layout (snd p)) shipped = true.
Proof. exact shipped_wf. Qed.
Print Assumptions C05_shipped_wf.

Theorem C05_tables_ok :
  (forallb entry_ok table_requests = true /\ nodup_N (map fst table_requests) = true) /\
  (forallb entry_ok table_responses = true /\ nodup_N (map fst table_responses) = true).
Proof. exact (conj requests_ok responses_ok). Qed.
Print Assumptions C05_tables_ok.

(* for every request, reply and event type and every in-domain value: the encoding is the protocol image and decoding
   it yields the same (canonical) value *)
Theorem C05_roundtrip : forall name L vs, In (name, L) shipped -> values_in_domain L vs = true ->
  exists m, marshal L vs = Ok m /\ m = spec_image L vs /\ unmarshal L m = Ok (canon_vals L vs).
Proof. exact shipped_roundtrip. Qed.
Print Assumptions C05_roundtrip.

(* so distinct values never share an encoding *)
Theorem C05_injective : forall name L vs1 vs2 m, In (name, L) shipped ->
  values_in_domain L vs1 = true -> values_in_domain L vs2 = true ->
  marshal L vs1 = Ok m -> marshal L vs2 = Ok m -> canon_vals L vs1 = canon_vals L vs2.
Proof.
  intros name L vs1 vs2 m HIn D1 D2 E1 E2. destruct (shipped_in name L HIn) as [W G].
  apply (marshal_injective L vs1 vs2 m W D1 D2 E1 E2).
  rewrite marshal_is_image in E1 by assumption. injection E1 as <-. now apply gate_any_values.
Qed.
Print Assumptions C05_injective.

(* the decoded value does not depend on bytes that belong to no field *)
Theorem C05_frame : forall L b b',
  length b = length b' -> (forall i, relevant L i = true -> nth i b 0 = nth i b' 0) -> unmarshal L b = unmarshal L b'.
Proof. exact unmarshal_frame. Qed.
Print Assumptions C05_frame.

(* the dispatchers: all 256 function codes, all lengths, all contents *)
Theorem C05_dispatch_request : forall buf,
  match unmarshal_request buf with
  | Ok (n, vs) => length buf = 64%nat /\ nth 0 buf 0 = 0x17 /\ lookup_code table_requests (nth 1 buf 0) = Some n /\
                  unmarshal (msg_layout n) buf = Ok vs /\
                  (exists L, layout_of structs n = Some L /\ layout_code L = Some (nth 1 buf 0))
  | Err => length buf <> 64%nat \/ nth 0 buf 0 <> 0x17 \/ lookup_code table_requests (nth 1 buf 0) = None \/
           (exists n, lookup_code table_requests (nth 1 buf 0) = Some n /\ unmarshal (msg_layout n) buf = Err)
  | Panic => False
  end.
Proof. exact (fun buf => dispatch_spec table_requests buf (proj1 requests_ok)). Qed.
Print Assumptions C05_dispatch_request.

Theorem C05_dispatch_response : forall buf,
  match unmarshal_response buf with
  | Ok (n, vs) => length buf = 64%nat /\ nth 0 buf 0 = 0x17 /\ lookup_code table_responses (nth 1 buf 0) = Some n /\
                  unmarshal (msg_layout n) buf = Ok vs /\
                  (exists L, layout_of structs n = Some L /\ layout_code L = Some (nth 1 buf 0))
  | Err => length buf <> 64%nat \/ nth 0 buf 0 <> 0x17 \/ lookup_code table_responses (nth 1 buf 0) = None \/
           (exists n, lookup_code table_responses (nth 1 buf 0) = Some n /\ unmarshal (msg_layout n) buf = Err)
  | Panic => False
  end.
Proof. exact (fun buf => dispatch_spec table_responses buf (proj1 responses_ok)). Qed.
Print Assumptions C05_dispatch_response.

(* non-vacuity: the upstream golden vector of messages/get_time_test.go decodes through the dispatcher *)
Example C05_ex :
  unmarshal_response ([0x17; 0x32; 0; 0; 0x2d; 0x55; 0x39; 0x19; 0x20; 0x21; 0x08; 0x28; 0x14; 0x23; 0x56] ++ repeat 0 49)
  = Ok ("GetTimeResponse"%string, [VN 0x32; VN 423187757; VDateTime 2021 8 28 14 23 56]).
Proof. vm_compute. reflexivity. Qed.
