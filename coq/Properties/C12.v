(* C12 - BCD coding is exact, total on digit strings and rejects non-decimal nibbles.
   Theorems only; proofs live in Proofs/BCDProofs.v.  Strings are lists of bytes (N). *)
From UV Require Import Base.Bytes Model.BCD Spec.BCDSpec Proofs.BCDProofs.

(* Encoding a digit string yields the digits two per byte, msd first, left-padded when odd. *)
Theorem C12_encode_spec : forall s, all_digits s = true -> bcd_encode s = Some (pack (pad s)).
Proof. exact encode_spec. Qed.
Print Assumptions C12_encode_spec.

(* ceil(n/2) bytes *)
Theorem C12_encode_length : forall s bs, bcd_encode s = Some bs -> length bs = Nat.div (length s + 1) 2.
Proof. exact encode_length. Qed.
Print Assumptions C12_encode_length.

(* any other character (any byte value, hence any multi-byte UTF-8 sequence) is an error *)
Theorem C12_encode_rejects : forall s, all_digits s = false -> bcd_encode s = None.
Proof. exact encode_rejects. Qed.
Print Assumptions C12_encode_rejects.

(* decoding yields the 2n digits of n bytes, and is an error iff some nibble exceeds 9 *)
Theorem C12_decode_spec : forall bs, bcd_decode bs = if forallb nibbles_ok bs then Some (unpack bs) else None.
Proof. exact decode_is_spec. Qed.
Print Assumptions C12_decode_spec.

Theorem C12_decode_length : forall bs s, bcd_decode bs = Some s -> length s = (2 * length bs)%nat.
Proof. exact decode_length. Qed.
Print Assumptions C12_decode_length.

Theorem C12_decode_rejects : forall pre b post, nibbles_ok b = false -> bcd_decode (pre ++ b :: post) = None.
Proof. exact decode_rejects. Qed.
Print Assumptions C12_decode_rejects.

(* decoding an encoding returns the (padded) original *)
Theorem C12_decode_encode : forall s bs, bcd_encode s = Some bs -> bcd_decode bs = Some (pad s).
Proof. exact decode_encode. Qed.
Print Assumptions C12_decode_encode.

(* encoding a decoding returns the original bytes *)
Theorem C12_encode_decode : forall bs s, all_bytes bs = true -> bcd_decode bs = Some s -> bcd_encode s = Some bs.
Proof. exact encode_decode. Qed.
Print Assumptions C12_encode_decode.

(* non-vacuity: concrete instances of every hypothesis *)
Example C12_ex_odd : bcd_encode [49; 50; 51] = Some [1; 35] /\ all_digits [49; 50; 51] = true.
Proof. split; reflexivity. Qed.
Example C12_ex_reject : all_digits [49; 0xC3; 0xA9] = false /\ nibbles_ok 0x1A = false.
Proof. split; reflexivity. Qed.
Example C12_ex_decode : bcd_decode [0x20; 0x25] = Some [50; 48; 50; 53] /\ all_bytes [0x20; 0x25] = true.
Proof. split; reflexivity. Qed.
