(* C13 - calendar dates and times keep their civil value in every time zone.
   A zone is an ABSTRACT offset function  off : Z -> Z  with the one structural hypothesis [window]: around every
   instant, within +-B seconds, the offset takes at most two values, both bounded by B (true of every zone whose
   constant-offset intervals are longer than 2B; on the installed tzdata 1800-2100 the shortest interval is 95 h and the
   largest |offset| under 16 h - measured by the harness on every run and written into the evidence).  The theorems are
   therefore about every such zone, not about a list of zones. *)
From UV Require Import Base.Bytes Model.GoTime Proofs.CivilProofs Proofs.ZoneProofs.
Open Scope Z_scope.

(* the Gregorian day count used by Format / Year / Month / Day is inverted exactly, for ALL years *)
Theorem C13_calendar : forall y m d, valid_md y m d = true -> civil_from_days (days_from_civil y m d) = (y, m, d).
Proof. exact civil_days_roundtrip. Qed.
Print Assumptions C13_calendar.

(* time.Date keeps an existing wall-clock reading *)
Theorem C13_go_date_existing : forall off B, (forall u, window off B u) ->
  forall u0 t, local off t = u0 -> local off (go_date off u0) = u0.
Proof. exact go_date_existing. Qed.
Print Assumptions C13_go_date_existing.

(* a date-time read from a controller reports exactly the transmitted year, month, day, hour, minute and second whenever
   that civil time exists in the process zone *)
Theorem C13_datetime : forall off B, (forall u, window off B u) ->
  forall c, valid_civil c = true -> exists_in_zone off c -> civil_in off (time_date off c) = c.
Proof. exact time_date_existing. Qed.
Print Assumptions C13_datetime.

(* ... and the controller system date and time in a status are combined the same way *)
Theorem C13_sys_datetime : forall off B, (forall u, window off B u) ->
  forall y m d h mi s, valid_civil (y, m, d, h, mi, s) = true -> exists_in_zone off (y, m, d, h, mi, s) ->
  sys_datetime off y m d h mi s = (y, m, d, h, mi, s).
Proof. exact sys_datetime_existing. Qed.
Print Assumptions C13_sys_datetime.

(* a date constructed from a valid year/month/day (ToDate, ParseDate, wire and JSON decoding all go through the same
   constructor) reports exactly that day - unless the zone skipped every whole hour of it *)
Theorem C13_date : forall off B, (forall u, window off B u) ->
  forall y m d h, valid_md y m d = true -> 0 <= h < 24 -> exists_in_zone off (y, m, d, h, 0, 0) ->
  date_in off (local_date off y m d) = (y, m, d).
Proof. exact local_date_correct. Qed.
Print Assumptions C13_date.

(* the code before the repair (local midnight only) did not have the property: witness zone and day *)
Theorem C13_date_midnight_refuted :
  valid_md 2022 9 11 = true /\
  (exists t, local santiago_like t = unix_of_civil (2022, 9, 11, 1, 0, 0)) /\
  date_in santiago_like (local_date_midnight santiago_like 2022 9 11) = (2022, 9, 10) /\
  date_in santiago_like (local_date santiago_like 2022 9 11) = (2022, 9, 11).
Proof. exact local_date_midnight_refuted. Qed.
Print Assumptions C13_date_midnight_refuted.

(* the zone hypothesis is DECIDABLE on transition tables: every offset within +-B, transitions more than 2B apart.  Every
   table the harness extracts from Go is checked with B = 16 h by kernel evaluation in the case files (CZoneOK), so for
   each zone of the run the hypothesis of the theorems above is established, not assumed. *)
Theorem C13_table_window : forall B z, table_ok B z = true -> forall u, window (off_table z) B u.
Proof. exact table_window. Qed.
Print Assumptions C13_table_window.

(* non-vacuity: the witness zone satisfies the zone hypothesis *)
Example C13_ex_zone : forall u, window santiago_like 14400 u.
Proof. exact santiago_like_window. Qed.
