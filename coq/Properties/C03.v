(* C03 - only a well-formed reply from the addressed controller is ever accepted.
   Part (a): the logic of sendto / the broadcast-to filter over ALL finite datagram sequences (this file).
   Part (b): the receive loops of the real socket driver (Model/Driver.v, Properties/C09.v) and the loopback runs. *)
From UV Require Import Base.Bytes Model.WireTypes Model.Codec Model.Ops Spec.WireSpec Spec.CodecSpec Spec.Protocol Proofs.ApiProofs Proofs.RecvProofs.
Open Scope N_scope.

Theorem C03_accepts_only : forall cfg o s,
  (match o with GetDevices | SetAddress _ _ _ _ => False | _ => True end) ->
  ok_result (fst (api cfg o s)) ->
  drive (route cfg (op_id o)) (op_id o) s = DNil \/
  exists r vs, drive (route cfg (op_id o)) (op_id o) s = DBytes r /\
               length r = 64%nat /\ serial_of r = op_id o /\ som_ok r = true /\ nth 1 r 0 = proto_code o /\
               unmarshal (resp_layout o) r = Ok vs /\ fst (api cfg o s) = result_of cfg o vs.
Proof. exact accepts_only. Qed.
Print Assumptions C03_accepts_only.

Theorem C03_delivered_is_received : forall id s r e, drive e id s = DBytes r ->
  match s with SDatagrams ds => In r ds | SReturn d => r = d | _ => False end.
Proof. exact drive_in. Qed.
Print Assumptions C03_delivered_is_received.

Theorem C03_broadcast_skips : forall cfg o junk ds,
  (match o with GetDevices => False | _ => True end) ->
  (exists a p, route cfg (op_id o) = EBroadcastTo a p) ->
  forallb (fun d => negb (handler_accepts (op_id o) d)) junk = true ->
  api cfg o (SDatagrams (junk ++ ds)) = api cfg o (SDatagrams ds).
Proof. exact broadcast_skips. Qed.
Print Assumptions C03_broadcast_skips.

Theorem C03_noninterference : forall cfg o ds d,
  (exists a p, route cfg (op_id o) = EBroadcastTo a p) -> (match o with GetDevices => False | _ => True end) ->
  find (handler_accepts (op_id o)) ds = Some d ->
  api cfg o (SDatagrams ds) = api cfg o (SDatagrams [d]).
Proof. exact broadcast_noninterference. Qed.
Print Assumptions C03_noninterference.

Theorem C03_wrong_datagram_fails : forall cfg o s r,
  (match o with GetDevices => False | _ => True end) -> args_in_domain o = true ->
  drive (route cfg (op_id o)) (op_id o) s = DBytes r -> handler_accepts (op_id o) r = false ->
  fst (api cfg o s) = RErr.
Proof. exact wrong_datagram_fails. Qed.
Print Assumptions C03_wrong_datagram_fails.

Theorem C03_bad_header_fails : forall cfg o s r,
  (match o with GetDevices | SetAddress _ _ _ _ => False | _ => True end) ->
  drive (route cfg (op_id o)) (op_id o) s = DBytes r ->
  som_ok r = false \/ nth 1 r 0 <> proto_code o ->
  fst (api cfg o s) = RErr \/ fst (api cfg o s) = RPanic.
Proof. exact bad_header_fails. Qed.
Print Assumptions C03_bad_header_fails.

Example C03_ex :
  let cfg := {| cfg_devices := []; cfg_bcast := None |} in
  let good := [0x17; 0x58; 0; 0; 0x2d; 0x55; 0x39; 0x19; 0x0b; 0x35; 0; 0] ++ repeat 0 52 in
  let other := [0x17; 0x58; 0; 0; 0x2e; 0x55; 0x39; 0x19; 0xff; 0xff; 0; 0] ++ repeat 0 52 in
  fst (api cfg (GetCards 423187757) (SDatagrams [other; [1;2;3]; good])) = RVals [VN 13579] /\
  fst (api cfg (GetCards 423187757) (SDatagrams [other; [1;2;3]])) = RErr.
Proof. vm_compute. split; reflexivity. Qed.
