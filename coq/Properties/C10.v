(* C10 - the event listener delivers every valid event once, in order, and nothing else.
   [step] (Model/ListenProc.v) is the transition relation of the receiver goroutine, the unbuffered pipe and the
   dispatcher goroutine; the theorems hold for every interleaving (every sequence of steps from the initial state) and every
   finite datagram sequence.  Instantiation: a datagram is accepted iff the handler of uhppote.listen accepts it
   (Model/Listen.v: 64 bytes, non-zero serial number, decodes as a status/event message), and the event delivered is the
   status built from it. *)
From UV Require Import Base.Bytes Model.WireTypes Model.Codec Model.Listen Model.ListenProc Proofs.PanicProofs.
Open Scope N_scope.

Definition accepts (d : list N) : bool := match listen_step d with Ok (Some _) => true | _ => false end.
Definition status_of_dgram (d : list N) : list fval := match listen_step d with Ok (Some v) => v | _ => [] end.

Definition lstep := step (list N) (list fval) accepts status_of_dgram.
Definition lsteps := steps (list N) (list fval) accepts status_of_dgram.
Definition linit := init (list N) (list fval).

(* at every reachable state: what has been delivered is a prefix of the statuses of the valid datagrams consumed so far,
   in arrival order; the error callbacks are exactly the invalid datagrams consumed so far *)
Theorem C10_prefix : forall ds s, lsteps (linit ds) s ->
  exists consumed, (exists rest, ds = consumed ++ rest) /\
    (exists pending, events _ _ (trace _ _ s) ++ pending = good _ _ accepts status_of_dgram consumed) /\
    errors _ _ (trace _ _ s) = bad _ accepts consumed.
Proof. exact (listener_prefix (list N) (list fval) accepts status_of_dgram). Qed.
Print Assumptions C10_prefix.

(* when everything sent has been consumed and both goroutines are idle: every valid event was delivered exactly once, in
   arrival order; every other datagram produced exactly one error callback; OnConnected came first *)
Theorem C10_complete : forall ds s, lsteps (linit ds) s ->
  inbox _ _ s = [] -> r _ _ s = RxIdle _ -> d _ _ s = DxWait _ ->
  events _ _ (trace _ _ s) = good _ _ accepts status_of_dgram ds /\
  errors _ _ (trace _ _ s) = bad _ accepts ds /\
  hd_error (trace _ _ s) = Some (Connected _ _).
Proof. exact (listener_complete (list N) (list fval) accepts status_of_dgram). Qed.
Print Assumptions C10_complete.

(* the handler never panics on anything received (C04) and classifies every datagram *)
Theorem C10_handler_total : forall dg, listen_step dg <> Panic.
Proof. exact listen_total. Qed.
Print Assumptions C10_handler_total.

Example C10_ex :
  let ev := [0x17; 0x20; 0; 0; 0x2d; 0x55; 0x39; 0x19] ++ repeat 0 56 in
  accepts ev = true /\ accepts (firstn 63 ev) = false /\ accepts ([0x17; 0x20; 0; 0; 0; 0; 0; 0] ++ repeat 0 56) = false.
Proof. vm_compute. repeat split. Qed.
