(* C16 - date and time comparisons form a strict total order consistent with the calendar.
   All statements are over unbounded integers (in particular all dates 0001..9999 and all 1441^2 HH:mm pairs). *)
From UV Require Import Base.Bytes Model.Order Spec.OrderSpec Proofs.OrderProofs.
Open Scope Z_scope.

Theorem C16_date_trichotomy : forall a b,
  (date_before a b = true /\ date_equals a b = false /\ date_after a b = false) \/
  (date_before a b = false /\ date_equals a b = true /\ date_after a b = false) \/
  (date_before a b = false /\ date_equals a b = false /\ date_after a b = true).
Proof. exact date_trichotomy. Qed.
Print Assumptions C16_date_trichotomy.

Theorem C16_date_lexicographic : forall a b, date_before a b = true <-> lex3_lt a b.
Proof. exact date_before_lex. Qed.
Print Assumptions C16_date_lexicographic.

Theorem C16_date_mirror : forall a b, date_after a b = date_before b a.
Proof. exact date_after_mirror. Qed.
Print Assumptions C16_date_mirror.

Theorem C16_date_transitive : forall a b c, date_before a b = true -> date_before b c = true -> date_before a c = true.
Proof. exact date_before_trans. Qed.
Print Assumptions C16_date_transitive.

Theorem C16_date_equals : forall a b, date_equals a b = true <-> a = b.
Proof. exact date_equals_eq. Qed.
Print Assumptions C16_date_equals.

Theorem C16_hhmm_trichotomy : forall a b,
  (hhmm_before a b = true /\ hhmm_equals a b = false /\ hhmm_after a b = false) \/
  (hhmm_before a b = false /\ hhmm_equals a b = true /\ hhmm_after a b = false) \/
  (hhmm_before a b = false /\ hhmm_equals a b = false /\ hhmm_after a b = true).
Proof. exact hhmm_trichotomy. Qed.
Print Assumptions C16_hhmm_trichotomy.

Theorem C16_hhmm_lexicographic : forall a b, hhmm_before a b = true <-> lex2_lt a b.
Proof. exact hhmm_before_lex. Qed.
Print Assumptions C16_hhmm_lexicographic.

Theorem C16_hhmm_mirror : forall a b, hhmm_after a b = hhmm_before b a.
Proof. exact hhmm_after_mirror. Qed.
Print Assumptions C16_hhmm_mirror.

Theorem C16_hhmm_transitive : forall a b c, hhmm_before a b = true -> hhmm_before b c = true -> hhmm_before a c = true.
Proof. exact hhmm_before_trans. Qed.
Print Assumptions C16_hhmm_transitive.

Theorem C16_datetime_before : forall d t, 0 <= d -> 0 <= t -> datetime_before d t = (whole_seconds d <? whole_seconds t).
Proof. exact datetime_before_seconds. Qed.
Print Assumptions C16_datetime_before.

Theorem C16_segment : forall s e, segment_accepted s e = true <-> ~ lex2_lt e s.
Proof. exact segment_accepted_iff. Qed.
Print Assumptions C16_segment.

Example C16_ex : date_before (2023, 12, 31) (2024, 1, 1) = true /\ hhmm_before (23, 59) (24, 0) = true /\
  datetime_before 1700000000999 1700000001000 = true /\ datetime_before 1700000000000 1700000000999 = false /\
  segment_accepted (8, 30) (8, 30) = true /\ segment_accepted (8, 30) (8, 29) = false.
Proof. repeat split; reflexivity. Qed.
