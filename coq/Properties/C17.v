(* C17 - clients are insulated from later input changes, results from network buffers.
   Heap model (Model/Alias.v): cells for the caller's device array, every Doors array, the client's map and every map
   returned by DeviceList; Device values refer to their Doors array by location. *)
From UV Require Import Base.Bytes Model.Alias Proofs.AliasProofs.
Open Scope nat_scope.

(* construction copies: the client's map is a fresh cell whose Device values equal the input's and whose Doors arrays are
   fresh; nothing the caller holds reaches it *)
Theorem C17_construct : forall h input caller ds,
  hget h input = Some (CDevs ds) -> Forall (fun l => l < length h) caller ->
  (forall r c, In r caller -> hget h r = Some c -> Forall (fun l => l < length h) (doors_of c)) ->
  exists ds0, Inv ds0 (construct h input caller) /\
              routing_view (construct h input caller) = map (fun d => (r_id d, r_name d, r_addr d, r_proto d)) ds.
Proof. exact construct_inv. Qed.
Print Assumptions C17_construct.

(* for ALL histories of caller writes (to anything it can reach: its device array, door-name arrays incl. those shared
   through DeviceList, returned maps), allocations, DeviceList calls and operations: what routing reads never changes *)
Theorem C17_config : forall ds0 xs s, Inv ds0 s -> all_allowed s xs ->
  routing_view (run s xs) = routing_view s /\ Inv ds0 (run s xs).
Proof. exact history_preserves_config. Qed.
Print Assumptions C17_config.

(* one step *)
Theorem C17_step : forall ds0 s x, Inv ds0 s -> allowed s x -> Inv ds0 (do_step s x).
Proof. exact step_inv. Qed.
Print Assumptions C17_step.

(* non-vacuity: a caller that rewrites its device array and a door name shared through DeviceList *)
Example C17_ex :
  let d := {| r_id := 405419896%N; r_name := []; r_addr := Some ([192;168;1;100]%N, 60000%N); r_proto := []; r_doors := 0 |} in
  let h := [CDoors [[97%N]]; CDevs [d]] in
  let s0 := construct h 1 [0; 1] in
  let s1 := do_step s0 (SWrite 1 (CDevs [])) in
  let s2 := do_step s1 SDeviceList in
  routing_view s2 = routing_view s0 /\ routing_view s0 = [(405419896%N, [], Some ([192;168;1;100]%N, 60000%N), [])].
Proof. vm_compute. split; reflexivity. Qed.
