(* C06 - each request is sent once, to the right endpoint, over the right transport. *)
From UV Require Import Base.Bytes Model.WireTypes Model.Codec Model.Ops Spec.Protocol Spec.ApiSpec Proofs.ApiProofs.
Open Scope N_scope.

(* the routing decision of the code is the specification's, for every configuration (any list of controllers, later
   duplicates winning; any protocol string; any address; broadcast address set or not) *)
Theorem C06_route : forall cfg o, o <> GetDevices -> route cfg (op_id o) = spec_route cfg o.
Proof. exact route_is_spec. Qed.
Print Assumptions C06_route.

(* exactly one driver call, to that endpoint *)
Theorem C06_once : forall cfg o s, o <> GetDevices -> accepted o = true -> args_in_domain o = true ->
  snd (api cfg o s) = [(spec_route cfg o, proto_request o)].
Proof. intros cfg o s NG A D. rewrite <- route_is_spec by exact NG. now apply api_sends_proto. Qed.
Print Assumptions C06_once.

(* discovery always broadcasts *)
Theorem C06_discovery : forall cfg s, snd (api cfg GetDevices s) = [(spec_route cfg GetDevices, proto_request GetDevices)].
Proof. intros cfg s. rewrite discovery_sends_proto. reflexivity. Qed.
Print Assumptions C06_discovery.

Theorem C06_rejected_silent : forall cfg o s, accepted o = false -> snd (api cfg o s) = [].
Proof. intros cfg o s A. exact (proj1 (rejected_sends_nothing cfg o s A)). Qed.
Print Assumptions C06_rejected_silent.

Example C06_ex :
  let cfg := {| cfg_devices := [ {| d_id := 405419896; d_name := []; d_addr := Some ([192;168;1;100], 60000); d_proto := [117;100;112] |};
                                 {| d_id := 405419896; d_name := []; d_addr := Some ([192;168;1;101], 54321); d_proto := [116;99;112] |} ];
                cfg_bcast := None |} in
  spec_route cfg (GetTime 405419896) = ETcp [192;168;1;101] 54321 /\ spec_route cfg (GetTime 1) = EBroadcastTo [255;255;255;255] 60000.
Proof. split; reflexivity. Qed.
