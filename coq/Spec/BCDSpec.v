(* Specification of BCD coding, written from the property text (C12), not from the code. *)
From UV Require Import Base.Bytes.

Definition digit (c : N) : bool := (48 <=? c) && (c <=? 57).
Definition all_digits (s : list N) : bool := forallb digit s.

(* left-pad with one '0' when the length is odd *)
Definition pad (s : list N) : list N := if Nat.odd (length s) then 48 :: s else s.

(* two digits per byte, most significant first *)
Fixpoint pack (s : list N) : list N :=
  match s with
  | a :: b :: r => ((a - 48) * 16 + (b - 48)) :: pack r
  | _ => []
  end.

Definition spec_encode (s : list N) : option (list N) :=
  if all_digits s then Some (pack (pad s)) else None.

Definition nibbles_ok (b : N) : bool := (b / 16 <=? 9) && (b mod 16 <=? 9).

Fixpoint unpack (bs : list N) : list N :=
  match bs with
  | [] => []
  | b :: r => (48 + b / 16) :: (48 + b mod 16) :: unpack r
  end.

Definition spec_decode (bs : list N) : option (list N) :=
  if forallb nibbles_ok bs then Some (unpack bs) else None.
