(* C16: the calendar / clock order the comparisons must agree with - lexicographic order on (y, m, d) and (h, m),
   whole-second timestamps. *)
From UV Require Import Base.Bytes.
Open Scope Z_scope.

Definition lex3_lt (a b : Z * Z * Z) : Prop :=
  let '(y1, m1, d1) := a in let '(y2, m2, d2) := b in
  y1 < y2 \/ (y1 = y2 /\ (m1 < m2 \/ (m1 = m2 /\ d1 < d2))).
Definition lex2_lt (a b : Z * Z) : Prop := fst a < fst b \/ (fst a = fst b /\ snd a < snd b).

Definition lex3_ltb (a b : Z * Z * Z) : bool :=
  let '(y1, m1, d1) := a in let '(y2, m2, d2) := b in
  (y1 <? y2) || ((y1 =? y2) && ((m1 <? m2) || ((m1 =? m2) && (d1 <? d2)))).
Definition lex2_ltb (a b : Z * Z) : bool := (fst a <? fst b) || ((fst a =? fst b) && (snd a <? snd b)).

(* whole-second timestamp of a millisecond instant *)
Definition whole_seconds (ms : Z) : Z := ms / 1000.
