(* Specification oracles for the API engine: what the property texts demand of one observed call
   (configuration, operation, scripted network, returned value, recorded driver calls). *)
From UV Require Import Base.Bytes Model.WireTypes Model.Codec Model.Ops Model.CasesApi Spec.WireSpec Spec.CodecSpec Spec.Protocol.
Open Scope N_scope.

Definition spec_true (c : caseapi) : bool := true.

Definition in_domain_args (o : op) : bool := values_in_domain (proto_layout o) (proto_values o).

(* C01: exactly one 64-byte request, byte for byte the protocol encoding of the call *)
Definition spec_ok01 (c : caseapi) : bool :=
  match c with
  | CApi cfg o s res calls =>
      if valid_args o && in_domain_args o
      then match calls with [(_, m)] => nlist_eqb m (proto_request o) | _ => false end
      else true
  end.

(* C06: the endpoint and transport, from the configuration *)
Definition last_device (ds : list device) (id : N) : option device :=
  fold_left (fun acc d => if d_id d =? id then Some d else acc) ds None.

Definition default_bcast : list N * N := ([255; 255; 255; 255], 60000).

Definition spec_route (cfg : config) (o : op) : endpoint :=
  let b := match cfg_bcast cfg with Some ap => ap | None => default_bcast end in
  match o with
  | GetDevices => EBroadcast (fst b) (snd b)
  | _ =>
      match last_device (cfg_devices cfg) (op_id o) with
      | Some d =>
          match d_addr d with
          | Some (a, p) =>                                           (* a valid address with a non-zero port *)
              if nlist_eqb a [0; 0; 0; 0] then EBroadcastTo (fst b) (snd b)
              else if nlist_eqb (d_proto d) [116; 99; 112] then ETcp a p else EUdp a p
          | None => EBroadcastTo (fst b) (snd b)
          end
      | None => EBroadcastTo (fst b) (snd b)
      end
  end.

Definition spec_ok06 (c : caseapi) : bool :=
  match c with
  | CApi cfg o s res calls =>
      if valid_args o
      then match calls with [(e, _)] => endpoint_eqb e (spec_route cfg o) | _ => false end
      else match calls with [] => true | _ => false end
  end.

(* C07: rejected exactly for the listed reasons; a rejected call sends nothing and fails *)
Definition spec_ok07 (c : caseapi) : bool :=
  match c with
  | CApi cfg o s res calls =>
      if valid_args o
      then match calls with [_] => true | _ => false end
      else match calls, res with [], RErr => true | _, _ => false end
  end.
