(* C03 / C11: which datagram an operation may act on, and what discovery returns - from the property texts. *)
From UV Require Import Base.Bytes Model.WireTypes Model.Codec Model.Ops Model.CasesApi Spec.WireSpec Spec.Protocol Spec.ApiSpec Spec.ReplySpec.
Open Scope N_scope.

Definition from_controller (id : N) (d : list N) : bool := Nat.eqb (length d) 64 && (of_le (sub d 4 4) =? id).

Definition header_fits (o : op) (d : list N) : bool :=
  ((nth 0 d 0 =? 0x17) || ((nth 0 d 0 =? 0x19) && (nth 1 d 0 =? 0x20))) && (nth 1 d 0 =? proto_code o).

Definition is_err (r : result) : bool := match r with RErr => true | _ => false end.

(* the datagram the call must act on: on the broadcast path the first 64-byte datagram carrying S (others are
   ignored), on the directed paths the first datagram whatever it is *)
Definition spec_ok03 (c : caseapi) : bool :=
  match c with
  | CApi cfg o s res calls =>
      match o, s with
      | GetDevices, _ => true
      | SetAddress _ _ _ _, _ => true                       (* decided on the real driver (net engine) *)
      | _, SDatagrams ds =>
          if negb (valid_args o) then true
          else match spec_route cfg o with
               | EBroadcastTo _ _ =>
                   match find (from_controller (op_id o)) ds with
                   | None => is_err res                                        (* nobody answered: timeout *)
                   | Some d => if header_fits o d then admits_result cfg o d res else is_err res
                   end
               | _ =>
                   match ds with
                   | [] => is_err res
                   | d :: _ => if from_controller (op_id o) d && header_fits o d then admits_result cfg o d res else is_err res
                   end
               end
      | _, _ => true
      end
  end.

(* ---------- C11 ---------- *)
Definition device_entry (cfg : config) (d : list N) : list fval :=
  let fs := reads (GetDevice 0) d in
  let name := match fst (rd KSerial 4 d) with
              | VN sn => match last_device (cfg_devices cfg) sn with Some dv => d_name dv | None => [] end
              | _ => [] end in
  let bport := match cfg_bcast cfg with Some (_, p) => p | None => 60000 end in
  VMAC name :: vals fs ++ [VAP (Some (sub d 8 4, bport))].

(* definitely a well-formed get-device reply / definitely malformed / BCD-valid but impossible date (either way) *)
Definition gate11 (d : list N) : bool := Nat.eqb (length d) 64 && header_fits (GetDevice 0) d.
Definition must_list (d : list N) : bool := gate11 d && negb (bad (reads (GetDevice 0) d)).
Definition must_skip (d : list N) : bool :=
  negb (gate11 d) || existsb (fun f => match spec_dec (fst f) (sub d (snd f) (width (fst f))) with DFail => true | _ => false end)
                             (reply_table (GetDevice 0)).

Fixpoint listed (cfg : config) (ds : list (list N)) (out : list (list fval)) : bool :=
  match ds with
  | [] => match out with [] => true | _ => false end
  | d :: ds' =>
      let take := match out with e :: out' => fvals_eqb e (device_entry cfg d) && listed cfg ds' out' | [] => false end in
      if must_list d then take
      else if must_skip d then listed cfg ds' out
      else take || listed cfg ds' out
  end.

Definition spec_ok11 (c : caseapi) : bool :=
  match c with
  | CApi cfg GetDevices (SDatagrams ds) res calls => match res with RList out => listed cfg ds out | _ => false end
  | _ => true
  end.
