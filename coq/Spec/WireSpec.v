(* Protocol specification of the field encodings, written from the UT0311-L0x protocol description and the
   property texts (C01, C02, C18) - arithmetic on nibbles and bytes, no strings, no reference to the code's
   way of computing them (fmt + BCD, encoding/binary, reflection). *)
From UV Require Import Base.Bytes Model.WireTypes.
Open Scope N_scope.

(* two decimal digits in one byte / back *)
Definition bcd2 (n : N) : N := 16 * (n / 10) + n mod 10.
Definition unbcd2 (b : N) : option N :=
  if (b / 16 <=? 9) && (b mod 16 <=? 9) then Some (10 * (b / 16) + b mod 16) else None.

Definition byte_n (n : N) (i : N) : N := (n / 2 ^ (8 * i)) mod 256.
Definition spec_le16 (n : N) : list N := [byte_n n 0; byte_n n 1].
Definition spec_le24 (n : N) : list N := [byte_n n 0; byte_n n 1; byte_n n 2].
Definition spec_le32 (n : N) : list N := [byte_n n 0; byte_n n 1; byte_n n 2; byte_n n 3].
Definition spec_be16 (n : N) : list N := [byte_n n 1; byte_n n 0].

Definition zn (z : Z) : N := Z.to_N z.
Definition zrange (lo hi z : Z) : bool := ((lo <=? z) && (z <=? hi))%Z.

Definition spec_date_bytes (y m d : Z) : list N :=
  [bcd2 (zn y / 100); bcd2 (zn y mod 100); bcd2 (zn m); bcd2 (zn d)].

Definition leap (y : Z) : bool := (((y mod 4 =? 0) && negb (y mod 100 =? 0)) || (y mod 400 =? 0))%Z.
Definition month_days (y m : Z) : Z :=
  if (m =? 2)%Z then (if leap y then 29 else 28)
  else if ((m =? 4) || (m =? 6) || (m =? 9) || (m =? 11))%Z then 30 else 31.
Definition calendar_date (y m d : Z) : bool :=
  zrange 0 9999 y && zrange 1 12 m && zrange 1 (month_days y m) d.
Definition time_of_day (h mi s : Z) : bool := zrange 0 23 h && zrange 0 59 mi && zrange 0 59 s.

Definition is_date_zero (y m d : Z) : bool := ((y =? 1) && (m =? 1) && (d =? 1))%Z.
Definition is_datetime_zero (y m d h mi s : Z) : bool :=
  ((y =? 1) && (m =? 1) && (d =? 1) && (h =? 0) && (mi =? 0) && (s =? 0))%Z.

(* in-domain values per kind (C05/C18 "in-domain value"; C01 "accepted domain") *)
Definition in_domain (k : kind) (v : fval) : bool :=
  match k, v with
  | KU8, VN n => n <? 256
  | KU16, VN n | KVersion, VN n => n <? 65536
  | KU32, VN n | KSerial, VN n => n <? 4294967296
  | KPIN, VN n => n <? 16777216
  | KBool, VB _ => true
  | KIP, VIP ip => (Nat.eqb (length ip) 4 || (Nat.eqb (length ip) 16 && nlist_eqb (firstn 12 ip) v4in6_prefix)) && all_bytes ip
  | KAddrPort, VAP (Some (a, p)) => Nat.eqb (length a) 4 && all_bytes a && (p <? 65536)
  | KMACraw, VMAC m | KMacT, VMAC m => Nat.eqb (length m) 6 && all_bytes m
  | KDate, VDate y m d | KDateP, VDate y m d => calendar_date y m d && (1 <=? y)%Z
  | KDateP, VNil | KDateTimeP, VNil | KHHmmP, VNil => true
  | KDateTime, VDateTime y m d h mi s | KDateTimeP, VDateTime y m d h mi s =>
      calendar_date y m d && (1 <=? y)%Z && time_of_day h mi s
  | KSysDate, VSysDate y m d => calendar_date y m d && zrange 1969 2068 y
  | KSysTime, VSysTime h mi s => time_of_day h mi s
  | KHHmm, VHHmm h m | KHHmmP, VHHmm h m => (zrange 0 23 h && zrange 0 59 m) || ((h =? 24) && (m =? 0))%Z
  | _, _ => false
  end.

(* the bytes an in-domain value occupies on the wire; None = the field's bytes stay zero *)
Definition spec_bytes (k : kind) (v : fval) : option (list N) :=
  match k, v with
  | KU8, VN n => Some [n]
  | KU16, VN n => Some (spec_le16 n)
  | KU32, VN n | KSerial, VN n => Some (spec_le32 n)
  | KPIN, VN n => Some (spec_le24 n)
  | KVersion, VN n => Some (spec_be16 n)
  | KBool, VB b => Some [if b then 1 else 0]
  | KIP, VIP ip => Some (if Nat.eqb (length ip) 4 then ip else skipn 12 ip)
  | KAddrPort, VAP (Some (a, p)) => Some (a ++ spec_le16 p)
  | KMACraw, VMAC m | KMacT, VMAC m => Some m
  | KDate, VDate y m d | KDateP, VDate y m d =>
      Some (if is_date_zero y m d then [0;0;0;0] else spec_date_bytes y m d)
  | KDateTime, VDateTime y m d h mi s | KDateTimeP, VDateTime y m d h mi s =>
      Some (if is_datetime_zero y m d h mi s then [0;0;0;0;0;0;0]
            else spec_date_bytes y m d ++ [bcd2 (zn h); bcd2 (zn mi); bcd2 (zn s)])
  | KSysDate, VSysDate y m d => Some [bcd2 (zn y mod 100); bcd2 (zn m); bcd2 (zn d)]
  | KSysTime, VSysTime h mi s => Some [bcd2 (zn h); bcd2 (zn mi); bcd2 (zn s)]
  | KHHmm, VHHmm h m | KHHmmP, VHHmm h m => Some [bcd2 (zn h); bcd2 (zn m)]
  | _, _ => None
  end.

(* what decoding the encoding must give back: the value itself, up to the documented identifications *)
Definition canon (k : kind) (v : fval) : fval :=
  match k, v with
  | KIP, VIP ip => VIP (if Nat.eqb (length ip) 4 then ip else skipn 12 ip)   (* 16-byte IPv4 = its 4-byte form *)
  | KHHmmP, VNil => VHHmm 0 0                     (* a nil *HHmm reads as 00:00 *)
  | KDateP, VDate y m d => if is_date_zero y m d then VNil else v   (* zero date through a pointer = "no date" *)
  | KDateTimeP, VDateTime y m d h mi s => if is_datetime_zero y m d h mi s then VNil else v
  | _, _ => v
  end.

(* ---- protocol decoding of `width k` bytes ---- *)
Inductive dres := DVal (v : fval) | DFail | DNone.    (* value / the message is rejected / "no value" *)

Definition un2 (a : N) := unbcd2 a.
Definition date_of_bytes (b : list N) : option (option (Z * Z * Z)) :=   (* None: non-BCD; Some None: not a date *)
  match b with
  | [c; y; m; d] =>
      match un2 c, un2 y, un2 m, un2 d with
      | Some c', Some y', Some m', Some d' =>
          let yy := Z.of_N (100 * c' + y') in
          if calendar_date yy (Z.of_N m') (Z.of_N d') then Some (Some (yy, Z.of_N m', Z.of_N d')) else Some None
      | _, _, _, _ => None
      end
  | _ => None
  end.

Definition spec_dec (k : kind) (b : list N) : dres :=
  match k with
  | KU8 => match b with [x] => DVal (VN x) | _ => DFail end
  | KU16 => match b with [a; c] => DVal (VN (a + 256 * c)) | _ => DFail end
  | KVersion => match b with [a; c] => DVal (VN (256 * a + c)) | _ => DFail end
  | KPIN => match b with [a; c; d] => DVal (VN (a + 256 * c + 65536 * d)) | _ => DFail end
  | KU32 | KSerial => match b with [a; c; d; e] => DVal (VN (a + 256 * c + 65536 * d + 16777216 * e)) | _ => DFail end
  | KBool => match b with [x] => if x =? 0 then DVal (VB false) else if x =? 1 then DVal (VB true) else DFail | _ => DFail end
  | KIP => DVal (VIP b)
  | KAddrPort => match b with [a1; a2; a3; a4; p1; p2] => DVal (VAP (Some ([a1; a2; a3; a4], p1 + 256 * p2))) | _ => DFail end
  | KMACraw | KMacT => DVal (VMAC b)
  | KDate | KDateP =>
      match date_of_bytes b with
      | None => DFail
      | Some None => DNone
      | Some (Some (y, m, d)) => if is_date_zero y m d then DNone else DVal (VDate y m d)
      end
  | KDateTime | KDateTimeP =>
      if nlist_eqb b [0;0;0;0;0;0;0] || nlist_eqb b [32;0;0;0;0;0;0] then DNone
      else match date_of_bytes (firstn 4 b), skipn 4 b with
           | None, _ => DFail
           | Some dt, [h; mi; s] =>
               match un2 h, un2 mi, un2 s with
               | Some h', Some mi', Some s' =>
                   match dt with
                   | Some (y, m, d) => if time_of_day (Z.of_N h') (Z.of_N mi') (Z.of_N s')
                                       then DVal (VDateTime y m d (Z.of_N h') (Z.of_N mi') (Z.of_N s')) else DNone
                   | None => DNone
                   end
               | _, _, _ => DFail
               end
           | _, _ => DFail
           end
  | KSysDate =>
      match b with
      | [y; m; d] =>
          if nlist_eqb b [0;0;0] then DNone
          else match un2 y, un2 m, un2 d with
               | Some y', Some m', Some d' =>
                   let yy := Z.of_N (if 69 <=? y' then 1900 + y' else 2000 + y') in
                   if calendar_date yy (Z.of_N m') (Z.of_N d') then DVal (VSysDate yy (Z.of_N m') (Z.of_N d')) else DFail
               | _, _, _ => DFail
               end
      | _ => DFail
      end
  | KSysTime =>
      match b with
      | [h; mi; s] =>
          match un2 h, un2 mi, un2 s with
          | Some h', Some mi', Some s' =>
              if time_of_day (Z.of_N h') (Z.of_N mi') (Z.of_N s') then DVal (VSysTime (Z.of_N h') (Z.of_N mi') (Z.of_N s')) else DFail
          | _, _, _ => DFail
          end
      | _ => DFail
      end
  | KHHmm | KHHmmP =>
      match b with
      | [h; m] =>
          match un2 h, un2 m with
          | Some h', Some m' =>
              if ((h' <=? 23) && (m' <=? 59)) || ((h' =? 24) && (m' =? 0)) then DVal (VHHmm (Z.of_N h') (Z.of_N m')) else DFail
          | _, _ => DFail
          end
      | _ => DFail
      end
  end.

(* how "rejected" and "no value" may surface for a field of kind k (C02: "the call fails or the field comes back
   as its zero 'no value'"): never as another in-domain value *)
Definition is_ptr (k : kind) : bool := match k with KDateP | KDateTimeP | KHHmmP => true | _ => false end.

Definition no_value (k : kind) (v : fval) : bool :=
  fval_eqb v (zero_of k) ||
  match k with
  | KDateP => fval_eqb v date_zero
  | KDateTimeP => fval_eqb v datetime_zero
  | _ => false
  end.

(* does the observed per-field result agree with the protocol decoding?  (obs = None: the call failed) *)
Definition field_admits (k : kind) (r : dres) (obs : option fval) : bool :=
  match r, obs with
  | DVal v, Some v' => fval_eqb v v'
  | DVal _, None => false
  | _, None => true
  | _, Some v' => no_value k v'
  end.
