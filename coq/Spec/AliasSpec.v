(* C17 oracle: a call made at any point of a history goes where the configuration the client was BUILT with says, and its
   result is the protocol decoding of the reply (C06's and C02's oracles, evaluated against the construction-time config). *)
From UV Require Import Base.Bytes Model.WireTypes Model.Codec Model.Ops Model.CasesApi Spec.ApiSpec Spec.ReplySpec.
Definition spec_ok17 (c : caseapi) : bool :=
  spec_ok06 c && spec_ok02 c && match c with CApi _ _ _ RPanic _ => false | _ => true end.
