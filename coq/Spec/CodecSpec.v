(* Specification oracle for the codec (C18, C05): what Marshal / Unmarshal must do on a well-formed layout,
   stated pointwise on the 64 bytes and per field, from Spec/WireSpec.v - not from the model's fold of writes. *)
From Coq Require Import String.
From UV Require Import Base.Bytes Model.WireTypes Model.Codec Model.Interp Model.Cases18 Spec.WireSpec.
Open Scope N_scope.

(* the bytes a field contributes to the message: fixed tags win over the field's value; None = nothing *)
Definition fbytes (f : field) (v : fval) : option (list N) :=
  match f with
  | FSOM (Some (Some t)) => Some [t]
  | FMsgType (Some (Some t)) => Some [t]
  | FData KU8 _ (Some (Some t)) => Some [t]
  | FData k _ _ => spec_bytes k v
  | _ => None
  end.

(* byte i of the image: the byte of the field whose span covers i ... *)
Fixpoint image_at (L : layout) (vs : list fval) (i : nat) : option N :=
  match L, vs with
  | f :: L', v :: vs' =>
      match fspan f, fbytes f v with
      | Some (off, w), Some bs => if Nat.leb off i && Nat.ltb i (off + w) then Some (nth (i - off) bs 0) else image_at L' vs' i
      | _, _ => image_at L' vs' i
      end
  | _, _ => None
  end.

(* ... else the default start-of-message 0x17 in byte 0 and zero everywhere else *)
Definition image_byte (L : layout) (vs : list fval) (i : nat) : N :=
  match image_at L vs i with Some x => x | None => match i with O => 0x17 | _ => 0 end end.

Definition spec_image (L : layout) (vs : list fval) : list N := map (image_byte L vs) (seq 0 64).

(* the function code in byte 1 is the one the layout fixes *)
Definition msgtypes_match (L : layout) (buf : list N) : bool :=
  forallb (fun f => match f with FMsgType (Some (Some t)) => nth 1 buf 0 =? t | _ => true end) L.

Fixpoint values_in_domain (L : layout) (vs : list fval) : bool :=
  match L, vs with
  | [], [] => true
  | FData k _ _ :: L', v :: vs' => in_domain k v && values_in_domain L' vs'
  | _ :: L', _ :: vs' => values_in_domain L' vs'
  | _, _ => false
  end.

(* per-field decoding results of a 64-byte buffer *)
Definition field_result (f : field) (buf : list N) : option (kind * dres) :=
  match f with
  | FData k off vtag =>
      let b := sub buf off (width k) in
      match vtag, k, b with
      | Some (Some t), KU8, [x] => Some (k, if x =? t then DVal (VN x) else DFail)
      | _, _, _ => Some (k, spec_dec k b)
      end
  | _ => None
  end.

Definition header_ok (L : layout) (buf : list N) : bool :=
  Nat.eqb (length buf) 64 && som_ok buf && msgtypes_match L buf.

Fixpoint fields_admit (L : layout) (buf : list N) (vs : list fval) : bool :=
  match L, vs with
  | [], [] => true
  | f :: L', v :: vs' =>
      match f, field_result f buf with
      | _, Some (k, r) => field_admits k r (Some v)
      | FMsgType _, None => fval_eqb v (VN (nth 1 buf 0))
      | _, None => true
      end && fields_admit L' buf vs'
  | _, _ => false
  end.

Definition all_fields_decode (L : layout) (buf : list N) : bool :=
  forallb (fun f => match field_result f buf with Some (_, DVal _) => true | Some _ => false | None => true end) L.

Definition spec_unmarshal_admits (L : layout) (buf : list N) (obs : outcome (list fval)) : bool :=
  match obs with
  | Panic => false
  | Err => negb (header_ok L buf) || negb (all_fields_decode L buf)
  | Ok vs => header_ok L buf && fields_admit L buf vs
  end.

Definition spec_marshal_admits (L : layout) (vs : list fval) (obs : outcome (list N)) : bool :=
  if values_in_domain L vs
  then match obs with Ok m => nlist_eqb m (spec_image L vs) | _ => false end
  else true.

Definition spec_ok18 (c : case18) : bool :=
  let go_m L vs obs := if wf_layout L then spec_marshal_admits L vs obs else true in
  let go_u L buf obs := if wf_layout L then spec_unmarshal_admits L buf obs else true in
  match c with
  | CMarshal ss fs vs obs => go_m (interp_struct ss fs) vs obs
  | CUnmarshal ss fs buf obs => go_u (interp_struct ss fs) buf obs
  | CMsgMarshal n vs obs => go_m (msg_layout n) vs obs
  | CMsgUnmarshal n buf obs => go_u (msg_layout n) buf obs
  end.
