(* The UT0311-L0x request protocol, flat, per operation: function code and (offset, encoding, value) of every argument.
   Written from the protocol description (DESIGN.md Appendix B) and the text of C01/C07 - not from the message structs
   or the operation files.  [proto_request o] is the 64-byte message: protocol id 0x17, function code, serial number
   little-endian at 4, the arguments at their offsets, zero elsewhere. *)
From UV Require Import Base.Bytes Model.WireTypes Model.Codec Model.Ops Spec.WireSpec Spec.CodecSpec.
Open Scope N_scope.

Definition proto_code (o : op) : N :=
  match o with
  | GetDevices | GetDevice _ => 0x94
  | SetAddress _ _ _ _ => 0x96
  | GetListener _ => 0x92
  | SetListener _ _ _ => 0x90
  | GetTime _ => 0x32
  | SetTime _ _ _ _ _ _ _ => 0x30
  | GetDoorControlState _ _ => 0x82
  | SetDoorControlState _ _ _ _ => 0x80
  | GetStatus _ => 0x20
  | GetCards _ => 0x58
  | GetCardByID _ _ => 0x5a
  | GetCardByIndex _ _ => 0x5c
  | PutCard _ _ _ => 0x50
  | DeleteCard _ _ => 0x52
  | DeleteCards _ => 0x54
  | GetTimeProfile _ _ => 0x98
  | SetTimeProfile _ _ => 0x88
  | ClearTimeProfiles _ => 0x8a
  | ClearTaskList _ => 0xa6
  | AddTask _ _ => 0xa8
  | RefreshTaskList _ => 0xac
  | RecordSpecialEvents _ _ => 0x8e
  | GetEvent _ _ => 0xb0
  | GetEventIndex _ => 0xb4
  | SetEventIndex _ _ => 0xb2
  | SetDoorPasscodes _ _ _ => 0x8c
  | OpenDoor _ _ => 0x40
  | SetPCControl _ _ => 0xa0
  | SetInterlock _ _ => 0xa2
  | ActivateKeypads _ _ => 0xa4
  | RestoreDefaultParameters _ => 0xc8
  end.

Definition fld (off : nat) (k : kind) (v : fval) : nat * kind * fval := (off, k, v).
Definition u8f (off : nat) (n : N) := (off, KU8, VN n).
Definition u32f (off : nat) (n : N) := (off, KU32, VN n).
Definition boolf (off : nat) (b : bool) := (off, KBool, VB b).
Definition datef (off : nat) (d : Z * Z * Z) := (off, KDate, vdate d).
Definition hhmmf (off : nat) (t : Z * Z) := (off, KHHmm, vhhmm t).
Definition magicf (off : nat) := (off, KU32, VN 0x55aaaa55).

Definition weekdays_at (off : nat) (w : gomap bool) : list (nat * kind * fval) :=
  [boolf off (mget w 1 false); boolf (off + 1) (mget w 2 false); boolf (off + 2) (mget w 3 false);
   boolf (off + 3) (mget w 4 false); boolf (off + 4) (mget w 5 false); boolf (off + 5) (mget w 6 false);
   boolf (off + 6) (mget w 0 false)].                                   (* Monday .. Sunday *)

Definition clamp_code (codes : list N) (i : nat) : N :=
  match nth_error codes i with Some c => if c <=? 999999 then c else 0 | None => 0 end.

(* the arguments after the serial number *)
Definition proto_args (o : op) : list (nat * kind * fval) :=
  match o with
  | GetDevices | GetDevice _ | GetListener _ | GetTime _ | GetStatus _ | GetCards _ | GetEventIndex _ => []
  | SetAddress _ a m g => [fld 8 KIP (VIP a); fld 12 KIP (VIP m); fld 16 KIP (VIP g); magicf 20]
  | SetListener _ ap itv => [fld 8 KAddrPort (VAP ap); u8f 14 itv]
  | SetTime _ y m d h mi s => [fld 8 KDateTime (VDateTime y m d h mi s)]
  | GetDoorControlState _ door => [u8f 8 door]
  | SetDoorControlState _ door st delay => [u8f 8 door; u8f 9 (Z.to_N (st mod 256)); u8f 10 delay]
  | GetCardByID _ c | DeleteCard _ c => [u32f 8 c]
  | GetCardByIndex _ i | GetEvent _ i => [u32f 8 i]
  | PutCard _ c _ =>
      [u32f 8 (c_number c); datef 12 (c_from c); datef 16 (c_to c);
       u8f 20 (mget (c_doors c) 1 0); u8f 21 (mget (c_doors c) 2 0); u8f 22 (mget (c_doors c) 3 0); u8f 23 (mget (c_doors c) 4 0);
       fld 24 KPIN (VN (c_pin c))]
  | DeleteCards _ | ClearTimeProfiles _ | ClearTaskList _ | RefreshTaskList _ | RestoreDefaultParameters _ => [magicf 8]
  | GetTimeProfile _ p => [u8f 8 p]
  | SetTimeProfile _ p =>
      [u8f 8 (p_id p); datef 9 (p_from p); datef 13 (p_to p)] ++ weekdays_at 17 (p_weekdays p) ++
      [hhmmf 24 (s_start (seg p 1)); hhmmf 26 (s_end (seg p 1)); hhmmf 28 (s_start (seg p 2)); hhmmf 30 (s_end (seg p 2));
       hhmmf 32 (s_start (seg p 3)); hhmmf 34 (s_end (seg p 3)); u8f 36 (p_linked p)]
  | AddTask _ t =>
      [datef 8 (t_from t); datef 12 (t_to t)] ++ weekdays_at 16 (t_weekdays t) ++
      [hhmmf 23 (t_start t); u8f 25 (t_door t); u8f 26 (Z.to_N (t_task t mod 256)); u8f 27 (t_cards t)]
  | RecordSpecialEvents _ b => [boolf 8 b]
  | SetEventIndex _ i => [u32f 8 i; magicf 12]
  | SetDoorPasscodes _ door codes =>
      [u8f 8 door; u32f 12 (clamp_code codes 0); u32f 16 (clamp_code codes 1); u32f 20 (clamp_code codes 2); u32f 24 (clamp_code codes 3)]
  | OpenDoor _ door => [u8f 8 door]
  | SetPCControl _ b => [magicf 8; boolf 12 b]
  | SetInterlock _ m => [u8f 8 m]
  | ActivateKeypads _ r => [boolf 8 (mget r 1 false); boolf 9 (mget r 2 false); boolf 10 (mget r 3 false); boolf 11 (mget r 4 false)]
  end.

Definition proto_fields (o : op) : list (nat * kind * fval) := fld 4 KSerial (VN (op_id o)) :: proto_args o.

(* as a layout + values, so that the pointwise image of Spec/CodecSpec.v applies *)
Definition proto_layout (o : op) : layout :=
  FMsgType (Some (Some (proto_code o))) :: map (fun f => let '(off, k, _) := f in FData k off None) (proto_fields o).
Definition proto_values (o : op) : list fval := VN 0 :: map (fun f => let '(_, _, v) := f in v) (proto_fields o).

Definition proto_request (o : op) : list N := spec_image (proto_layout o) (proto_values o).

(* ---------- C07: the accepted domain, from the property text ---------- *)
Definition w26 (n : N) : bool := (n / 100000 <=? 255) && (n mod 100000 <=? 65535).

Definition format_matches (n : N) (f : N) : bool := if f =? 1 then w26 n else f =? 0.     (* 1 = Wiegand-26, 0 = any *)

Definition hm_before (a b : Z * Z) : bool := ((fst a <? fst b) || ((fst a =? fst b) && (snd a <? snd b)))%Z.

Definition valid_args (o : op) : bool :=
  match o with
  | GetDevices => true
  | _ =>
      negb (op_id o =? 0) &&
      match o with
      | PutCard _ c formats =>
          negb (c_number c =? 0) && negb (c_number c =? 0xffffffff) && negb (c_number c =? 0x00ffffff)
          && (c_pin c <=? 999999)
          && match formats with [] => true | _ => existsb (format_matches (c_number c)) formats end
      | SetListener _ ap _ =>
          match ap with
          | Some (a, p) => (nlist_eqb a [0;0;0;0] && (p =? 0)) || (Nat.eqb (length a) 4 && negb (p =? 0))
          | None => false
          end
      | SetAddress _ a m g =>
          let ip4 x := Nat.eqb (length x) 4 || (Nat.eqb (length x) 16 && nlist_eqb (firstn 12 x) [0;0;0;0;0;0;0;0;0;0;255;255]) in
          ip4 a && ip4 m && ip4 g
      | SetDoorPasscodes _ door _ => (1 <=? door) && (door <=? 4)
      | SetTimeProfile _ p =>
          negb (date_is_zero (p_from p)) && negb (date_is_zero (p_to p)) &&
          forallb (fun k => mhas (p_segments p) k && negb (hm_before (s_end (seg p k)) (s_start (seg p k)))) [1; 2; 3]
      | _ => true
      end
  end.
