(* C02: the protocol decoding of a reply, flat, per operation: which reply bytes feed which result field, the
   documented sentinels, and what may happen to a field outside its domain.  Written from the protocol description
   (DESIGN.md Appendix B) and the property text; reads bytes by offset - no message structs, no field names. *)
From UV Require Import Base.Bytes Model.WireTypes Model.Codec Model.Ops Model.CasesApi Spec.WireSpec Spec.Protocol Spec.ApiSpec.
Open Scope N_scope.

(* the 'no value' a result field takes *)
Definition zero_val (k : kind) : fval :=
  match k with
  | KHHmmP | KHHmm => VHHmm 0 0
  | KDateP | KDate => date_zero
  | KDateTimeP | KDateTime => datetime_zero
  | _ => zero_of k
  end.

(* byte patterns the protocol documents as "no value" (never an error) *)
Definition documented_sentinel (k : kind) (b : list N) : bool :=
  match k with
  | KDate | KDateP => nlist_eqb b [0;0;0;0] || nlist_eqb b [0;1;1;1]
  | KDateTime | KDateTimeP => nlist_eqb b [0;0;0;0;0;0;0] || nlist_eqb b [32;0;0;0;0;0;0]
  | KSysDate => nlist_eqb b [0;0;0]
  | _ => false
  end.

(* read one field: (value or its zero, is the field outside its domain?) *)
Definition rd (k : kind) (off : nat) (r : list N) : fval * bool :=
  let b := sub r off (width k) in
  match spec_dec k b with
  | DVal v => (v, false)
  | DNone => (zero_val k, negb (documented_sentinel k b))
  | DFail => (zero_val k, true)
  end.

Definition vals (l : list (fval * bool)) : list fval := map fst l.
Definition bad (l : list (fval * bool)) : bool := existsb snd l.

(* the reply of each operation after the 4-byte header: (encoding, offset) of every field, in message order *)
Definition reply_table (o : op) : list (kind * nat) :=
  let ser := (KSerial, 4%nat) in
  let ok8 := [ser; (KBool, 8%nat)] in
  match o with
  | GetDevices | GetDevice _ => [ser; (KIP, 8); (KIP, 12); (KIP, 16); (KMacT, 20); (KVersion, 26); (KDate, 28)]
  | SetAddress _ _ _ _ => []
  | GetListener _ => [ser; (KAddrPort, 8); (KU8, 14)]
  | GetTime _ | SetTime _ _ _ _ _ _ _ => [ser; (KDateTime, 8)]
  | GetDoorControlState _ _ | SetDoorControlState _ _ _ _ => [ser; (KU8, 8); (KU8, 9); (KU8, 10)]
  | GetStatus _ =>
      [ser; (KU32, 8); (KU8, 12); (KBool, 13); (KU8, 14); (KU8, 15); (KU32, 16); (KDateTime, 20); (KU8, 27);
       (KBool, 28); (KBool, 29); (KBool, 30); (KBool, 31); (KBool, 32); (KBool, 33); (KBool, 34); (KBool, 35);
       (KU8, 36); (KSysDate, 51); (KSysTime, 37); (KU32, 40); (KU8, 48); (KU8, 49); (KU8, 50)]
  | GetCards _ => [ser; (KU32, 8)]
  | GetCardByID _ _ | GetCardByIndex _ _ =>
      [ser; (KU32, 8); (KDate, 12); (KDate, 16); (KU8, 20); (KU8, 21); (KU8, 22); (KU8, 23); (KPIN, 24)]
  | GetTimeProfile _ _ =>
      [ser; (KU8, 8); (KDate, 9); (KDate, 13); (KBool, 17); (KBool, 18); (KBool, 19); (KBool, 20); (KBool, 21); (KBool, 22);
       (KBool, 23); (KHHmmP, 24); (KHHmmP, 26); (KHHmmP, 28); (KHHmmP, 30); (KHHmmP, 32); (KHHmmP, 34); (KU8, 36)]
  | GetEvent _ _ => [ser; (KU32, 8); (KU8, 12); (KBool, 13); (KU8, 14); (KU8, 15); (KU32, 16); (KDateTime, 20); (KU8, 27)]
  | GetEventIndex _ => [ser; (KU32, 8)]
  | _ => ok8
  end%nat.

Definition reads (o : op) (r : list N) : list (fval * bool) := map (fun f => rd (fst f) (snd f) r) (reply_table o).

(* controller system date + time of day, combined; the zero date means "no date-time" *)
Definition sys_datetime (d t : fval) : fval :=
  match d, t with
  | VSysDate y m dd, VSysTime h mi s => if is_date_zero y m dd then datetime_zero else VDateTime y m dd h mi s
  | _, _ => datetime_zero
  end.

Definition nz (v : fval) : bool := match v with VN 0 => false | _ => true end.

Inductive verdict := Value (vs : list fval) | NoValue | Fails.

(* the returned value as a function of the reply's field values [ws] (in [reply_table] order, out-of-domain fields
   replaced by their zero): sentinels, echoes, the status event, address completion *)
Definition spec_map (cfg : config) (o : op) (r : list N) (ws : list fval) : verdict :=
  let w (i : N) := nth (N.to_nat i) ws VNil in
  match o with
  | GetDevices => Fails
  | GetDevice id =>
      let name := match Spec.ApiSpec.last_device (cfg_devices cfg) id with Some d => d_name d | None => [] end in
      let bport := match cfg_bcast cfg with Some (_, p) => p | None => 60000 end in
      let port := match Spec.ApiSpec.last_device (cfg_devices cfg) id with
                  | Some d => match d_addr d with Some (_, p) => p | None => bport end
                  | None => bport end in
      Value (VMAC name :: ws ++ [VAP (Some (sub r 8 4, port))])
  | SetAddress id _ _ _ => Value [VN id; VB true]
  | GetListener _ => Value [w 1; w 2]
  | GetStatus _ =>
      Value ([w 0; w 9; w 10; w 11; w 12; w 13; w 14; w 15; w 16; w 17; sys_datetime (w 18) (w 19); w 20; w 21; w 22; w 23]
             ++ (if nz (w 1) then [w 1; w 2; w 3; w 4; w 5; w 6; w 7; w 8]
                 else [VN 0; VN 0; VB false; VN 0; VN 0; VN 0; datetime_zero; VN 0]))
  | GetCards _ => Value [w 1]
  | GetCardByID _ cardno =>
      match w 1 with
      | VN n => if n =? 0 then NoValue else if n =? cardno then Value (skipn 1 ws) else Fails
      | _ => Fails end
  | GetCardByIndex _ _ =>
      match w 1 with
      | VN n => if (n =? 0) || (n =? 0xffffffff) then NoValue else Value (skipn 1 ws)
      | _ => Fails end
  | GetTimeProfile _ pid =>
      match w 1 with
      | VN n => if n =? 0 then NoValue else if n =? pid
                then Value ([w 1; w 17; w 2; w 3] ++ firstn 7 (skipn 4 ws) ++ firstn 6 (skipn 11 ws)) else Fails
      | _ => Fails end
  | GetEvent _ _ =>
      match w 2, w 1 with
      | VN t, VN i => if t =? 0xff then Fails else if i =? 0 then NoValue else Value ws
      | _, _ => Fails end
  | SetEventIndex _ idx => Value [w 0; VN idx; w 1]
  | PutCard _ _ _ | DeleteCard _ _ | DeleteCards _ | SetTimeProfile _ _ | ClearTimeProfiles _ | ClearTaskList _
  | AddTask _ _ | RefreshTaskList _ | RecordSpecialEvents _ _ | SetDoorPasscodes _ _ _ | SetPCControl _ _
  | SetInterlock _ _ | ActivateKeypads _ _ | RestoreDefaultParameters _ | SetListener _ _ _ => Value [w 1]
  | GetTime _ | SetTime _ _ _ _ _ _ _ | GetDoorControlState _ _ | SetDoorControlState _ _ _ _ | GetEventIndex _ | OpenDoor _ _ => Value ws
  end.

(* (verdict when every out-of-domain field is replaced by its zero, some field is outside its domain) *)
Definition reply_spec (cfg : config) (o : op) (r : list N) : verdict * bool :=
  (spec_map cfg o r (vals (reads o r)), bad (reads o r)).

(* is the datagram a reply to this operation from the addressed controller, as far as its 8-byte header goes? *)
Definition reply_header_ok (o : op) (r : list N) : bool :=
  Nat.eqb (length r) 64 &&
  ((nth 0 r 0 =? 0x17) || ((nth 0 r 0 =? 0x19) && (nth 1 r 0 =? 0x20))) &&
  (nth 1 r 0 =? Spec.Protocol.proto_code o) && (of_le (sub r 4 4) =? op_id o).

(* pointer HHmm fields of the time profile: an out-of-domain HH:mm may come back as 00:00, so "bad" from them alone does
   not have to fail the call; every other out-of-domain field may fail the call or come back as its zero *)
Definition admits_result (cfg : config) (o : op) (r : list N) (res : result) : bool :=
  let '(v, out_of_domain) := reply_spec cfg o r in
  match res with
  | RPanic => false
  | RErr => out_of_domain || match v with Fails => true | _ => false end
  | RNone => match v with NoValue => true | _ => false end
  | RVals vs => match v with Value ws => fvals_eqb vs ws | _ => false end
  | RList _ => false
  end.

(* the oracle of C02: applies to calls that were accepted and answered by exactly one datagram with a correct header *)
Definition reply_of (s : script) : option (list N) :=
  match s with
  | SReturn d => Some d
  | SDatagrams [d] => Some d
  | _ => None
  end.

Definition spec_ok02 (c : caseapi) : bool :=
  match c with
  | CApi cfg o s res calls =>
      match reply_of s with
      | Some r => if Spec.Protocol.valid_args o && reply_header_ok o r && negb (match o with GetDevices => true | _ => false end)
                  then admits_result cfg o r res else true
      | None => true
      end
  end.
