(* C13: time.Date keeps an existing civil time, in EVERY zone whose offset changes are at least B apart from any
   instant's +-B neighbourhood (|offset| <= B): an abstract offset function, not a list of zones. *)
From UV Require Import Base.Bytes Model.GoTime Proofs.CivilProofs.
From Coq Require Import ZifyBool.
Open Scope Z_scope.

Section ZoneProofs.
  Variable off : Z -> Z.
  Variable B : Z.

  (* around every instant, within +-B, the offset takes at most two values a (before T) and b (from T on), both
     bounded by B.  Zones whose constant-offset intervals are longer than 2B satisfy this. *)
  Definition window (u : Z) : Prop :=
    exists T a b, (forall x, u - B <= x <= u + B -> off x = if x <? T then a else b) /\ - B <= a <= B /\ - B <= b <= B.
  Hypothesis wf_zone : forall u, window u.

  Lemma off_bound t : - B <= off t <= B.
  Proof.
    destruct (wf_zone t) as (T & a & b & H & Ha & Hb). rewrite (H t) by lia. destruct (t <? T); lia.
  Qed.

  (* time.Date of an existing wall-clock reading is an instant with exactly that reading *)
  Theorem go_date_existing : forall u0 t, local off t = u0 -> local off (go_date off u0) = u0.
  Proof.
    intros u0 t Ht. unfold local, go_date in *.
    destruct (wf_zone u0) as (T & a & b & H & Ha & Hb).
    pose proof (off_bound t) as Bt. pose proof (off_bound u0) as Bu.
    pose proof (off_bound (u0 - off u0)) as B1.
    pose proof (off_bound (u0 - off (u0 - off u0))) as B2.
    pose proof (H t ltac:(lia)) as Et. pose proof (H u0 ltac:(lia)) as Eu.
    pose proof (H (u0 - off u0) ltac:(lia)) as E1.
    pose proof (H (u0 - off (u0 - off u0)) ltac:(lia)) as E2.
    destruct (t <? T) eqn:Ct; destruct (u0 <? T) eqn:Cu; destruct (u0 - off u0 <? T) eqn:C1;
      destruct (u0 - off (u0 - off u0) <? T) eqn:C2; lia.
  Qed.

  Definition exists_in_zone (c : civil) : Prop := exists t, local off t = unix_of_civil c.

  (* C13: a date-time built from civil fields that exist in the zone reports exactly those fields *)
  Theorem time_date_existing : forall c, valid_civil c = true -> exists_in_zone c -> civil_in off (time_date off c) = c.
  Proof.
    intros c V [t Ht]. unfold civil_in, time_date. rewrite (go_date_existing _ t Ht). now apply civil_unix_roundtrip.
  Qed.

  (* the status system date + time recombination is the same constructor *)
  Corollary sys_datetime_existing : forall y m d h mi s, valid_civil (y, m, d, h, mi, s) = true ->
    exists_in_zone (y, m, d, h, mi, s) -> sys_datetime off y m d h mi s = (y, m, d, h, mi, s).
  Proof. intros. now apply time_date_existing. Qed.

  (* the date constructor: whenever it settles on an hour, the result lies on the requested day *)
  Lemma first_hour_date y m d hours t : first_hour off y m d hours = Some t -> date_in off t = (y, m, d).
  Proof.
    induction hours as [|h r IH]; [discriminate|]. cbn [first_hour].
    destruct (date_in off (time_date off (y, m, d, h, 0, 0))) as [[y' m'] d'] eqn:E.
    destruct ((y' =? y) && (m' =? m) && (d' =? d)) eqn:C; [|exact IH].
    intros [= <-]. rewrite E. f_equal; [f_equal|]; lia.
  Qed.

  Lemma first_hour_found y m d hours h : In h hours -> 0 <= h < 24 -> valid_md y m d = true ->
    exists_in_zone (y, m, d, h, 0, 0) -> exists t, first_hour off y m d hours = Some t.
  Proof.
    intros HIn Hh V Ex. induction hours as [|h0 r IH]; [contradiction|]. cbn [first_hour].
    destruct (date_in off (time_date off (y, m, d, h0, 0, 0))) as [[y' m'] d'] eqn:E.
    destruct ((y' =? y) && (m' =? m) && (d' =? d)) eqn:C; [eauto|].
    destruct HIn as [->|HIn]; [|now apply IH].
    exfalso. unfold date_in in E. rewrite time_date_existing in E; [| |exact Ex].
    - injection E as <- <- <-. rewrite !Z.eqb_refl in C. discriminate C.
    - cbn [valid_civil]. rewrite V. unfold valid_tod. lia.
  Qed.

  (* C13: a date constructed from a valid year/month/day reports exactly that day unless the zone skipped every whole
     hour of it *)
  Theorem local_date_correct : forall y m d h, valid_md y m d = true -> 0 <= h < 24 ->
    exists_in_zone (y, m, d, h, 0, 0) -> date_in off (local_date off y m d) = (y, m, d).
  Proof.
    intros y m d h V Hh Ex. unfold local_date.
    assert (In h hours24) as HIn.
    { change hours24 with (map Z.of_nat (seq 0 24)). apply in_map_iff. exists (Z.to_nat h). split; [lia|]. apply in_seq. lia. }
    destruct (first_hour_found y m d hours24 h HIn Hh V Ex) as [t Ft]. rewrite Ft. now apply (first_hour_date y m d hours24).
  Qed.
End ZoneProofs.

(* ---------- the code before the repair (local midnight only) does NOT have the property ---------- *)
(* a zone at UTC-4 that moves to UTC-3 at local midnight 2022-09-11 (America/Santiago's rule) *)
Definition santiago_like (t : Z) : Z := if t <? 1662868800 then -14400 else -10800.

Theorem local_date_midnight_refuted :
  valid_md 2022 9 11 = true /\
  (exists t, local santiago_like t = unix_of_civil (2022, 9, 11, 1, 0, 0)) /\
  date_in santiago_like (local_date_midnight santiago_like 2022 9 11) = (2022, 9, 10) /\
  date_in santiago_like (local_date santiago_like 2022 9 11) = (2022, 9, 11).
Proof.
  split; [reflexivity|]. split; [exists 1662868800; reflexivity|]. split; vm_compute; reflexivity.
Qed.

(* the zone hypothesis is satisfiable and the example zone meets it (B = 4 hours) *)
Lemma santiago_like_window : forall u, window santiago_like 14400 u.
Proof.
  intros u. exists 1662868800, (-14400), (-10800). split; [intros x _; reflexivity|lia].
Qed.

(* ---------- transition tables: the decidable check implies the zone hypothesis ---------- *)
Lemma off_list_before B prev l cur x : chain B prev l = true -> x <= prev + 2 * B -> off_list cur l x = cur.
Proof.
  destruct l as [|[at_ o] r]; [reflexivity|]. cbn [chain off_list]. intros H Hx.
  apply andb_prop in H as [H _]. apply andb_prop in H as [H _]. apply andb_prop in H as [H _].
  destruct (x <? at_) eqn:E; [reflexivity|lia].
Qed.

Definition tail_ok (B : Z) (l : list (Z * Z)) : Prop :=
  match l with [] => True | (at_, o) :: r => - B <= o <= B /\ chain B at_ r = true end.

Lemma chain_tail B at_ r : chain B at_ r = true -> tail_ok B r.
Proof.
  destruct r as [|[at2 o2] r2]; [exact (fun _ => I)|]. cbn [chain tail_ok]. intros H.
  apply andb_prop in H as [H C]. apply andb_prop in H as [H O2]. apply andb_prop in H as [_ O1]. split; [lia|exact C].
Qed.

Lemma window_list B l : 0 <= B -> forall cur u, - B <= cur <= B -> tail_ok B l ->
  exists T a b, (forall x, u - B <= x <= u + B -> off_list cur l x = if x <? T then a else b) /\ - B <= a <= B /\ - B <= b <= B.
Proof.
  intros HB. induction l as [|[at_ o] r IH]; intros cur u Hc Ht.
  - exists 0, cur, cur. split; [intros x _; cbn; now destruct (x <? 0)|lia].
  - cbn [tail_ok] in Ht. destruct Ht as [Ho Hch].
    destruct (Z_lt_le_dec (u + B) at_) as [Hlt|Hge].
    + (* the whole window lies before this transition *)
      exists at_, cur, cur. split; [|lia]. intros x Hx. cbn [off_list].
      destruct (x <? at_) eqn:E; [reflexivity|lia].
    + destruct (Z_le_gt_dec at_ (u - B)) as [Hle|Hgt].
      * (* the whole window lies after it *)
        destruct (IH o u Ho (chain_tail B at_ r Hch)) as (T & a & b & H & Ha & Hb).
        exists T, a, b. split; [|lia]. intros x Hx. cbn [off_list].
        destruct (x <? at_) eqn:E; [lia|]. now apply H.
      * (* the transition is inside the window: the next one is more than 2B later, i.e. beyond it *)
        exists at_, cur, o. split; [|lia]. intros x Hx. cbn [off_list].
        destruct (x <? at_) eqn:E; [reflexivity|]. apply (off_list_before B at_ r o x Hch). lia.
Qed.

Theorem table_window : forall B z, table_ok B z = true -> forall u, window (off_table z) B u.
Proof.
  intros B [init l] H u. unfold table_ok in H. cbn [fst snd] in H.
  apply andb_prop in H as [H Hl]. apply andb_prop in H as [H H3]. apply andb_prop in H as [H1 H2].
  unfold window, off_table. cbn [fst snd]. apply window_list; [lia|lia|].
  destruct l as [|[at_ o] r]; [exact I|]. cbn [tail_ok].
  apply andb_prop in Hl as [Hl C]. apply andb_prop in Hl as [O1 O2]. split; [lia|exact C].
Qed.
