(* C16: strict total order laws, for all integers (unbounded), by lia. *)
From UV Require Import Base.Bytes Model.Order Spec.OrderSpec.
From Coq Require Import ZifyBool.
Ltac Zify.zify_post_hook ::= Z.div_mod_to_equations.
Open Scope Z_scope.

(* the models are written with Go's nested ifs; split every comparison, then linear arithmetic *)
Ltac cmp :=
  repeat match goal with
  | |- context [if ?c then _ else _] => let E := fresh "E" in destruct c eqn:E
  | H : context [if ?c then _ else _] |- _ => let E := fresh "E" in destruct c eqn:E
  end; try lia; auto; try (intuition lia).

Lemma date_before_lex a b : date_before a b = true <-> lex3_lt a b.
Proof. destruct a as [[y1 m1] d1], b as [[y2 m2] d2]. unfold date_before, lex3_lt. cmp. Qed.
Lemma date_before_ltb a b : date_before a b = lex3_ltb a b.
Proof. destruct a as [[y1 m1] d1], b as [[y2 m2] d2]. unfold date_before, lex3_ltb. cmp. Qed.
Lemma date_after_mirror a b : date_after a b = date_before b a.
Proof. destruct a as [[y1 m1] d1], b as [[y2 m2] d2]. unfold date_before, date_after. cmp. Qed.
Lemma date_equals_eq a b : date_equals a b = true <-> a = b.
Proof.
  destruct a as [[y1 m1] d1], b as [[y2 m2] d2]. unfold date_equals. split.
  - intros H. assert (y1 = y2 /\ m1 = m2 /\ d1 = d2) as (-> & -> & ->) by lia. reflexivity.
  - intros [= -> -> ->]. lia.
Qed.

(* exactly one of before / equal / after *)
Lemma date_trichotomy a b :
  (date_before a b = true /\ date_equals a b = false /\ date_after a b = false) \/
  (date_before a b = false /\ date_equals a b = true /\ date_after a b = false) \/
  (date_before a b = false /\ date_equals a b = false /\ date_after a b = true).
Proof. destruct a as [[y1 m1] d1], b as [[y2 m2] d2]. unfold date_before, date_equals, date_after. cmp. Qed.

Lemma date_before_trans a b c : date_before a b = true -> date_before b c = true -> date_before a c = true.
Proof.
  destruct a as [[y1 m1] d1], b as [[y2 m2] d2], c as [[y3 m3] d3]. unfold date_before. intros H1 H2. cmp.
Qed.

Lemma date_before_irrefl a : date_before a a = false.
Proof. destruct a as [[y m] d]. unfold date_before. cmp. Qed.

Lemma hhmm_before_lex a b : hhmm_before a b = true <-> lex2_lt a b.
Proof. destruct a, b. unfold hhmm_before, lex2_lt. cbn [fst snd]. cmp. Qed.
Lemma hhmm_before_ltb a b : hhmm_before a b = lex2_ltb a b.
Proof. destruct a, b. unfold hhmm_before, lex2_ltb. cbn [fst snd]. cmp. Qed.
Lemma hhmm_after_mirror a b : hhmm_after a b = hhmm_before b a.
Proof. destruct a, b. unfold hhmm_before, hhmm_after. cbn [fst snd]. cmp. Qed.
Lemma hhmm_equals_eq a b : hhmm_equals a b = true <-> a = b.
Proof.
  destruct a as [h1 m1], b as [h2 m2]. unfold hhmm_equals. cbn [fst snd]. split.
  - intros H. assert (h1 = h2 /\ m1 = m2) as (-> & ->) by lia. reflexivity.
  - intros [= -> ->]. lia.
Qed.
Lemma hhmm_trichotomy a b :
  (hhmm_before a b = true /\ hhmm_equals a b = false /\ hhmm_after a b = false) \/
  (hhmm_before a b = false /\ hhmm_equals a b = true /\ hhmm_after a b = false) \/
  (hhmm_before a b = false /\ hhmm_equals a b = false /\ hhmm_after a b = true).
Proof. destruct a, b. unfold hhmm_before, hhmm_equals, hhmm_after. cbn [fst snd]. cmp. Qed.
Lemma hhmm_before_trans a b c : hhmm_before a b = true -> hhmm_before b c = true -> hhmm_before a c = true.
Proof. destruct a, b, c. unfold hhmm_before. cbn [fst snd]. intros H1 H2. cmp. Qed.

(* a date-time is before an instant exactly when its whole-second timestamp is the smaller one (instants from 1970 on) *)
Lemma datetime_before_seconds d t : 0 <= d -> 0 <= t ->
  datetime_before d t = (whole_seconds d <? whole_seconds t).
Proof.
  intros Hd Ht. unfold datetime_before, whole_seconds.
  rewrite !Z.quot_div_nonneg by lia. reflexivity.
Qed.

(* sub-second parts never matter *)
Lemma datetime_before_subsecond d t k : 0 <= d -> 0 <= t -> 0 <= k < 1000 -> d mod 1000 + k < 1000 ->
  datetime_before (d + k) t = datetime_before d t.
Proof.
  intros Hd Ht Hk Hs. rewrite !datetime_before_seconds by lia. unfold whole_seconds. f_equal. lia.
Qed.

Lemma segment_accepted_iff s e : segment_accepted s e = true <-> ~ lex2_lt e s.
Proof. unfold segment_accepted. rewrite negb_true_iff, <- hhmm_before_lex. destruct (hhmm_before e s); split; congruence. Qed.
