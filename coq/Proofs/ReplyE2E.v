(* C02, end to end: for every reply-bearing operation and EVERY 64-byte reply with a correct header, the value the
   model of the API computes from the decoded reply is admitted by the flat protocol specification (Spec/ReplySpec.v). *)
From Coq Require Import String.
From UV Require Import Base.Bytes Model.WireTypes Model.Codec Model.Interp Model.Cases18 Model.Ops Model.CasesApi Gen.Layouts
  Spec.WireSpec Spec.CodecSpec Spec.Protocol Spec.ApiSpec Spec.ReplySpec Proofs.WireProofs Proofs.CodecProofs Proofs.LayoutProps
  Proofs.ApiProofs Proofs.ReplyProofs.
From Coq Require Import Lia.
Open Scope N_scope.

(* ---------- one field ---------- *)
Definition is_fail (r : dres) : bool := match r with DFail => true | _ => false end.

(* what decoding one data field of a reply yields, in terms of the protocol decoding of its bytes *)
Definition field_rel (buf : list N) (f : kind * nat) (w : fval) : Prop :=
  match spec_dec (fst f) (sub buf (snd f) (width (fst f))) with
  | DVal v => w = v
  | _ => no_value (fst f) w = true
  end.

Lemma sub_length buf off w : (off + w <= length buf)%nat -> length (sub buf off w) = w.
Proof. intros H. unfold sub. rewrite firstn_length, skipn_length. lia. Qed.

Lemma unmarshal_data_field k off buf : (off + width k <= length buf)%nat ->
  match unmarshal_field (FData k off None) buf with
  | Ok w => field_rel buf (k, off) w
  | Err => is_fail (spec_dec k (sub buf off (width k))) = true
  | Panic => False
  end.
Proof.
  intros Fit. cbn [unmarshal_field]. apply Nat.leb_le in Fit as Fit'. rewrite Fit'.
  assert (dec k None (sub buf off (width k)) = dec k None (sub buf off (width k))) as _ by reflexivity.
  pose proof (dec_agrees_all k (sub buf off (width k)) (sub_length _ _ _ Fit)) as A.
  unfold field_rel. cbn [fst snd].
  destruct (spec_dec k (sub buf off (width k))) as [v| |]; destruct (dec k None (sub buf off (width k))) as [[v'|]| |];
    cbn [dec_agrees] in A; try discriminate A; cbn [is_fail]; try reflexivity.
  - now apply fval_eqb_eq in A.
  - unfold no_value. now rewrite fval_eqb_refl.
  - exact A.
  - unfold no_value. now rewrite fval_eqb_refl.
Qed.

Definition mk (f : kind * nat) : field := FData (fst f) (snd f) None.
Definition fits (buf : list N) (f : kind * nat) : bool := Nat.leb (snd f + width (fst f)) (length buf).

Lemma unmarshal_table T : forall buf, forallb (fits buf) T = true ->
  match unmarshal_fields (map mk T) buf with
  | Ok ws => Forall2 (field_rel buf) T ws
  | Err => existsb (fun f => is_fail (spec_dec (fst f) (sub buf (snd f) (width (fst f))))) T = true
  | Panic => False
  end.
Proof.
  induction T as [|[k off] T IH]; intros buf F; [constructor|].
  cbn [forallb] in F. apply andb_prop in F as [F1 F2]. unfold fits in F1. cbn [fst snd] in F1. apply Nat.leb_le in F1.
  cbn [map unmarshal_fields]. unfold mk at 1. cbn [fst snd].
  pose proof (unmarshal_data_field k off buf F1) as D. specialize (IH buf F2).
  destruct (unmarshal_field (FData k off None) buf) as [w| |]; cbn [obind]; [| |contradiction].
  - destruct (unmarshal_fields (map mk T) buf) as [ws| |]; cbn [obind]; [| |contradiction].
    + now constructor.
    + cbn [existsb fst snd]. rewrite IH. apply orb_true_r.
  - cbn [existsb fst snd]. now rewrite D.
Qed.

(* ---------- the whole reply ---------- *)
Definition no_reply_struct (o : op) : bool := match o with SetAddress _ _ _ _ => true | _ => false end.

Lemma table_fits o : forallb (fun f => Nat.leb (snd f + width (fst f)) 64) (reply_table o) = true.
Proof. destruct o; reflexivity. Qed.

Lemma reply_layout_shape o : no_reply_struct o = false ->
  resp_layout o = FMsgType (Some (Some (proto_code o))) :: map mk (reply_table o).
Proof. intros H. rewrite resp_match. destruct o; try discriminate H; reflexivity. Qed.

Lemma header_facts o r : reply_header_ok o r = true ->
  length r = 64%nat /\ som_ok r = true /\ nth_error r 1 = Some (proto_code o) /\ of_le (sub r 4 4) = op_id o.
Proof.
  unfold reply_header_ok. intros H.
  apply andb_prop in H as [H Hid]. apply andb_prop in H as [H Hcode]. apply andb_prop in H as [Hlen Hsom].
  apply Nat.eqb_eq in Hlen. apply N.eqb_eq in Hid. apply N.eqb_eq in Hcode.
  destruct r as [|b0 [|b1 r']]; try discriminate Hlen. cbn [nth] in *. subst b1.
  repeat split; assumption.
Qed.

Lemma unmarshal_reply o r : no_reply_struct o = false -> reply_header_ok o r = true ->
  match unmarshal (resp_layout o) r with
  | Ok vs => exists ws, vs = VN (proto_code o) :: ws /\ Forall2 (field_rel r) (reply_table o) ws
  | Err => existsb (fun f => is_fail (spec_dec (fst f) (sub r (snd f) (width (fst f))))) (reply_table o) = true
  | Panic => False
  end.
Proof.
  intros NS H. destruct (header_facts o r H) as (L & S & M & _).
  rewrite (reply_layout_shape o NS). unfold unmarshal. rewrite L, S. cbn [Nat.eqb negb].
  change (negb (Nat.eqb 64 64)) with false. cbv iota.
  cbn [unmarshal_fields unmarshal_field]. rewrite M, N.eqb_refl. cbn [obind].
  assert (forallb (fits r) (reply_table o) = true) as F.
  { unfold fits. rewrite L. apply table_fits. }
  pose proof (unmarshal_table (reply_table o) r F) as T.
  destruct (unmarshal_fields (map mk (reply_table o)) r) as [ws| |]; cbn [obind]; [|exact T|exact T].
  exists ws. split; [reflexivity|exact T].
Qed.

(* ---------- reading a field in the specification vs the decoded value ---------- *)
Definition hhn (k : kind) (w : fval) : fval := match k with KHHmmP => hh w | _ => w end.
Definition plain (k : kind) : bool := match k with KDateP | KDateTimeP => false | _ => true end.

Lemma hhmm_dval b v : spec_dec KHHmmP b = DVal v -> hh v = v.
Proof.
  unfold spec_dec. destruct b as [|h [|m [|? ?]]]; try discriminate.
  destruct (un2 h); try discriminate. destruct (un2 m); try discriminate.
  destruct (_ || _); try discriminate. intros E. injection E as <-. reflexivity.
Qed.

Lemma no_value_plain k w : plain k = true -> no_value k w = true -> hhn k w = zero_val k.
Proof.
  intros P H. unfold no_value in H.
  destruct k; try discriminate P; cbn [orb] in H; rewrite ?orb_false_r in H; apply fval_eqb_eq in H; subst w; reflexivity.
Qed.

Lemma rd_of_rel r k off w : plain k = true -> field_rel r (k, off) w -> fst (rd k off r) = hhn k w.
Proof.
  intros P H. unfold field_rel in H. cbn [fst snd] in H. unfold rd.
  destruct (spec_dec k (sub r off (width k))) as [v| |] eqn:S; cbn [fst].
  - subst w. destruct k; try reflexivity. cbn [hhn]. symmetry. eapply hhmm_dval. exact S.
  - symmetry. now apply no_value_plain.
  - symmetry. now apply no_value_plain.
Qed.

Lemma fail_is_bad T r : existsb (fun f => is_fail (spec_dec (fst f) (sub r (snd f) (width (fst f))))) T = true ->
  bad (map (fun f => rd (fst f) (snd f) r) T) = true.
Proof.
  unfold bad. induction T as [|[k off] T IH]; cbn [existsb map fst snd]; intros H; [discriminate|].
  apply orb_true_iff in H as [H|H].
  - unfold rd at 1. destruct (spec_dec k (sub r off (width k))); try discriminate H. reflexivity.
  - rewrite (IH H). apply orb_true_r.
Qed.

Lemma fvals_eqb_refl l : fvals_eqb l l = true.
Proof. induction l as [|x l IH]; [reflexivity|]. cbn. now rewrite fval_eqb_refl, IH. Qed.

(* ---------- per operation ---------- *)
Lemma forall2_cons {A B} (R : A -> B -> Prop) a l ws : Forall2 R (a :: l) ws -> exists w ws', ws = w :: ws' /\ R a w /\ Forall2 R l ws'.
Proof. intros H. inversion H; subst. eauto. Qed.
Lemma forall2_nil {A B} (R : A -> B -> Prop) ws : Forall2 R (@nil A) ws -> ws = @nil B.
Proof. intros H. now inversion H. Qed.

Ltac split_ws H :=
  repeat match type of H with
  | Forall2 _ (_ :: _) _ =>
      let w := fresh "w" in let ws := fresh "ws" in let E := fresh "E" in let R := fresh "R" in let H' := fresh "H" in
      apply forall2_cons in H as (w & ws & E & R & H'); subst; rename H' into H
  | Forall2 _ [] _ => apply forall2_nil in H; subst
  end.

Lemma serial_rel r w : length r = 64%nat -> field_rel r (KSerial, 4%nat) w -> w = VN (of_le (sub r 4 4)).
Proof.
  intros L H. unfold field_rel in H. cbn [fst snd width] in H.
  destruct (all_bytes_4 (sub r 4 4) (sub_length r 4 4 ltac:(lia))) as (a & b & c & d & E). rewrite E in *.
  cbn [spec_dec] in H. rewrite H, of_le_4. reflexivity.
Qed.

Lemma ip_rel r off w : (off + 4 <= length r)%nat -> field_rel r (KIP, off) w -> w = VIP (sub r off 4) /\ length (sub r off 4) = 4%nat.
Proof.
  intros L H. unfold field_rel in H. cbn [fst snd width] in H.
  pose proof (sub_length r off 4 L) as SL. cbn [spec_dec] in H. split; assumption.
Qed.

Ltac rel_to_eq r :=
  repeat match goal with
  | R : field_rel r (?k, ?off) ?w |- _ =>
      let E := fresh "Q" in
      pose proof (rd_of_rel r k off w eq_refl R) as E; cbn [hhn] in E; clear R
  end.
Ltac rewrite_reads := repeat match goal with Q : fst (rd _ _ _) = _ |- _ => rewrite Q; clear Q end.
Ltac dfv w := destruct w as [[|?]|?|?|?|?|? ? ?|? ? ? ? ? ?|? ? ?|? ? ?|? ?|].
Ltac close := cbn [orb negb andb]; cbv iota beta; try apply fvals_eqb_refl; try apply orb_true_r; try reflexivity.
Ltac eqb0 := repeat match goal with |- context [N.eqb (N.pos ?p) 0] => change (N.eqb (N.pos p) 0) with false | |- context [N.eqb 0 0] => change (N.eqb 0 0) with true end.

Lemma ok_GetDevice cfg id r ws : reply_header_ok (GetDevice id) r = true -> Forall2 (field_rel r) (reply_table (GetDevice id)) ws ->
  admits_result cfg (GetDevice id) r (result_of cfg (GetDevice id) (VN (proto_code (GetDevice id)) :: ws)) = true.
Proof.
  intros H F. destruct (header_facts _ _ H) as (L & _ & _ & SER). cbn [reply_table] in F. split_ws F.
  match goal with R : field_rel r (KSerial, 4%nat) ?w |- _ => pose proof (serial_rel r w L R) as SR; rewrite SER in SR; cbn [op_id] in SR end.
  match goal with R : field_rel r (KIP, 8%nat) ?w |- _ => destruct (ip_rel r 8 w ltac:(lia) R) as [IP IPL] end.
  rel_to_eq r. unfold admits_result, reply_spec, reads. cbn [reply_table map vals fst snd]. rewrite_reads. subst.
  lazy -[rd bad of_le sub fvals_eqb fval_eqb N.eqb hh orb negb andb find_device last_device fold_left to4 length Nat.eqb].
  unfold to4. rewrite IPL. cbn [Nat.eqb]. rewrite IPL. cbn [Nat.eqb].
  unfold last_device. rewrite <- !find_device_fold. destruct cfg as [ds bc]. cbn [cfg_devices].
  apply fvals_eqb_refl.
Qed.

Lemma ok_case cfg o r ws : no_reply_struct o = false -> reply_header_ok o r = true -> Forall2 (field_rel r) (reply_table o) ws ->
  admits_result cfg o r (result_of cfg o (VN (proto_code o) :: ws)) = true.
Proof.
  intros NS H F.
  destruct o; try discriminate NS;
  match goal with
  | H0 : reply_header_ok (GetDevice _) _ = true |- _ => now apply ok_GetDevice
  | _ => idtac
  end;
  destruct (header_facts _ _ H) as (L & _ & _ & SER); cbn [reply_table] in F; split_ws F;
  match goal with R : field_rel r (KSerial, 4%nat) ?w |- _ => pose proof (serial_rel r w L R) as SR; rewrite SER in SR; cbn [op_id] in SR end;
  rel_to_eq r; unfold admits_result, reply_spec, reads; cbn [reply_table map vals fst snd]; rewrite_reads; subst;
  lazy -[rd bad of_le sub fvals_eqb fval_eqb N.eqb hh orb negb andb find_device last_device fold_left];
  rewrite ?N.eqb_refl; close.
  all: repeat match goal with |- context [match ?w with VN _ => _ | _ => _ end] => is_var w; dfv w end; eqb0; close.
  all: repeat match goal with |- context [N.eqb ?a ?b] => destruct (N.eqb a b) eqn:? end; close.
Qed.

(* ---------- the theorem ---------- *)
Theorem reply_interpreted cfg o r : reply_header_ok o r = true ->
  match unmarshal (resp_layout o) r with
  | Ok vs => admits_result cfg o r (result_of cfg o vs) = true
  | Err => admits_result cfg o r RErr = true
  | Panic => False
  end.
Proof.
  intros H. destruct (no_reply_struct o) eqn:NS.
  - destruct o; try discriminate NS. destruct (header_facts _ _ H) as (L & S & _ & _).
    rewrite resp_match. cbn [reply_layout_spec]. unfold unmarshal. rewrite L, S. cbn.
    rewrite N.eqb_refl. reflexivity.
  - pose proof (unmarshal_reply o r NS H) as U.
    destruct (unmarshal (resp_layout o) r) as [vs| |]; [| |exact U].
    + destruct U as (ws & -> & F). now apply ok_case.
    + unfold admits_result, reply_spec, reads. rewrite (fail_is_bad _ _ U). reflexivity.
Qed.

(* through the model of the API call: whatever the configuration, the route and the script, if the datagram handed to
   the decoder is a reply with a correct header then the result is one the protocol specification admits *)
Theorem api_reply_admitted cfg o s r m : o <> GetDevices -> accepted o = true -> op_id o <> 0 -> request_bytes o = Ok m ->
  drive (route cfg (op_id o)) (op_id o) s = DBytes r -> reply_header_ok o r = true ->
  admits_result cfg o r (fst (api cfg o s)) = true.
Proof.
  intros NG A NZ RB D H. pose proof (reply_interpreted cfg o r H) as RI.
  destruct (header_facts _ _ H) as (L & _ & _ & SER).
  unfold api. destruct o; try contradiction; rewrite A; cbn [negb]; unfold sendto;
    (destruct (_ =? 0) eqn:Z; [apply N.eqb_eq in Z; contradiction|]); rewrite RB, D, L; cbn [Nat.eqb negb];
    unfold serial_of; rewrite SER, N.eqb_refl; cbn [negb];
    match goal with |- context [unmarshal ?l r] => destruct (unmarshal l r) end; cbn [fst]; try exact RI; contradiction.
Qed.
