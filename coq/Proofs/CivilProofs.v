(* The proleptic Gregorian day count is inverted by civil_from_days, for ALL years:
   one 400-year era by complete enumeration (146 097 days), every other year by periodicity (lia). *)
From UV Require Import Base.Bytes Model.GoTime.
From Coq Require Import ZifyBool.
Ltac Zify.zify_post_hook ::= Z.div_mod_to_equations.
Open Scope Z_scope.

Lemma days_in_month_le y m : days_in_month y m <= 31.
Proof.
  unfold days_in_month. destruct (m =? 2); [destruct (is_leap_year y); lia|].
  destruct ((m =? 4) || (m =? 6) || (m =? 9) || (m =? 11)); lia.
Qed.

Lemma days_from_civil_shift y m d k : days_from_civil (y + 400 * k) m d = days_from_civil y m d + 146097 * k.
Proof.
  unfold days_from_civil. destruct (m <=? 2); cbv zeta.
  - replace ((y + 400 * k - 1) / 400) with ((y - 1) / 400 + k) by lia.
    replace (y + 400 * k - 1 - ((y - 1) / 400 + k) * 400) with (y - 1 - (y - 1) / 400 * 400) by lia. lia.
  - replace ((y + 400 * k) / 400) with (y / 400 + k) by lia.
    replace (y + 400 * k - (y / 400 + k) * 400) with (y - y / 400 * 400) by lia. lia.
Qed.

Lemma civil_from_days_shift z k :
  civil_from_days (z + 146097 * k) = let '(y, m, d) := civil_from_days z in (y + 400 * k, m, d).
Proof.
  unfold civil_from_days. cbv zeta.
  replace ((z + 146097 * k + 719468) / 146097) with ((z + 719468) / 146097 + k) by lia.
  replace (z + 146097 * k + 719468 - ((z + 719468) / 146097 + k) * 146097)
     with (z + 719468 - (z + 719468) / 146097 * 146097) by lia.
  set (doe := z + 719468 - (z + 719468) / 146097 * 146097).
  set (yoe := (doe - doe / 1460 + doe / 36524 - doe / 146096) / 365).
  set (doy := doe - (365 * yoe + yoe / 4 - yoe / 100)).
  set (mp := (5 * doy + 2) / 153).
  destruct (mp <? 10); [destruct (mp + 3 <=? 2) | destruct (mp - 9 <=? 2)]; f_equal; f_equal; lia.
Qed.

Fixpoint zrange (lo : Z) (n : nat) : list Z := match n with O => [] | S k => lo :: zrange (lo + 1) k end.

Definition check_ymd (y m d : Z) : bool :=
  negb (valid_md y m d) ||
  (let '(y', m', d') := civil_from_days (days_from_civil y m d) in (y' =? y) && (m' =? m) && (d' =? d)).
Definition check_year (y : Z) : bool := forallb (fun m => forallb (check_ymd y m) (zrange 1 31)) (zrange 1 12).

(* stated in the explicit form in which it is used (a constant hiding the list makes Qed re-evaluate it lazily) *)
Lemma era_ok : forallb check_year (zrange 2000 400) = true.
Proof. vm_compute. reflexivity. Qed.

Lemma in_zrange lo n x : lo <= x < lo + Z.of_nat n -> In x (zrange lo n).
Proof.
  revert lo; induction n as [|n IH]; intros lo H; cbn [zrange]; [lia|].
  destruct (Z.eq_dec x lo); [left; auto | right; apply IH; lia].
Qed.

Lemma era_check y m d : 2000 <= y < 2400 -> 1 <= m <= 12 -> 1 <= d <= 31 -> check_ymd y m d = true.
Proof.
  intros Hy Hm Hd.
  pose proof (proj1 (forallb_forall check_year (zrange 2000 400)) era_ok y (in_zrange 2000 400 y ltac:(lia))) as E1.
  pose proof (proj1 (forallb_forall _ _) E1 m (in_zrange 1 12 m ltac:(lia))) as E2.
  exact (proj1 (forallb_forall _ _) E2 d (in_zrange 1 31 d ltac:(lia))).
Qed.

Lemma era_roundtrip y m d : 2000 <= y < 2400 -> valid_md y m d = true ->
  civil_from_days (days_from_civil y m d) = (y, m, d).
Proof.
  intros Hy Hv.
  assert (1 <= m <= 12 /\ 1 <= d <= 31) as [Hm Hd].
  { pose proof (days_in_month_le y m). unfold valid_md in Hv. lia. }
  pose proof (era_check y m d Hy Hm Hd) as E. unfold check_ymd in E. rewrite Hv in E. cbn [negb orb] in E.
  destruct (civil_from_days (days_from_civil y m d)) as [[y' m'] d']. f_equal; [f_equal|]; lia.
Qed.

Lemma is_leap_shift y k : is_leap_year (y + 400 * k) = is_leap_year y.
Proof.
  unfold is_leap_year.
  replace ((y + 400 * k) mod 4) with (y mod 4) by lia.
  replace ((y + 400 * k) mod 100) with (y mod 100) by lia.
  replace ((y + 400 * k) mod 400) with (y mod 400) by lia. reflexivity.
Qed.

Theorem civil_days_roundtrip y m d : valid_md y m d = true -> civil_from_days (days_from_civil y m d) = (y, m, d).
Proof.
  intros Hv. set (k := (y - 2000) / 400). set (y0 := y - 400 * k).
  assert (2000 <= y0 < 2400) as Hy0 by (unfold y0, k; lia).
  assert (valid_md y0 m d = true) as Hv0.
  { unfold valid_md, days_in_month in *. replace y with (y0 + 400 * k) in Hv by (unfold y0; lia).
    rewrite is_leap_shift in Hv. exact Hv. }
  replace y with (y0 + 400 * k) by (unfold y0; lia).
  rewrite days_from_civil_shift, civil_from_days_shift, (era_roundtrip y0 m d Hy0 Hv0). reflexivity.
Qed.

Definition valid_civil (c : civil) : bool := let '(y, m, d, h, mi, s) := c in valid_md y m d && valid_tod h mi s.

Theorem civil_unix_roundtrip c : valid_civil c = true -> civil_of_unix (unix_of_civil c) = c.
Proof.
  destruct c as [[[[[y m] d] h] mi] s]. intros V. cbn [valid_civil] in V. apply andb_prop in V as [Vd Vt].
  unfold valid_tod in Vt. unfold civil_of_unix, unix_of_civil.
  set (D := days_from_civil y m d).
  replace ((D * 86400 + h * 3600 + mi * 60 + s) / 86400) with D by lia.
  replace ((D * 86400 + h * 3600 + mi * 60 + s) mod 86400) with (h * 3600 + mi * 60 + s) by lia.
  unfold D. rewrite (civil_days_roundtrip y m d Vd).
  repeat f_equal; lia.
Qed.
