(* C03 / C11: which datagram an operation acts on; discovery. *)
From Coq Require Import String.
From UV Require Import Base.Bytes Model.WireTypes Model.Codec Model.Interp Model.Cases18 Model.Ops Model.CasesApi Gen.Layouts
  Spec.WireSpec Spec.CodecSpec Spec.Protocol Spec.ApiSpec Spec.ReplySpec Proofs.WireProofs Proofs.CodecProofs Proofs.LayoutProps
  Proofs.ApiProofs Proofs.ReplyProofs.
Open Scope N_scope.

Definition ok_result (r : result) : Prop := match r with RVals _ | RNone => True | _ => False end.

(* the function code a reply must carry *)
Lemma msgtype_of_reply o r : (match o with SetAddress _ _ _ _ => False | _ => True end) ->
  msgtypes_match (resp_layout o) r = true -> nth 1 r 0 = proto_code o.
Proof.
  intros NS M. rewrite resp_match in M. destruct o; try contradiction;
    cbn [reply_layout_spec msgtypes_match forallb] in M; apply andb_prop in M as [M _]; now apply N.eqb_eq in M.
Qed.

(* C03: a result is reported only on the basis of a delivered datagram that is 64 bytes long, starts with the protocol
   id (0x17, or 0x19 for function 0x20), carries the operation's function code and serial number S *)
Theorem accepts_only : forall cfg o s,
  (match o with GetDevices | SetAddress _ _ _ _ => False | _ => True end) ->
  ok_result (fst (api cfg o s)) ->
  drive (route cfg (op_id o)) (op_id o) s = DNil \/
  exists r vs, drive (route cfg (op_id o)) (op_id o) s = DBytes r /\
               length r = 64%nat /\ serial_of r = op_id o /\ som_ok r = true /\ nth 1 r 0 = proto_code o /\
               unmarshal (resp_layout o) r = Ok vs /\ fst (api cfg o s) = result_of cfg o vs.
Proof.
  intros cfg o s NS OKR.
  assert (exists vs, fst (sendto cfg o s) = Ok vs /\ fst (api cfg o s) = result_of cfg o vs) as (vs & ES & ER).
  { destruct o; try contradiction; unfold api in *;
      (destruct (negb (accepted _)); [contradiction|]);
      (destruct (sendto cfg _ s) as [[vs| |] calls] eqn:S; cbn [fst] in *; try contradiction; exists vs; split; reflexivity). }
  destruct (sendto_gate cfg o s vs ES) as [_ [[DN _]|(r & DB & L & Sr & U)]]; [now left|right].
  exists r, vs. destruct (unmarshal_enforces_tags _ _ _ (resp_wf o) U) as (_ & SO & MM & _).
  repeat split; auto. apply msgtype_of_reply; [destruct o; auto|exact MM].
Qed.

(* the delivered datagram is one of the datagrams that arrived *)
Lemma drive_in id s r e : drive e id s = DBytes r ->
  match s with SDatagrams ds => In r ds | SReturn d => r = d | _ => False end.
Proof.
  destruct e, s as [ds|d| |]; cbn [drive]; try discriminate.
  - destruct (find (handler_accepts id) ds) eqn:F; [|discriminate]. intros [= <-]. now apply find_some in F as [? _].
  - destruct ds; [discriminate|]. intros [= <-]. now left.
  - now intros [= <-].
  - destruct ds; [discriminate|]. intros [= <-]. now left.
  - now intros [= <-].
Qed.

Lemma find_skip {A} (f : A -> bool) junk l : forallb (fun x => negb (f x)) junk = true -> find f (junk ++ l) = find f l.
Proof.
  induction junk as [|x junk IH]; intros H; [reflexivity|]. cbn [forallb] in H. apply andb_prop in H as [H1 H2].
  cbn [app find]. apply negb_true_iff in H1. rewrite H1. now apply IH.
Qed.

(* broadcast path: datagrams of the wrong length or with another serial number are ignored, the call keeps waiting *)
Theorem broadcast_skips : forall cfg o junk ds,
  (match o with GetDevices => False | _ => True end) ->
  (exists a p, route cfg (op_id o) = EBroadcastTo a p) ->
  forallb (fun d => negb (handler_accepts (op_id o) d)) junk = true ->
  api cfg o (SDatagrams (junk ++ ds)) = api cfg o (SDatagrams ds).
Proof.
  intros cfg o junk ds NG (a & p & R) J.
  assert (sendto cfg o (SDatagrams (junk ++ ds)) = sendto cfg o (SDatagrams ds)) as S.
  { unfold sendto. rewrite R. cbn [drive]. now rewrite find_skip. }
  destruct o; try contradiction; unfold api; now rewrite S.
Qed.

(* ... and the content of the other datagrams never reaches the result: it is a function of the first accepted one *)
Theorem broadcast_noninterference : forall cfg o ds d,
  (exists a p, route cfg (op_id o) = EBroadcastTo a p) -> (match o with GetDevices => False | _ => True end) ->
  find (handler_accepts (op_id o)) ds = Some d ->
  api cfg o (SDatagrams ds) = api cfg o (SDatagrams [d]).
Proof.
  intros cfg o ds d (a & p & R) NG F.
  assert (handler_accepts (op_id o) d = true) as A by (now apply find_some in F as [_ ?]).
  assert (sendto cfg o (SDatagrams ds) = sendto cfg o (SDatagrams [d])) as S.
  { unfold sendto. rewrite R. cbn [drive find]. now rewrite F, A. }
  destruct o; try contradiction; unfold api; now rewrite S.
Qed.

(* on every path a delivered datagram of the wrong length or with another serial number makes the call fail *)
Theorem wrong_datagram_fails : forall cfg o s r,
  (match o with GetDevices => False | _ => True end) -> args_in_domain o = true ->
  drive (route cfg (op_id o)) (op_id o) s = DBytes r -> handler_accepts (op_id o) r = false ->
  fst (api cfg o s) = RErr.
Proof.
  intros cfg o s r NG AD D H.
  assert (fst (sendto cfg o s) = Err) as S.
  { unfold sendto. destruct (op_id o =? 0); [reflexivity|]. rewrite (request_is_proto o AD).
    cbn [fst]. rewrite D. unfold handler_accepts in H.
    destruct (Nat.eqb (length r) 64); cbn [negb andb] in *; [|reflexivity]. now rewrite H. }
  destruct o; try contradiction; unfold api; destruct (negb (accepted _)); try reflexivity;
    destruct (sendto cfg _ s) as [[vs| |] cs0]; cbn [fst] in *; try discriminate S; reflexivity.
Qed.

(* a datagram that passes as S's but has a wrong protocol id or function code makes the call fail *)
Theorem bad_header_fails : forall cfg o s r,
  (match o with GetDevices | SetAddress _ _ _ _ => False | _ => True end) ->
  drive (route cfg (op_id o)) (op_id o) s = DBytes r ->
  som_ok r = false \/ nth 1 r 0 <> proto_code o ->
  fst (api cfg o s) = RErr \/ fst (api cfg o s) = RPanic.
Proof.
  intros cfg o s r NS D B.
  destruct (fst (api cfg o s)) eqn:E; auto; exfalso.
  - assert (ok_result (fst (api cfg o s))) as OKR by (rewrite E; exact I).
    destruct (accepts_only cfg o s NS OKR) as [DN|(r' & vs' & D' & _ & _ & SO & MT & _)]; [congruence|].
    assert (r' = r) by congruence. subst. destruct B as [B|B]; congruence.
  - assert (ok_result (fst (api cfg o s))) as OKR by (rewrite E; exact I).
    destruct (accepts_only cfg o s NS OKR) as [DN|(r' & vs' & D' & _ & _ & SO & MT & _)]; [congruence|].
    assert (r' = r) by congruence. subst. destruct B as [B|B]; congruence.
  - destruct o; try contradiction; unfold api in E; destruct (negb (accepted _)); try discriminate E;
      destruct (sendto cfg _ s) as [[vs| |] cs0]; cbn [fst] in E; try discriminate E;
      cbn [result_of] in E; repeat match type of E with context [match ?x with _ => _ end] => destruct x; try discriminate E end.
Qed.

(* ---------- C11 ---------- *)
Theorem discovery_result : forall cfg ds, fst (api cfg GetDevices (SDatagrams ds)) = RList (get_devices cfg ds).
Proof. intros cfg ds. unfold api. rewrite (request_is_proto GetDevices eq_refl). reflexivity. Qed.

Theorem discovery_app : forall cfg l1 l2, get_devices cfg (l1 ++ l2) = (get_devices cfg l1 ++ get_devices cfg l2)%list.
Proof. intros. unfold get_devices. apply flat_map_app. Qed.

Definition listable (d : list N) : bool :=
  Nat.eqb (length d) 64 && match unmarshal (msg_layout "GetDeviceResponse") d with Ok _ => true | _ => false end.

(* a malformed datagram contributes nothing, never fails the call and never hides the replies around it *)
Theorem discovery_noise : forall cfg l1 d l2, listable d = false ->
  get_devices cfg (l1 ++ d :: l2) = get_devices cfg (l1 ++ l2).
Proof.
  intros cfg l1 d l2 H. rewrite !discovery_app. f_equal. cbn [get_devices flat_map]. fold (get_devices cfg l2).
  unfold listable in H. destruct (Nat.eqb (length d) 64); [|reflexivity]. cbn [andb] in H.
  destruct (unmarshal (msg_layout "GetDeviceResponse") d); try reflexivity. discriminate H.
Qed.

(* a well-formed reply contributes exactly one entry, the protocol decoding of that reply *)
Theorem discovery_entry : forall cfg d vs, length d = 64%nat -> unmarshal (msg_layout "GetDeviceResponse") d = Ok vs ->
  get_devices cfg [d] = [device_of cfg (get "GetDeviceResponse" vs) (bcast_port cfg)].
Proof. intros cfg d vs L U. cbn [get_devices flat_map]. rewrite L, U. reflexivity. Qed.

(* which datagrams are listed: exactly those whose reply decodes (instance of C02_reply_decoding) *)
Theorem discovery_listable_spec : forall d,
  spec_unmarshal_admits (resp_layout (GetDevice 0)) d (unmarshal (msg_layout "GetDeviceResponse") d) = true.
Proof. intros d. exact (reply_decoding (GetDevice 0) d). Qed.
