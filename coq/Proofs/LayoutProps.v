(* Obligations over the GENERATED data (coq/Gen/Layouts.v): re-checked against what the source says on every run. *)
From Coq Require Import String.
From UV Require Import Base.Bytes Model.WireTypes Model.Codec Model.Interp Model.Cases18 Model.Messages Gen.Layouts
  Spec.WireSpec Spec.CodecSpec Proofs.WireProofs Proofs.CodecProofs.
Open Scope N_scope.

Definition shipped : list (string * layout) := map (fun s => (fst s, interp_struct structs (snd s))) structs.

(* every shipped message struct is a well-formed layout: supported kinds, fields inside the 64 bytes, no overlap *)
Lemma shipped_wf : forallb (fun p => wf_layout (snd p)) shipped = true.
Proof. vm_compute. reflexivity. Qed.

(* the header a shipped layout emits passes its own decoder's start-of-message gate *)
Definition dummies (L : layout) : list fval := map (fun _ => VNil) L.
Definition hdr_gate (L : layout) : bool := som_ok (spec_image L (dummies L)).
Lemma shipped_gate : forallb (fun p => hdr_gate (snd p)) shipped = true.
Proof. vm_compute. reflexivity. Qed.

(* struct names are unique, so lookup by name is unambiguous *)
Fixpoint nodup_str (l : list string) : bool :=
  match l with [] => true | x :: r => negb (existsb (String.eqb x) r) && nodup_str r end.
Lemma shipped_names_unique : nodup_str (map fst structs) = true.
Proof. vm_compute. reflexivity. Qed.

(* tables: every entry names a shipped struct whose MsgType tag is the table key; keys are distinct *)
Definition layout_code (L : layout) : option N :=
  match filter (fun f => match f with FMsgType _ => true | _ => false end) L with
  | [FMsgType (Some (Some t))] => Some t
  | _ => None
  end.
Definition entry_ok (e : N * string) : bool :=
  match layout_of structs (snd e) with
  | Some L => match layout_code L with Some t => t =? fst e | None => false end
  | None => false
  end.
Fixpoint nodup_N (l : list N) : bool :=
  match l with [] => true | x :: r => negb (existsb (N.eqb x) r) && nodup_N r end.

Lemma requests_ok : forallb entry_ok table_requests = true /\ nodup_N (map fst table_requests) = true.
Proof. vm_compute. split; reflexivity. Qed.
Lemma responses_ok : forallb entry_ok table_responses = true /\ nodup_N (map fst table_responses) = true.
Proof. vm_compute. split; reflexivity. Qed.

(* ---------- consequences ---------- *)
Lemma shipped_in name L : In (name, L) shipped -> wf_layout L = true /\ hdr_gate L = true.
Proof.
  intros H. split.
  - exact (proj1 (forallb_forall _ _) shipped_wf _ H).
  - exact (proj1 (forallb_forall _ _) shipped_gate _ H).
Qed.

(* header bytes of the image do not depend on the field values *)
Lemma image_at_hdr L : forall vs vs' i, (i < 2)%nat ->
  length vs = length L -> length vs' = length L -> forallb span_ok (spans L) = true ->
  image_at L vs i = image_at L vs' i.
Proof.
  induction L as [|f L IH]; intros vs vs' i Hi L1 L2 Fit.
  - destruct vs; [|discriminate L1]. destruct vs'; [|discriminate L2]. reflexivity.
  - destruct vs as [|v vs]; [discriminate L1|]. destruct vs' as [|v' vs']; [discriminate L2|].
    unfold spans in Fit. cbn [collect] in Fit. fold (spans L) in Fit. cbn [image_at].
    assert (image_at L vs i = image_at L vs' i) as IHx.
    { apply IH; [exact Hi|now injection L1|now injection L2|].
      destruct (data_span f); [cbn [forallb] in Fit; now apply andb_prop in Fit as [_ ?]|exact Fit]. }
    destruct f as [tag|tag|k off vtag| |off]; cbn [fspan fbytes].
    + destruct tag as [[t|]|]; rewrite IHx; reflexivity.
    + destruct tag as [[t|]|]; rewrite IHx; reflexivity.
    + cbn [data_span forallb] in Fit. apply andb_prop in Fit as [F _]. unfold span_ok in F. cbn [fst snd] in F.
      apply andb_prop in F as [Lo _]. apply Nat.leb_le in Lo.
      assert (Nat.leb off i = false) as E by (apply Nat.leb_gt; lia).
      rewrite E. cbn [andb].
      destruct (match k with KU8 => match vtag with Some (Some t) => Some [t] | _ => spec_bytes k v end | _ => spec_bytes k v end);
      destruct (match k with KU8 => match vtag with Some (Some t) => Some [t] | _ => spec_bytes k v' end | _ => spec_bytes k v' end);
      exact IHx.
    + exact IHx.
    + exact IHx.
Qed.

Lemma values_length L : forall vs, values_in_domain L vs = true -> length vs = length L.
Proof.
  induction L as [|f L IH]; intros vs H.
  - destruct vs; [reflexivity|discriminate H].
  - destruct vs as [|v vs]; [destruct f; discriminate H|].
    cbn [length]. f_equal. apply IH. destruct f; cbn [values_in_domain] in H; try exact H.
    now apply andb_prop in H as [_ ?].
Qed.

Lemma gate_any_values L vs : wf_layout L = true -> values_in_domain L vs = true -> hdr_gate L = true ->
  som_ok (spec_image L vs) = true.
Proof.
  intros W D G. unfold hdr_gate in G.
  assert (forallb span_ok (spans L) = true) as Fit.
  { unfold wf_layout in W. apply andb_prop in W as [W _]. now apply andb_prop in W as [_ ?]. }
  pose proof (values_length L vs D) as Lv.
  assert (length (dummies L) = length L) as Ld by (unfold dummies; apply map_length).
  unfold spec_image in *. cbn [seq map] in *. unfold som_ok in *. unfold image_byte in *.
  rewrite (image_at_hdr L vs (dummies L) 0%nat) by (auto; lia).
  rewrite (image_at_hdr L vs (dummies L) 1%nat) by (auto; lia). exact G.
Qed.

(* C05: every shipped message type round-trips *)
Theorem shipped_roundtrip : forall name L vs, In (name, L) shipped -> values_in_domain L vs = true ->
  exists m, marshal L vs = Ok m /\ m = spec_image L vs /\ unmarshal L m = Ok (canon_vals L vs).
Proof.
  intros name L vs HIn D. destruct (shipped_in name L HIn) as [W G].
  exists (spec_image L vs). split; [now apply marshal_is_image|]. split; [reflexivity|].
  apply unmarshal_marshal; auto. - now apply marshal_is_image. - now apply gate_any_values.
Qed.

(* ---------- dispatchers ---------- *)
Lemma lookup_code_in t c n : lookup_code t c = Some n -> In (c, n) t.
Proof.
  induction t as [|[k m] t IH]; [discriminate|]. cbn [lookup_code].
  destruct (k =? c) eqn:E; [|intros H; right; now apply IH].
  intros [= ->]. apply N.eqb_eq in E. subst. now left.
Qed.

Definition table_ok (t : list (N * string)) : Prop := forallb entry_ok t = true.

(* success <-> 64 bytes, protocol id 0x17, a registered function code, and the registered type decodes;
   the returned type is the one registered for the function code in the header, and its own MsgType tag is that code *)
Theorem dispatch_spec : forall t buf,
  table_ok t ->
  match dispatch t buf with
  | Ok (n, vs) => length buf = 64%nat /\ nth 0 buf 0 = 0x17 /\ lookup_code t (nth 1 buf 0) = Some n /\
                  unmarshal (msg_layout n) buf = Ok vs /\
                  (exists L, layout_of structs n = Some L /\ layout_code L = Some (nth 1 buf 0))
  | Err => length buf <> 64%nat \/ nth 0 buf 0 <> 0x17 \/ lookup_code t (nth 1 buf 0) = None \/
           (exists n, lookup_code t (nth 1 buf 0) = Some n /\ unmarshal (msg_layout n) buf = Err)
  | Panic => False
  end.
Proof.
  intros t buf T. unfold dispatch.
  destruct (Nat.eqb (length buf) 64) eqn:EL; cbn [negb].
  2:{ left. now apply Nat.eqb_neq. }
  apply Nat.eqb_eq in EL.
  destruct buf as [|b0 [|b1 buf]]; try discriminate EL. cbn [nth].
  destruct (b0 =? 0x17) eqn:E0; cbn [negb].
  2:{ right. left. now apply N.eqb_neq. }
  apply N.eqb_eq in E0.
  destruct (lookup_code t b1) as [n|] eqn:Lk.
  2:{ right. right. now left. }
  pose proof (lookup_code_in t b1 n Lk) as HIn.
  pose proof (proj1 (forallb_forall _ _) T _ HIn) as EO. unfold entry_ok in EO. cbn [fst snd] in EO.
  destruct (layout_of structs n) as [L|] eqn:LO; [|discriminate EO].
  destruct (layout_code L) as [c|] eqn:LC; [|discriminate EO]. apply N.eqb_eq in EO. subst c.
  assert (msg_layout n = L) as ML by (unfold msg_layout; now rewrite LO).
  assert (wf_layout L = true) as W.
  { unfold layout_of in LO. destruct (lookup_struct structs n) as [fs|] eqn:LS; [|discriminate LO]. injection LO as <-.
    assert (In (n, interp_struct structs fs) shipped) as HS.
    { unfold shipped. apply in_map_iff. exists (n, fs). split; [reflexivity|].
      clear - LS. induction structs as [|[m g] r IH]; [discriminate|]. cbn [lookup_struct] in LS.
      destruct (String.eqb m n) eqn:E; [apply String.eqb_eq in E; injection LS as ->; subst; now left|right; now apply IH]. }
    exact (proj1 (shipped_in _ _ HS)). }
  rewrite ML.
  pose proof (unmarshal_total L (b0 :: b1 :: buf) W) as NP.
  destruct (unmarshal L (b0 :: b1 :: buf)) as [vs| |] eqn:U.
  - split; [exact EL|]. split; [exact E0|]. split; [reflexivity|]. split; [rewrite ML; exact U|]. exists L. split; [exact LO|exact LC].
  - right. right. right. exists n. split; [reflexivity|rewrite ML; exact U].
  - now apply NP.
Qed.
