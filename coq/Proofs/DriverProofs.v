(* C08 / C09 on the timed model of the fixed-bind-port protocol. *)
From UV Require Import Base.Bytes Model.Driver.
From Coq Require Import ZifyBool Arith.
Open Scope Z_scope.

Section Fixed.
  Variable T : Z.
  Hypothesis Tpos : 0 < T.

  Definition answers_in_time (c : call) : Prop := exists d, delay c = Some d /\ 0 <= d < T.

  Lemma first_match_single k lo hi d : lo <= at_ d < hi -> dkey d = k -> first_match k lo hi (insert d []) = Some d.
  Proof.
    intros H Hk. cbn. subst k.
    assert ((lo <=? at_ d) && (at_ d <? hi) = true) as -> by lia. now rewrite Nat.eqb_refl.
  Qed.

  (* C08 (model A): with the deadline taken after the lock, every call whose controller answers within T of the request
     being sent gets ITS OWN reply - for any number of calls served in any order, even when it first had to wait its turn *)
  Theorem own_reply : forall cs free_at,
    Forall answers_in_time cs ->
    Forall (fun x => let '(c, r, acq, ret) := x in
                     r = Reply (tag c) /\ (exists d, delay c = Some d /\ ret = acq + d) /\ ret < acq + T)
           (serve T true free_at [] cs).
  Proof.
    induction cs as [|c cs IH]; intros free_at H; cbn [serve]; [constructor|].
    inversion H as [|c' cs' [d [Hd Hr]] Hcs]; subst. rewrite Hd. unfold deadline. cbv zeta.
    set (acq := Z.max (arrive c) free_at).
    set (mine := {| at_ := acq + d; dtag := tag c; dkey := key c |}).
    assert (first_match (key c) acq (acq + T) (insert mine []) = Some mine) as ->.
    { apply first_match_single; cbn; lia. }
    constructor.
    - cbn. split; [reflexivity|]. split; [exists d; auto|lia].
    - cbn [insert filter at_ mine]. rewrite Z.ltb_irrefl. apply IH. exact Hcs.
  Qed.

  (* C09: a call holds the port for at most T and returns no later than acquisition + T, whatever arrives (replies, strays,
     nothing); it never returns before its deadline without an acceptable datagram *)
  Theorem bounded_hold : forall after cs free_at inflight,
    Forall (fun x => let '(c, r, acq, ret) := x in
                     acq <= ret <= Z.max acq (deadline T after c acq) /\ (r = Timeout -> ret = Z.max acq (deadline T after c acq)))
           (serve T after free_at inflight cs).
  Proof.
    intros after cs. induction cs as [|c cs IH]; intros free_at inflight; cbn [serve]; [constructor|].
    set (acq := Z.max (arrive c) free_at). set (dl := deadline T after c acq).
    set (fl := match delay c with Some dly => insert {| at_ := acq + dly; dtag := tag c; dkey := key c |} inflight | None => inflight end).
    destruct (first_match (key c) acq dl fl) as [d|] eqn:F.
    - constructor; [|apply IH]. cbn.
      assert (acq <= at_ d < dl) as Hd.
      { clear - F. induction fl as [|x r IHr]; [discriminate|]. cbn in F.
        destruct ((acq <=? at_ x) && (at_ x <? dl) && Nat.eqb (dkey x) (key c)) eqn:E; [injection F as <-; lia|now apply IHr]. }
      split; [lia|discriminate].
    - constructor; [|apply IH]. cbn. split; [lia|reflexivity].
  Qed.

  (* with the deadline after the lock the hold time is exactly bounded by T *)
  Corollary hold_at_most_T : forall cs free_at inflight,
    Forall (fun x => let '(c, r, acq, ret) := x in acq <= ret <= acq + T) (serve T true free_at inflight cs).
  Proof.
    intros cs free_at inflight. pose proof (bounded_hold true cs free_at inflight) as H.
    eapply Forall_impl; [|exact H]. intros [[[c r] acq] ret] [H1 _]. unfold deadline in H1. lia.
  Qed.
End Fixed.

(* the code before the repair: deadline taken before the lock.  T = 300 ms, the controller answers after 200 ms, three
   calls arrive together: the second and third time out although their controller answers within T of being asked *)
Definition c1 := {| arrive := 0;  delay := Some 200; tag := 1; key := 7 |}.
Definition c2 := {| arrive := 10; delay := Some 200; tag := 2; key := 7 |}.
Definition c3 := {| arrive := 20; delay := Some 200; tag := 3; key := 7 |}.

Theorem own_reply_refuted_before_lock :
  Forall (answers_in_time 300) [c1; c2; c3] /\
  map (fun x => let '(c, r, _, _) := x in r) (serve 300 false 0 [] [c1; c2; c3]) = [Reply 1; Timeout; Timeout] /\
  map (fun x => let '(c, r, _, _) := x in r) (serve 300 true 0 [] [c1; c2; c3]) = [Reply 1; Reply 2; Reply 3].
Proof.
  split; [repeat constructor; eexists; (split; [reflexivity|lia])|]. split; vm_compute; reflexivity.
Qed.

(* C09: every driver call returns its resources - after any sequence of calls, successful or not, the process holds no more
   sockets or goroutines than before *)
Theorem resources_balanced : forall (calls : list (dcall * bool)) s g,
  balance (flat_map (fun x => footprint (fst x) (snd x)) calls) s g = (s, g).
Proof.
  induction calls as [|[d opened] calls IH]; intros s g; [reflexivity|]. cbn [flat_map fst snd].
  destruct opened; [|apply IH].
  destruct d; cbn [footprint negb app balance]; rewrite IH; f_equal; lia.
Qed.
