(* Generic codec theorems: for EVERY well-formed layout (not only the shipped messages). *)
From UV Require Import Base.Bytes Model.BCD Model.WireTypes Model.Codec Model.Interp Model.Cases18
  Spec.WireSpec Spec.CodecSpec Proofs.WireProofs.
From Coq Require Import ZifyN ZifyNat ZifyBool Arith.
Open Scope N_scope.

(* ---------- buffers ---------- *)
Lemma nth_skipn (l : list N) n i : nth i (skipn n l) 0 = nth (n + i) l 0.
Proof.
  revert l. induction n as [|n IH]; intros l; [reflexivity|].
  destruct l as [|x l]; cbn [skipn Nat.add nth]; [destruct i; reflexivity|]. apply IH.
Qed.

Lemma nth_firstn (l : list N) n i : nth i (firstn n l) 0 = if Nat.ltb i n then nth i l 0 else 0.
Proof.
  revert l i. induction n as [|n IH]; intros l i.
  - cbn [firstn]. destruct i; reflexivity.
  - destruct l as [|x l]; cbn [firstn].
    + destruct i; cbn [nth]; destruct (Nat.ltb _ _); reflexivity.
    + destruct i as [|i]; [reflexivity|]. cbn [nth]. rewrite IH. reflexivity.
Qed.

Lemma write_at_length buf off bs : (off + length bs <= length buf)%nat -> length (write_at buf off bs) = length buf.
Proof.
  intros H. unfold write_at. rewrite !app_length, firstn_length, skipn_length. lia.
Qed.

Lemma nth_write_at buf off bs i : (off + length bs <= length buf)%nat ->
  nth i (write_at buf off bs) 0 =
  if Nat.leb off i && Nat.ltb i (off + length bs) then nth (i - off) bs 0 else nth i buf 0.
Proof.
  intros H. unfold write_at.
  assert (length (firstn off buf) = off) as Lf by (rewrite firstn_length; lia).
  destruct (Nat.leb off i) eqn:E1; cbn [andb].
  - apply Nat.leb_le in E1. rewrite app_nth2 by lia. rewrite Lf.
    destruct (Nat.ltb i (off + length bs)) eqn:E2.
    + apply Nat.ltb_lt in E2. rewrite app_nth1 by lia. reflexivity.
    + apply Nat.ltb_ge in E2. rewrite app_nth2 by lia. rewrite nth_skipn. f_equal. lia.
  - apply Nat.leb_gt in E1. rewrite app_nth1 by lia. rewrite nth_firstn.
    assert (Nat.ltb i off = true) as -> by (apply Nat.ltb_lt; lia). reflexivity.
Qed.

Lemma nth_map_seq (g : nat -> N) w n : (n < w)%nat -> nth n (map g (seq 0 w)) 0 = g n.
Proof.
  intros H. rewrite (nth_indep (map g (seq 0 w)) 0 (g 0%nat)) by (rewrite map_length, seq_length; exact H).
  rewrite map_nth, seq_nth by exact H. reflexivity.
Qed.

Lemma sub_nth buf off w : (off + w <= length buf)%nat ->
  sub buf off w = map (fun j => nth (off + j) buf 0) (seq 0 w).
Proof.
  intros H. unfold sub. apply nth_ext with (d := 0) (d' := 0).
  - rewrite map_length, seq_length, firstn_length, skipn_length. lia.
  - intros n Hn. rewrite firstn_length, skipn_length in Hn.
    rewrite nth_firstn. assert (Nat.ltb n w = true) as -> by (apply Nat.ltb_lt; lia).
    rewrite nth_skipn.
    rewrite nth_map_seq by lia. reflexivity.
Qed.

Lemma list_eq_nth (a b : list N) : length a = length b -> (forall i, (i < length a)%nat -> nth i a 0 = nth i b 0) -> a = b.
Proof. intros L H. apply nth_ext with (d := 0) (d' := 0); assumption. Qed.

(* ---------- what marshal_field does to the buffer, pointwise ---------- *)
Definition covers (s : nat * nat) (i : nat) : bool := Nat.leb (fst s) i && Nat.ltb i (fst s + snd s).

(* a field is "good" for a value: supported, its span fits, and the value is in the field's domain *)
Definition field_fits (f : field) : bool :=
  match f with FData k off _ => Nat.leb 2 off && Nat.leb (off + width k) 64 | _ => true end.
Definition value_ok (f : field) (v : fval) : bool :=
  match f with FData k _ _ => in_domain k v | _ => true end.

Lemma fbytes_length f v bs s : field_supported f = true -> value_ok f v = true ->
  fspan f = Some s -> fbytes f v = Some bs -> length bs = snd s.
Proof.
  intros Hs Hv Hsp Hb. destruct f as [tag|tag|k off vtag| |off]; cbn in Hsp; try discriminate Hsp; injection Hsp as <-.
  - destruct tag as [[t|]|]; cbn in Hb; try discriminate Hb. now injection Hb as <-.
  - destruct tag as [[t|]|]; cbn in Hb; try discriminate Hb. now injection Hb as <-.
  - cbn [snd]. cbn [value_ok] in Hv.
    destruct k; try (cbn [fbytes] in Hb; eapply spec_bytes_length; eassumption).
    destruct vtag as [[t|]|]; cbn [fbytes] in Hb.
    + now injection Hb as <-.
    + discriminate Hs.
    + eapply spec_bytes_length; eassumption.
Qed.

(* one field: the new buffer is the old one with the field's bytes written over its span (if it writes) *)
Lemma marshal_field_spec f v buf :
  length buf = 64%nat -> field_supported f = true -> field_fits f = true -> value_ok f v = true ->
  exists m, marshal_field f v buf = Ok m /\ length m = 64%nat /\
    forall i, nth i m 0 =
      match fspan f, fbytes f v with
      | Some s, Some bs => if covers s i then nth (i - fst s) bs 0 else nth i buf 0
      | _, _ => nth i buf 0
      end.
Proof.
  intros L Hs Hf Hv.
  destruct f as [tag|tag|k off vtag| |off]; try discriminate Hs.
  - (* MsgType *)
    destruct tag as [[t|]|]; try discriminate Hs. cbn [marshal_field hdr_byte obind].
    exists (set_nth buf 1 t). unfold set_nth. split; [reflexivity|]. split.
    + rewrite write_at_length; [exact L | cbn; lia].
    + intros i. rewrite nth_write_at by (cbn; lia). cbn [fspan fbytes covers fst snd length]. reflexivity.
  - (* SOM *)
    destruct tag as [[t|]|]; try discriminate Hs. cbn [marshal_field hdr_byte obind].
    exists (set_nth buf 0 t). unfold set_nth. split; [reflexivity|]. split.
    + rewrite write_at_length; [exact L | cbn; lia].
    + intros i. rewrite nth_write_at by (cbn; lia). cbn [fspan fbytes covers fst snd length]. reflexivity.
  - (* data *)
    cbn [field_fits] in Hf. apply andb_prop in Hf as [Hlo Hhi]. apply Nat.leb_le in Hlo, Hhi.
    cbn [value_ok] in Hv. cbn [marshal_field fspan].
    assert (forall bs', length bs' = width k ->
            exists m, copy_at buf off (width k) bs' = Ok m /\ length m = 64%nat /\
              forall i, nth i m 0 = if covers (off, width k) i then nth (i - off) bs' 0 else nth i buf 0) as Copy.
    { intros bs' Lb. unfold copy_at. rewrite L.
      assert (Nat.leb (off + width k) 64 = true) as -> by (apply Nat.leb_le; lia).
      rewrite (firstn_exact bs' _ Lb).
      exists (write_at buf off bs'). split; [reflexivity|]. split.
      - rewrite write_at_length; lia.
      - intros i. rewrite nth_write_at by lia. unfold covers. cbn [fst snd]. rewrite Lb. reflexivity. }
    destruct (match k, vtag with KU8, Some (Some t) => Some t | _, _ => None end) as [t|] eqn:Tag.
    + (* fixed byte *)
      destruct k; try discriminate Tag. destruct vtag as [[t'|]|]; try discriminate Tag. injection Tag as ->.
      destruct v; cbn [value_ok in_domain] in Hv; try discriminate Hv.
      cbn [enc fbytes]. destruct (Copy [t] eq_refl) as (m & E & Lm & Hn).
      exists m. split; [exact E|]. split; [exact Lm|]. exact Hn.
    + assert (enc k vtag v = enc k None v /\ fbytes (FData k off vtag) v = spec_bytes k v) as [-> ->].
      { destruct k; try (split; reflexivity). destruct vtag as [[t|]|]; try discriminate Tag; try discriminate Hs.
        split; reflexivity. }
      pose proof (enc_spec k v Hv) as M. unfold enc_matches in M.
      destruct (spec_bytes k v) as [bs|] eqn:S.
      * destruct M as (bs' & -> & F & Lb).
        assert (copy_at buf off (width k) bs' = copy_at buf off (width k) bs) as ->.
        { unfold copy_at. rewrite F. now rewrite (firstn_exact bs _ Lb). }
        destruct (Copy bs Lb) as (m & E & Lm & Hn). exists m. split; [exact E|]. split; [exact Lm|]. exact Hn.
      * rewrite M. exists buf. split; [reflexivity|]. split; [exact L|]. reflexivity.
  - (* skip *) exists buf. split; [reflexivity|]. split; [exact L|]. reflexivity.
Qed.

(* ---------- disjointness bookkeeping ---------- *)
Lemma covers_disjoint a b i : spans_disjoint a b = true -> covers a i = true -> covers b i = false.
Proof. unfold spans_disjoint, covers. destruct a, b; cbn [fst snd]. lia. Qed.

Fixpoint fields_ok (L : layout) (vs : list fval) : bool :=
  match L, vs with
  | [], [] => true
  | f :: L', v :: vs' => field_supported f && field_fits f && value_ok f v && fields_ok L' vs'
  | _, _ => false
  end.

(* no field of L covers i *)
Lemma image_at_none L : forall vs i s,
  forallb (spans_disjoint s) (all_spans L) = true -> covers s i = true -> image_at L vs i = None.
Proof.
  induction L as [|f L IH]; intros vs i s D C; [reflexivity|].
  destruct vs as [|v vs]; [reflexivity|]. cbn [image_at].
  unfold all_spans in D. cbn [collect] in D. fold (all_spans L) in D.
  destruct (fspan f) as [[off w]|] eqn:Sp.
  - cbn [forallb] in D. apply andb_prop in D as [D1 D2].
    pose proof (covers_disjoint _ _ i D1 C) as NC. unfold covers in NC. cbn [fst snd] in NC.
    destruct (fbytes f v); [rewrite NC|]; now apply IH with (s := s).
  - destruct (fbytes f v); now apply IH with (s := s).
Qed.

(* the buffer after marshalling all fields: first-match image over the initial buffer *)
Lemma marshal_fields_spec L : forall vs buf,
  length buf = 64%nat -> fields_ok L vs = true -> pairwise_disjoint (all_spans L) = true ->
  exists m, marshal_fields L vs buf = Ok m /\ length m = 64%nat /\
    forall i, nth i m 0 = match image_at L vs i with Some x => x | None => nth i buf 0 end.
Proof.
  induction L as [|f L IH]; intros vs buf Lb OK PD.
  - destruct vs; [|discriminate OK]. exists buf. split; [reflexivity|]. split; [exact Lb|]. reflexivity.
  - destruct vs as [|v vs]; [discriminate OK|]. cbn [fields_ok] in OK.
    apply andb_prop in OK as [OK OKr]. apply andb_prop in OK as [OK Hv]. apply andb_prop in OK as [Hs Hf].
    destruct (marshal_field_spec f v buf Lb Hs Hf Hv) as (m1 & E1 & L1 & N1).
    unfold all_spans in PD. cbn [collect] in PD. fold (all_spans L) in PD.
    assert (pairwise_disjoint (all_spans L) = true /\
            forall s, fspan f = Some s -> forallb (spans_disjoint s) (all_spans L) = true) as [PD' Dis].
    { destruct (fspan f) as [s|].
      - cbn [pairwise_disjoint] in PD. apply andb_prop in PD as [D P]. split; [exact P|]. intros s' [= <-]. exact D.
      - split; [exact PD|]. discriminate. }
    destruct (IH vs m1 L1 OKr PD') as (m & E & Lm & Nm).
    exists m. cbn [marshal_fields]. rewrite E1. cbn [obind]. split; [exact E|]. split; [exact Lm|].
    intros i. rewrite Nm. cbn [image_at]. rewrite N1.
    destruct (fspan f) as [[off w]|] eqn:Sp; [|reflexivity].
    destruct (fbytes f v) as [bs|] eqn:Fb; [|reflexivity].
    pose proof (fbytes_length f v bs (off, w) Hs Hv Sp Fb) as Lbs. cbn [snd] in Lbs.
    unfold covers. cbn [fst snd].
    destruct (Nat.leb off i && Nat.ltb i (off + w)) eqn:C.
    + rewrite (image_at_none L vs i (off, w) (Dis _ eq_refl) C). reflexivity.
    + reflexivity.
Qed.

Lemma wf_fields_ok L vs : wf_layout L = true -> values_in_domain L vs = true -> fields_ok L vs = true.
Proof.
  unfold wf_layout. intros W. apply andb_prop in W as [W _]. apply andb_prop in W as [Sup Fit].
  revert vs Sup Fit. induction L as [|f L IH]; intros vs Sup Fit D.
  - destruct vs; [reflexivity|discriminate D].
  - destruct vs as [|v vs]; [destruct f; discriminate D|].
    cbn [forallb] in Sup. apply andb_prop in Sup as [S1 S2]. cbn [fields_ok]. rewrite S1.
    unfold spans in Fit. cbn [collect] in Fit. fold (spans L) in Fit.
    destruct f as [tag|tag|k off vtag| |off]; cbn [data_span] in Fit; cbn [values_in_domain] in D;
      cbn [field_fits value_ok andb].
    + apply IH; assumption.
    + apply IH; assumption.
    + cbn [forallb] in Fit. apply andb_prop in Fit as [F1 F2]. unfold span_ok in F1. cbn [fst snd] in F1.
      apply andb_prop in D as [D1 D2]. rewrite F1, D1. cbn [andb]. apply IH; assumption.
    + apply IH; assumption.
    + discriminate S1.
Qed.

(* C18: encoding writes exactly each field's bytes at its declared offset and zero elsewhere, and does not panic *)
Theorem marshal_is_image : forall L vs,
  wf_layout L = true -> values_in_domain L vs = true -> marshal L vs = Ok (spec_image L vs).
Proof.
  intros L vs W D. pose proof (wf_fields_ok L vs W D) as OK.
  assert (pairwise_disjoint (all_spans L) = true) as PD by (unfold wf_layout in W; now apply andb_prop in W as [_ ?]).
  unfold marshal.
  destruct (marshal_fields_spec L vs (0x17 :: repeat 0 63) eq_refl OK PD) as (m & E & Lm & Nm).
  rewrite E. f_equal. apply list_eq_nth.
  - unfold spec_image. rewrite map_length, seq_length. exact Lm.
  - intros i Hi. rewrite Lm in Hi. rewrite Nm. unfold spec_image.
    rewrite nth_map_seq by lia. unfold image_byte.
    destruct (image_at L vs i); [reflexivity|].
    destruct i as [|i]; [reflexivity|]. cbn [nth]. apply nth_repeat.
Qed.

(* ---------- decoding: for every buffer, the model's verdict is the protocol's ---------- *)

(* one data field, in terms of the per-kind decoding lemma *)
Lemma unmarshal_field_data k off vtag buf :
  length buf = 64%nat -> field_supported (FData k off vtag) = true -> (off + width k <= 64)%nat ->
  match field_result (FData k off vtag) buf with
  | Some (k', r) =>
      k' = k /\
      match unmarshal_field (FData k off vtag) buf with
      | Ok v => field_admits k r (Some v) = true
      | Err => match r with DVal _ => False | _ => True end
      | Panic => False
      end
  | None => False
  end.
Proof.
  intros L Hs Hfit. cbn [unmarshal_field]. rewrite L.
  assert (Nat.leb (off + width k) 64 = true) as -> by (apply Nat.leb_le; lia).
  assert (length (sub buf off (width k)) = width k) as Lsub.
  { unfold sub. rewrite firstn_length, skipn_length. lia. }
  set (b := sub buf off (width k)) in *.
  destruct (match k, vtag with KU8, Some (Some t) => Some t | _, _ => None end) as [t|] eqn:Tag.
  - destruct k; try discriminate Tag. destruct vtag as [[t'|]|]; try discriminate Tag. injection Tag as ->.
    cbn [field_result]. fold b. cbn [width] in Lsub.
    destruct b as [|x [|? ?]]; try discriminate Lsub.
    split; [reflexivity|]. cbn [dec]. destruct (x =? t); cbn [field_admits]; [apply N.eqb_refl|exact I].
  - assert (field_result (FData k off vtag) buf = Some (k, spec_dec k b) /\ dec k vtag b = dec k None b) as [-> ->].
    { destruct k; destruct vtag as [[t|]|]; try discriminate Tag; try discriminate Hs; split; reflexivity. }
    split; [reflexivity|].
    pose proof (dec_agrees_all k b Lsub) as A.
    destruct (spec_dec k b) as [w| |] eqn:S; destruct (dec k None b) as [[v'|]| |]; cbn [dec_agrees] in A;
      try discriminate A; cbn [field_admits]; try exact I; try exact A.
    + (* DFail, Ok None *) unfold no_value. now rewrite fval_eqb_refl.
    + (* DNone, Ok None *) unfold no_value. now rewrite fval_eqb_refl.
Qed.

Lemma msgtypes_match_cons f L buf :
  msgtypes_match (f :: L) buf =
  (match f with FMsgType (Some (Some t)) => nth 1 buf 0 =? t | _ => true end) && msgtypes_match L buf.
Proof. reflexivity. Qed.

Lemma all_fields_decode_cons f L buf :
  all_fields_decode (f :: L) buf =
  (match field_result f buf with Some (_, DVal _) => true | Some _ => false | None => true end) && all_fields_decode L buf.
Proof. reflexivity. Qed.

Lemma unmarshal_fields_spec L : forall buf,
  length buf = 64%nat -> forallb field_supported L = true -> forallb span_ok (spans L) = true ->
  match unmarshal_fields L buf with
  | Ok vs => fields_admit L buf vs = true /\ msgtypes_match L buf = true
  | Err => all_fields_decode L buf = false \/ msgtypes_match L buf = false
  | Panic => False
  end.
Proof.
  induction L as [|f L IH]; intros buf Lb Sup Fit.
  - cbn. split; reflexivity.
  - cbn [forallb] in Sup. apply andb_prop in Sup as [S1 S2].
    unfold spans in Fit. cbn [collect] in Fit. fold (spans L) in Fit.
    cbn [unmarshal_fields].
    destruct f as [tag|tag|k off vtag| |off]; try discriminate S1.
    + (* MsgType *)
      destruct tag as [[t|]|]; try discriminate S1. cbn [unmarshal_field].
      destruct buf as [|b0 [|b1 buf']]; try discriminate Lb. cbn [nth_error].
      specialize (IH (b0 :: b1 :: buf') Lb S2 Fit).
      destruct (b1 =? t) eqn:E; cbn [obind].
      * destruct (unmarshal_fields L (b0 :: b1 :: buf')) as [vs| |]; cbn [obind].
        -- destruct IH as [A M]. cbn [fields_admit field_result]. rewrite msgtypes_match_cons. cbn [nth]. rewrite E, A, M.
           split; [|reflexivity]. now rewrite fval_eqb_refl.
        -- rewrite all_fields_decode_cons, msgtypes_match_cons. cbn [field_result nth andb]. rewrite E. exact IH.
        -- exact IH.
      * right. rewrite msgtypes_match_cons. cbn [nth]. now rewrite E.
    + (* SOM *)
      cbn [unmarshal_field obind]. specialize (IH buf Lb S2 Fit).
      destruct (unmarshal_fields L buf) as [vs| |]; cbn [obind].
      * destruct IH as [A M]. cbn [fields_admit field_result]. rewrite msgtypes_match_cons. rewrite A, M. split; reflexivity.
      * rewrite all_fields_decode_cons, msgtypes_match_cons. cbn [field_result andb]. exact IH.
      * exact IH.
    + (* data *)
      cbn [data_span forallb] in Fit. apply andb_prop in Fit as [F1 F2]. unfold span_ok in F1. cbn [fst snd] in F1.
      apply andb_prop in F1 as [_ Fhi]. apply Nat.leb_le in Fhi.
      pose proof (unmarshal_field_data k off vtag buf Lb S1 Fhi) as FD.
      specialize (IH buf Lb S2 F2).
      destruct (field_result (FData k off vtag) buf) as [[k' r]|] eqn:FR; [|contradiction].
      destruct FD as [-> FD].
      destruct (unmarshal_field (FData k off vtag) buf) as [v| |]; cbn [obind]; [| |contradiction].
      * destruct (unmarshal_fields L buf) as [vs| |]; cbn [obind].
        -- destruct IH as [A M]. cbn [fields_admit]. rewrite msgtypes_match_cons. rewrite FR, FD, A, M. split; reflexivity.
        -- rewrite all_fields_decode_cons, msgtypes_match_cons. rewrite FR. cbn [andb].
           destruct IH as [IH|IH]; [left|right; exact IH].
           destruct r; [exact IH|reflexivity|reflexivity].
        -- exact IH.
      * left. rewrite all_fields_decode_cons. rewrite FR. destruct r; [contradiction|reflexivity|reflexivity].
    + (* skip *)
      cbn [unmarshal_field obind]. specialize (IH buf Lb S2 Fit).
      destruct (unmarshal_fields L buf) as [vs| |]; cbn [obind].
      * destruct IH as [A M]. cbn [fields_admit field_result]. rewrite msgtypes_match_cons. rewrite A, M. split; reflexivity.
      * rewrite all_fields_decode_cons, msgtypes_match_cons. cbn [field_result andb]. exact IH.
      * exact IH.
Qed.

(* C18/C05/C02/C04: for EVERY byte string (any length, any content) decoding a well-formed layout never panics and
   its verdict is the protocol's: it fails only if the header or some field is outside its domain, and every value
   it returns is the protocol decoding of that field's bytes (or the field's 'no value') *)
Theorem unmarshal_admitted : forall L buf, wf_layout L = true -> spec_unmarshal_admits L buf (unmarshal L buf) = true.
Proof.
  intros L buf W. unfold wf_layout in W. apply andb_prop in W as [W _]. apply andb_prop in W as [Sup Fit].
  unfold unmarshal, spec_unmarshal_admits, header_ok.
  destruct (Nat.eqb (length buf) 64) eqn:EL; cbn [negb andb]; [|reflexivity].
  destruct (som_ok buf) eqn:SO; cbn [negb andb]; [|reflexivity].
  apply Nat.eqb_eq in EL.
  pose proof (unmarshal_fields_spec L buf EL Sup Fit) as H.
  destruct (unmarshal_fields L buf) as [vs| |].
  - destruct H as [A M]. now rewrite M, A.
  - destruct H as [H|H]; rewrite H; [apply orb_true_r|reflexivity].
  - contradiction.
Qed.

Corollary unmarshal_total : forall L buf, wf_layout L = true -> unmarshal L buf <> Panic.
Proof.
  intros L buf W E. pose proof (unmarshal_admitted L buf W) as H. rewrite E in H. discriminate H.
Qed.

Corollary marshal_total : forall L vs, wf_layout L = true -> values_in_domain L vs = true -> marshal L vs <> Panic.
Proof. intros L vs W D. now rewrite marshal_is_image. Qed.

(* ---------- round trip: decoding the image of in-domain values returns them ---------- *)
Definition canon_field (f : field) (v : fval) : fval :=
  match f with
  | FSOM _ => VN 0
  | FMsgType (Some (Some t)) => VN t
  | FData KU8 _ (Some (Some t)) => VN t
  | FData k _ _ => canon k v
  | _ => VNil
  end.

Fixpoint canon_vals (L : layout) (vs : list fval) : list fval :=
  match L, vs with
  | f :: L', v :: vs' => canon_field f v :: canon_vals L' vs'
  | _, _ => []
  end.

Lemma in_combine_span L : forall (vs : list fval) f v s,
  In (f, v) (combine L vs) -> fspan f = Some s -> In s (all_spans L).
Proof.
  induction L as [|g L IH]; intros vs f v s HIn Sp; [contradiction|].
  destruct vs as [|w vs]; [contradiction|]. cbn [combine] in HIn.
  unfold all_spans. cbn [collect]. fold (all_spans L).
  destruct HIn as [E|HIn].
  - injection E as -> ->. rewrite Sp. now left.
  - destruct (fspan g); [right|]; eapply IH; eassumption.
Qed.

(* inside the span of a field of the layout, the image is that field's bytes (or untouched when it writes nothing) *)
Lemma image_at_field L : forall (vs : list fval) f v off w i,
  pairwise_disjoint (all_spans L) = true -> In (f, v) (combine L vs) -> fspan f = Some (off, w) ->
  covers (off, w) i = true ->
  image_at L vs i = match fbytes f v with Some bs => Some (nth (i - off) bs 0) | None => None end.
Proof.
  induction L as [|g L IH]; intros vs f v off w i PD HIn Sp C; [contradiction|].
  destruct vs as [|x vs]; [contradiction|]. cbn [combine] in HIn.
  unfold all_spans in PD. cbn [collect] in PD. fold (all_spans L) in PD. cbn [image_at].
  destruct HIn as [E|HIn].
  - injection E as -> ->. rewrite Sp in *. cbn [pairwise_disjoint] in PD. apply andb_prop in PD as [D _].
    destruct (fbytes f v) as [bs|].
    + unfold covers in C. cbn [fst snd] in C. now rewrite C.
    + now apply image_at_none with (s := (off, w)).
  - destruct (fspan g) as [[o' w']|] eqn:Sg.
    + cbn [pairwise_disjoint] in PD. apply andb_prop in PD as [D PD'].
      pose proof (in_combine_span L vs f v (off, w) HIn Sp) as InS.
      pose proof (proj1 (forallb_forall _ _) D _ InS) as Dis.
      assert (covers (o', w') i = false) as NC.
      { destruct (covers (o', w') i) eqn:Cg; [|reflexivity].
        pose proof (covers_disjoint _ _ i Dis Cg) as X. congruence. }
      unfold covers in NC. cbn [fst snd] in NC.
      destruct (fbytes g x); [rewrite NC|]; now apply IH with (w := w).
    + destruct (fbytes g x); now apply IH with (w := w).
Qed.

Lemma unmarshal_fields_forall2 L buf ws :
  Forall2 (fun f w => unmarshal_field f buf = Ok w) L ws -> unmarshal_fields L buf = Ok ws.
Proof.
  induction 1 as [|f w L ws H _ IH]; [reflexivity|]. cbn [unmarshal_fields]. now rewrite H, IH.
Qed.

Lemma image_length L vs : length (spec_image L vs) = 64%nat.
Proof. unfold spec_image. now rewrite map_length, seq_length. Qed.

Lemma nth_image L vs i : (i < 64)%nat -> nth i (spec_image L vs) 0 = image_byte L vs i.
Proof. intros H. unfold spec_image. now rewrite nth_map_seq. Qed.

(* decoding one field of the image *)
Lemma unmarshal_field_image L vs f v :
  pairwise_disjoint (all_spans L) = true -> In (f, v) (combine L vs) ->
  field_supported f = true -> field_fits f = true -> value_ok f v = true ->
  unmarshal_field f (spec_image L vs) = Ok (canon_field f v).
Proof.
  intros PD HIn Hs Hf Hv.
  destruct f as [tag|tag|k off vtag| |off]; try discriminate Hs.
  - (* MsgType *) destruct tag as [[t|]|]; try discriminate Hs. cbn [unmarshal_field canon_field].
    assert (nth_error (spec_image L vs) 1 = Some t) as ->.
    { assert (nth 1 (spec_image L vs) 0 = t) as Hn.
      { rewrite nth_image by lia. unfold image_byte.
        rewrite (image_at_field L vs _ _ 1%nat 1%nat 1%nat PD HIn eq_refl eq_refl). reflexivity. }
      rewrite <- Hn. apply nth_error_nth'. rewrite image_length. lia. }
    now rewrite N.eqb_refl.
  - (* SOM *) reflexivity.
  - (* data *)
    cbn [field_fits] in Hf. apply andb_prop in Hf as [Hlo Hhi]. apply Nat.leb_le in Hlo, Hhi. cbn [value_ok] in Hv.
    cbn [unmarshal_field]. rewrite image_length.
    assert (Nat.leb (off + width k) 64 = true) as -> by (apply Nat.leb_le; lia).
    assert (forall bsf, (match fbytes (FData k off vtag) v with Some bs => bs | None => repeat 0 (width k) end) = bsf ->
            length bsf = width k -> sub (spec_image L vs) off (width k) = bsf) as Sub.
    { intros bsf Eb Lb. rewrite sub_nth by (rewrite image_length; lia).
      apply list_eq_nth; [rewrite map_length, seq_length; now rewrite Lb|].
      intros j Hj. rewrite map_length, seq_length in Hj. rewrite nth_map_seq by exact Hj.
      rewrite nth_image by lia. unfold image_byte.
      rewrite (image_at_field L vs _ _ off (width k) (off + j)%nat PD HIn eq_refl)
        by (unfold covers; cbn [fst snd]; apply andb_true_intro; split; [apply Nat.leb_le|apply Nat.ltb_lt]; lia).
      replace (off + j - off)%nat with j by lia. rewrite <- Eb.
      destruct (fbytes (FData k off vtag) v) as [bs|]; [reflexivity|].
      destruct (off + j)%nat as [|n] eqn:E; [lia|]. symmetry. apply nth_repeat. }
    destruct (match k, vtag with KU8, Some (Some t) => Some t | _, _ => None end) as [t|] eqn:Tag.
    + destruct k; try discriminate Tag. destruct vtag as [[t'|]|]; try discriminate Tag. injection Tag as ->.
      rewrite (Sub [t] eq_refl eq_refl). cbn [dec canon_field]. now rewrite N.eqb_refl.
    + assert (fbytes (FData k off vtag) v = spec_bytes k v /\ canon_field (FData k off vtag) v = canon k v
              /\ forall b, dec k vtag b = dec k None b) as (Eb & -> & Ed).
      { destruct k; destruct vtag as [[t|]|]; try discriminate Tag; try discriminate Hs; repeat split; reflexivity. }
      rewrite Eb in Sub. rewrite (Sub (field_image k v) eq_refl (field_image_length k v Hv)). rewrite Ed.
      pose proof (decv_roundtrip k v Hv) as R. unfold decv in R.
      destruct (dec k None (field_image k v)) as [[w|]| |]; try discriminate R; exact R.
  - (* skip *) reflexivity.
Qed.

Lemma forall2_combine (P : field -> fval -> Prop) (g : field -> fval -> fval) (Q : field -> fval -> Prop) :
  (forall f v, P f v -> Q f (g f v)) ->
  forall L vs, length L = length vs -> (forall f v, In (f, v) (combine L vs) -> P f v) ->
  Forall2 Q L ((fix cv (L : layout) (vs : list fval) := match L, vs with f :: L', v :: vs' => g f v :: cv L' vs' | _, _ => [] end) L vs).
Proof.
  intros HPQ. induction L as [|f L IH]; intros vs Len H.
  - constructor.
  - destruct vs as [|v vs]; [discriminate Len|]. constructor.
    + apply HPQ, H. now left.
    + apply IH; [now injection Len|]. intros f' v' HIn. apply H. now right.
Qed.

Lemma fields_ok_in L : forall (vs : list fval) f v, fields_ok L vs = true -> In (f, v) (combine L vs) ->
  field_supported f = true /\ field_fits f = true /\ value_ok f v = true.
Proof.
  induction L as [|g L IH]; intros vs f v OK HIn; [contradiction|].
  destruct vs as [|x vs]; [contradiction|]. cbn [fields_ok] in OK.
  apply andb_prop in OK as [OK OKr]. apply andb_prop in OK as [OK Hv]. apply andb_prop in OK as [Hs Hf].
  destruct HIn as [E|HIn]; [injection E as -> ->; auto|]. eapply IH; eassumption.
Qed.

Lemma fields_ok_length L : forall vs, fields_ok L vs = true -> length L = length vs.
Proof.
  induction L as [|g L IH]; intros [|x vs] OK; try discriminate OK; [reflexivity|].
  cbn [fields_ok] in OK. apply andb_prop in OK as [_ OKr]. cbn [length]. f_equal. now apply IH.
Qed.

(* C18/C05: decoding the encoding yields the encoded values *)
Theorem unmarshal_marshal : forall L vs m,
  wf_layout L = true -> values_in_domain L vs = true -> marshal L vs = Ok m -> som_ok m = true ->
  unmarshal L m = Ok (canon_vals L vs).
Proof.
  intros L vs m W D EM SO. rewrite marshal_is_image in EM by assumption. injection EM as <-.
  pose proof (wf_fields_ok L vs W D) as OK.
  assert (pairwise_disjoint (all_spans L) = true) as PD by (unfold wf_layout in W; now apply andb_prop in W as [_ ?]).
  unfold unmarshal. rewrite image_length, SO. cbn [Nat.eqb negb].
  apply unmarshal_fields_forall2.
  apply (forall2_combine (fun f v => In (f, v) (combine L vs)) canon_field
           (fun f w => unmarshal_field f (spec_image L vs) = Ok w)).
  - intros f v HIn. destruct (fields_ok_in L vs f v OK HIn) as (Hs & Hf & Hv).
    now apply unmarshal_field_image.
  - now apply fields_ok_length.
  - auto.
Qed.

(* distinct (canonical) values never share an encoding *)
Corollary marshal_injective : forall L vs1 vs2 m,
  wf_layout L = true -> values_in_domain L vs1 = true -> values_in_domain L vs2 = true ->
  marshal L vs1 = Ok m -> marshal L vs2 = Ok m -> som_ok m = true ->
  canon_vals L vs1 = canon_vals L vs2.
Proof.
  intros L vs1 vs2 m W D1 D2 E1 E2 SO.
  pose proof (unmarshal_marshal L vs1 m W D1 E1 SO) as U1.
  pose proof (unmarshal_marshal L vs2 m W D2 E2 SO) as U2. congruence.
Qed.

(* ---------- frame: the decoded value depends only on the header bytes and the bytes of the layout's fields ---------- *)
Definition relevant (L : layout) (i : nat) : bool := Nat.ltb i 2 || existsb (fun s => covers s i) (spans L).

Lemma unmarshal_field_frame f b b' :
  length b = 64%nat -> length b' = 64%nat ->
  (forall i, (Nat.ltb i 2 || match data_span f with Some s => covers s i | None => false end) = true -> nth i b 0 = nth i b' 0) ->
  unmarshal_field f b = unmarshal_field f b'.
Proof.
  intros L1 L2 H. destruct f as [tag|tag|k off vtag| |off]; try reflexivity.
  - cbn [unmarshal_field]. destruct tag as [[t|]|]; try reflexivity;
    destruct b as [|x0 [|x1 b]]; try discriminate L1; destruct b' as [|y0 [|y1 b']]; try discriminate L2;
    cbn [nth_error]; pose proof (H 1%nat eq_refl) as E; cbn [nth] in E; now rewrite E.
  - cbn [unmarshal_field]. rewrite L1, L2.
    destruct (Nat.leb (off + width k) 64) eqn:Fit; [|reflexivity]. apply Nat.leb_le in Fit.
    assert (sub b off (width k) = sub b' off (width k)) as ->; [|reflexivity].
    rewrite !sub_nth by lia. apply map_ext_in. intros j Hj. apply in_seq in Hj.
    apply H. cbn [data_span]. unfold covers. cbn [fst snd].
    assert (Nat.leb off (off + j) = true) as -> by (apply Nat.leb_le; lia).
    assert (Nat.ltb (off + j) (off + width k) = true) as -> by (apply Nat.ltb_lt; lia).
    apply orb_true_r.
Qed.

Theorem unmarshal_frame : forall L b b',
  length b = length b' -> (forall i, relevant L i = true -> nth i b 0 = nth i b' 0) ->
  unmarshal L b = unmarshal L b'.
Proof.
  intros L b b' Len H. unfold unmarshal. rewrite <- Len.
  destruct (Nat.eqb (length b) 64) eqn:E64; cbn [negb]; [|reflexivity]. apply Nat.eqb_eq in E64.
  assert (length b' = 64%nat) as E64' by congruence.
  assert (som_ok b = som_ok b') as ->.
  { destruct b as [|x0 [|x1 b]]; try discriminate E64. destruct b' as [|y0 [|y1 b']]; try discriminate E64'.
    pose proof (H 0%nat eq_refl) as E0. pose proof (H 1%nat eq_refl) as E1. cbn [nth] in E0, E1. cbn [som_ok]. now rewrite E0, E1. }
  destruct (som_ok b'); cbn [negb]; [|reflexivity].
  assert (forall L', (forall i, relevant L' i = true -> relevant L i = true) -> unmarshal_fields L' b = unmarshal_fields L' b') as G.
  { induction L' as [|f L' IH]; intros Sub; [reflexivity|]. cbn [unmarshal_fields].
    rewrite (unmarshal_field_frame f b b' E64 E64').
    - rewrite IH; [reflexivity|]. intros i Hi. apply Sub. unfold relevant, spans in *. cbn [collect].
      destruct (data_span f); [cbn [existsb]|]; rewrite ?orb_assoc in *; try assumption.
      apply orb_prop in Hi as [Hi|Hi]; [now rewrite Hi|]. rewrite Hi. now rewrite !orb_true_r.
    - intros i Hi. apply H, Sub. unfold relevant, spans. cbn [collect].
      destruct (data_span f) as [s|]; [cbn [existsb]|].
      + apply orb_prop in Hi as [Hi|Hi]; [now rewrite Hi|]. rewrite Hi. now rewrite orb_true_r.
      + rewrite orb_false_r in Hi. now rewrite Hi. }
  apply G. auto.
Qed.

(* function-code tags are enforced on decode *)
Corollary unmarshal_enforces_tags : forall L buf vs, wf_layout L = true -> unmarshal L buf = Ok vs ->
  length buf = 64%nat /\ som_ok buf = true /\ msgtypes_match L buf = true /\ fields_admit L buf vs = true.
Proof.
  intros L buf vs W E. pose proof (unmarshal_admitted L buf W) as H. rewrite E in H.
  unfold spec_unmarshal_admits, header_ok in H.
  apply andb_prop in H as [H A]. apply andb_prop in H as [H M]. apply andb_prop in H as [Ln S].
  apply Nat.eqb_eq in Ln. auto.
Qed.
