(* UnmarshalArray / UnmarshalAs / UnmarshalArrayElement: lifted from the single-datagram theorems. *)
From UV Require Import Base.Bytes Model.WireTypes Model.Codec Model.CodecEntry Spec.WireSpec Spec.CodecSpec
  Proofs.WireProofs Proofs.CodecProofs.

Lemma array_total : forall L bufs, wf_layout L = true -> unmarshal_array L bufs <> Panic.
Proof.
  intros L bufs Hwf; induction bufs as [|b bs IH]; cbn [unmarshal_array]; [discriminate|].
  pose proof (unmarshal_total L b Hwf) as Hb.
  destruct (unmarshal L b) as [v| |]; cbn [obind]; [|discriminate|congruence].
  destruct (unmarshal_array L bs) as [vs| |]; cbn [obind]; [discriminate|discriminate|congruence].
Qed.

Lemma array_pointwise : forall L bufs vss,
  unmarshal_array L bufs = Ok vss <-> Forall2 (fun b vs => unmarshal L b = Ok vs) bufs vss.
Proof.
  intros L bufs; induction bufs as [|b bs IH]; intros vss; cbn [unmarshal_array].
  - split; intros H; [injection H as <-; constructor | inversion H; reflexivity].
  - split.
    + intros H. destruct (unmarshal L b) as [v| |] eqn:Eb; cbn [obind] in H; try discriminate.
      destruct (unmarshal_array L bs) as [vs| |] eqn:Ebs; cbn [obind] in H; try discriminate.
      injection H as <-. constructor; [exact Eb | apply IH; reflexivity].
    + intros H. inversion H as [|b0 v bs0 vs Hb Hbs]; subst.
      rewrite Hb; cbn [obind]. apply IH in Hbs. rewrite Hbs; reflexivity.
Qed.

(* it fails exactly when some datagram does, and then nothing after the first failing one matters *)
Lemma array_err : forall L bufs, wf_layout L = true ->
  (unmarshal_array L bufs = Err <-> exists b, In b bufs /\ unmarshal L b = Err).
Proof.
  intros L bufs Hwf; induction bufs as [|b bs IH]; cbn [unmarshal_array].
  - split; [discriminate | intros [b [[] _]]].
  - pose proof (unmarshal_total L b Hwf) as Hb. pose proof (array_total L bs Hwf) as Hbs.
    destruct (unmarshal L b) as [v| |] eqn:Eb; cbn [obind]; [| |congruence].
    + destruct (unmarshal_array L bs) as [vs| |] eqn:Ebs; cbn [obind]; [| |congruence].
      * split; [discriminate|]. intros [b' [[<-|Hin] He]]; [congruence|].
        assert (Err = Err :> outcome (list (list fval))) as _ by reflexivity.
        destruct IH as [_ IH]. assert (@Ok (list (list fval)) vs = Err) as X by (apply IH; exists b'; auto). discriminate.
      * split; [|reflexivity]. intros _. destruct IH as [IH _]. destruct (IH eq_refl) as [b' [Hin He]].
        exists b'; split; [right; exact Hin | exact He].
    + split; [|reflexivity]. intros _. exists b; split; [left; reflexivity | exact Eb].
Qed.

Lemma array_prefix_err : forall L pre b post vs,
  Forall2 (fun b vs => unmarshal L b = Ok vs) pre vs -> unmarshal L b = Err ->
  unmarshal_array L (pre ++ b :: post) = Err.
Proof.
  intros L pre b post vs H; revert post; induction H as [|b0 v0 pre0 vs0 Hb0 _ IH]; intros post Hb; cbn [app unmarshal_array].
  - rewrite Hb; reflexivity.
  - rewrite Hb0; cbn [obind]. rewrite (IH post Hb); reflexivity.
Qed.

Lemma array_roundtrip : forall L vss ms, wf_layout L = true ->
  Forall2 (fun vs m => values_in_domain L vs = true /\ marshal L vs = Ok m /\ som_ok m = true) vss ms ->
  unmarshal_array L ms = Ok (map (canon_vals L) vss).
Proof.
  intros L vss ms Hwf H. apply array_pointwise.
  induction H as [|vs m vss' ms' [Hd [Hm Hs]] _ IH]; cbn [map]; constructor; [|exact IH].
  exact (unmarshal_marshal L vs m Hwf Hd Hm Hs).
Qed.

Lemma array_length : forall L bufs vss, unmarshal_array L bufs = Ok vss -> length vss = length bufs.
Proof.
  intros L bufs vss H; apply array_pointwise in H.
  induction H as [|b v bs vs _ _ IH]; cbn [length]; [reflexivity | rewrite IH; reflexivity].
Qed.
