(* C12: the model of bcd.go meets the BCD specification, for all strings / byte slices. *)
From UV Require Import Base.Bytes Model.BCD Spec.BCDSpec.
From Coq Require Import ZifyN ZifyNat ZifyBool Arith.
Ltac Zify.zify_post_hook ::= Z.div_mod_to_equations.

Lemma is_digit_digit c : is_digit c = digit c.
Proof. reflexivity. Qed.

Lemma upd_app (p : list N) x r f : upd (length p) f (p ++ x :: r) = p ++ f x :: r.
Proof. induction p as [|y p IH]; cbn [length app upd]; [reflexivity | now rewrite IH]. Qed.

Lemma div2_even k : Nat.div (2 * k) 2 = k.
Proof. rewrite Nat.mul_comm. apply Nat.div_mul. discriminate. Qed.

Lemma div2_odd k : Nat.div (S (2 * k)) 2 = k.
Proof.
  replace (S (2 * k))%nat with (1 + k * 2)%nat by lia.
  rewrite Nat.div_add by discriminate. reflexivity.
Qed.

Lemma digit_range c : digit c = true -> 48 <= c <= 57.
Proof. unfold digit. lia. Qed.

Lemma two_digits a b : digit a = true -> digit b = true ->
  (((0 * 16 + (a - 48)) mod 256) * 16 + (b - 48)) mod 256 = (a - 48) * 16 + (b - 48).
Proof. intros Ha Hb. apply digit_range in Ha. apply digit_range in Hb. lia. Qed.

(* even number of remaining digits, positioned on a byte boundary *)
Lemma enc_loop_even : forall m s k p,
  length s = (2 * m)%nat -> all_digits s = true -> length p = k ->
  enc_loop s (2 * k) (p ++ repeat 0 m) = Some (p ++ pack s).
Proof.
  induction m as [|m IH]; intros s k p Hlen Hd Hp.
  - destruct s; [|discriminate]. cbn. reflexivity.
  - destruct s as [|a [|b s]]; try (cbn in Hlen; lia).
    cbn [all_digits forallb] in Hd.
    apply andb_prop in Hd as [Ha Hd]. apply andb_prop in Hd as [Hb Hd].
    cbn [enc_loop]. rewrite is_digit_digit, Ha.
    cbn [enc_loop]. rewrite is_digit_digit, Hb.
    rewrite div2_even, div2_odd.
    cbn [repeat]. subst k.
    rewrite upd_app, upd_app, two_digits by assumption.
    set (x := (a - 48) * 16 + (b - 48)).
    replace (S (S (2 * length p)))%nat with (2 * length (p ++ [x]))%nat
      by (rewrite app_length; cbn; lia).
    replace (p ++ x :: repeat 0 m) with ((p ++ [x]) ++ repeat 0 m)
      by (rewrite <- app_assoc; reflexivity).
    rewrite (IH s _ (p ++ [x])); try reflexivity.
    + rewrite <- app_assoc. reflexivity.
    + cbn in Hlen. lia.
    + exact Hd.
Qed.

Lemma odd_length_cases (s : list N) :
  (Nat.odd (length s) = false /\ exists m, length s = (2 * m)%nat) \/
  (Nat.odd (length s) = true /\ exists m, length s = S (2 * m)).
Proof.
  destruct (Nat.odd (length s)) eqn:E.
  - right. split; [reflexivity|]. apply Nat.odd_spec in E. destruct E as [m Hm]. exists m. lia.
  - left. split; [reflexivity|].
    assert (Nat.even (length s) = true) as Ev by (rewrite <- Nat.negb_odd, E; reflexivity).
    apply Nat.even_spec in Ev. destruct Ev as [m Hm]. exists m. lia.
Qed.

Theorem encode_spec : forall s, all_digits s = true -> bcd_encode s = Some (pack (pad s)).
Proof.
  intros s Hd. unfold bcd_encode, pad.
  destruct (odd_length_cases s) as [[Ho [m Hm]] | [Ho [m Hm]]]; rewrite Ho, Hm.
  - replace (Nat.modulo (2 * m) 2) with (2 * 0)%nat by lia.
    replace (Nat.div (2 * m + 1) 2) with m by lia.
    apply (enc_loop_even m s 0%nat []); auto.
  - replace (Nat.modulo (S (2 * m)) 2) with 1%nat by lia.
    replace (Nat.div (S (2 * m) + 1) 2) with (S m) by lia.
    destruct s as [|c s]; [cbn in Hm; lia|].
    cbn [all_digits forallb] in Hd. apply andb_prop in Hd as [Hc Hd].
    cbn [enc_loop]. rewrite is_digit_digit, Hc.
    replace (Nat.div 1 2) with 0%nat by reflexivity. cbn [repeat upd].
    assert (length s = (2 * m)%nat) as Hs by (cbn in Hm; lia).
    pose proof (enc_loop_even m s 1%nat [(0 * 16 + (c - 48)) mod 256] Hs Hd eq_refl) as H.
    cbn [app] in H. change (2 * 1)%nat with 2%nat in H. rewrite H.
    cbn [pack]. apply digit_range in Hc.
    replace ((0 * 16 + (c - 48)) mod 256) with ((48 - 48) * 16 + (c - 48)) by lia.
    reflexivity.
Qed.

Lemma enc_loop_rejects : forall s ix buf, all_digits s = false -> enc_loop s ix buf = None.
Proof.
  induction s as [|c s IH]; intros ix buf H; [discriminate|].
  cbn [all_digits forallb] in H. cbn [enc_loop]. rewrite is_digit_digit.
  destruct (digit c); [|reflexivity]. apply IH. exact H.
Qed.

Theorem encode_rejects : forall s, all_digits s = false -> bcd_encode s = None.
Proof. intros s H. unfold bcd_encode. now apply enc_loop_rejects. Qed.

Theorem encode_is_spec : forall s, bcd_encode s = spec_encode s.
Proof.
  intros s. unfold spec_encode. destruct (all_digits s) eqn:E.
  - now apply encode_spec. - now apply encode_rejects.
Qed.

Lemma pack_length : forall m s, length s = (2 * m)%nat -> length (pack s) = m.
Proof.
  induction m as [|m IH]; intros s H.
  - destruct s; [reflexivity | discriminate].
  - destruct s as [|a [|b s]]; try (cbn in H; lia). cbn [pack length]. f_equal. apply IH. cbn in H. lia.
Qed.

Theorem encode_length : forall s bs, bcd_encode s = Some bs -> length bs = Nat.div (length s + 1) 2.
Proof.
  intros s bs H. rewrite encode_is_spec in H. unfold spec_encode in H.
  destruct (all_digits s); [|discriminate]. injection H as <-. unfold pad.
  destruct (odd_length_cases s) as [[Ho [m Hm]] | [Ho [m Hm]]]; rewrite Ho.
  - rewrite (pack_length m) by exact Hm. rewrite Hm.
    replace (2 * m + 1)%nat with (S (2 * m)) by lia. now rewrite div2_odd.
  - rewrite (pack_length (S m)) by (cbn [length]; lia). rewrite Hm.
    replace (S (2 * m) + 1)%nat with (2 * S m)%nat by lia. now rewrite div2_even.
Qed.

Theorem decode_is_spec : forall bs, bcd_decode bs = spec_decode bs.
Proof.
  unfold spec_decode. induction bs as [|b bs IH]; [reflexivity|].
  cbn [bcd_decode forallb unpack]. unfold nibbles_ok at 1.
  destruct ((b / 16 <=? 9) && (b mod 16 <=? 9)); [|reflexivity].
  rewrite IH. cbn [andb]. destruct (forallb nibbles_ok bs); reflexivity.
Qed.

Theorem decode_length : forall bs s, bcd_decode bs = Some s -> length s = (2 * length bs)%nat.
Proof.
  intros bs s H. rewrite decode_is_spec in H. unfold spec_decode in H.
  destruct (forallb nibbles_ok bs); [|discriminate]. injection H as <-.
  induction bs as [|b bs IH]; [reflexivity|]. cbn [unpack length]. rewrite IH. lia.
Qed.

Theorem decode_rejects : forall pre b post, nibbles_ok b = false -> bcd_decode (pre ++ b :: post) = None.
Proof.
  intros pre b post H. rewrite decode_is_spec. unfold spec_decode.
  rewrite forallb_app. cbn [forallb]. rewrite H, andb_false_r. reflexivity.
Qed.

Lemma unpack_digits : forall bs, forallb nibbles_ok bs = true -> all_digits (unpack bs) = true.
Proof.
  induction bs as [|b bs IH]; intros H; [reflexivity|].
  cbn [forallb] in H. apply andb_prop in H as [Hb H].
  cbn [unpack all_digits forallb]. fold (all_digits (unpack bs)). rewrite IH by exact H.
  unfold nibbles_ok in Hb. unfold digit. lia.
Qed.

Lemma unpack_even : forall bs, Nat.odd (length (unpack bs)) = false.
Proof.
  induction bs as [|b bs IH]; [reflexivity|]. cbn [unpack length].
  rewrite Nat.odd_succ, Nat.even_succ. exact IH.
Qed.

Lemma pack_unpack : forall bs, forallb nibbles_ok bs = true -> all_bytes bs = true -> pack (unpack bs) = bs.
Proof.
  induction bs as [|b bs IH]; intros H Hb; [reflexivity|].
  cbn [forallb] in H. apply andb_prop in H as [Hn H].
  cbn [all_bytes forallb] in Hb. apply andb_prop in Hb as [Hb1 Hb].
  cbn [unpack pack]. rewrite IH by assumption. f_equal.
  unfold nibbles_ok in Hn. unfold is_byte in Hb1. lia.
Qed.

(* encoding a decoding returns the original bytes *)
Theorem encode_decode : forall bs s, all_bytes bs = true -> bcd_decode bs = Some s -> bcd_encode s = Some bs.
Proof.
  intros bs s Hb H. rewrite decode_is_spec in H. unfold spec_decode in H.
  destruct (forallb nibbles_ok bs) eqn:E; [|discriminate]. injection H as <-.
  rewrite encode_spec by now apply unpack_digits.
  unfold pad. rewrite unpack_even. now rewrite pack_unpack.
Qed.

Lemma unpack_pack : forall m s, length s = (2 * m)%nat -> all_digits s = true -> unpack (pack s) = s.
Proof.
  induction m as [|m IH]; intros s Hl Hd.
  - destruct s; [reflexivity | discriminate].
  - destruct s as [|a [|b s]]; try (cbn in Hl; lia).
    cbn [all_digits forallb] in Hd. apply andb_prop in Hd as [Ha Hd]. apply andb_prop in Hd as [Hb Hd].
    cbn [pack unpack]. rewrite IH; [|cbn in Hl; lia|exact Hd].
    apply digit_range in Ha. apply digit_range in Hb.
    f_equal; [lia|]. f_equal. lia.
Qed.

Lemma pack_nibbles : forall m s, length s = (2 * m)%nat -> all_digits s = true ->
  forallb nibbles_ok (pack s) = true.
Proof.
  induction m as [|m IH]; intros s Hl Hd.
  - destruct s; [reflexivity | discriminate].
  - destruct s as [|a [|b s]]; try (cbn in Hl; lia).
    cbn [all_digits forallb] in Hd. apply andb_prop in Hd as [Ha Hd]. apply andb_prop in Hd as [Hb Hd].
    cbn [pack forallb]. rewrite IH; [|cbn in Hl; lia|exact Hd].
    apply digit_range in Ha. apply digit_range in Hb. unfold nibbles_ok. lia.
Qed.

Lemma pad_even s : exists m, length (pad s) = (2 * m)%nat.
Proof.
  unfold pad. destruct (odd_length_cases s) as [[Ho [m Hm]] | [Ho [m Hm]]]; rewrite Ho.
  - now exists m. - exists (S m). cbn [length]. lia.
Qed.

Lemma pad_digits s : all_digits s = true -> all_digits (pad s) = true.
Proof. intros H. unfold pad. destruct (Nat.odd (length s)); [|exact H]. cbn. exact H. Qed.

(* decoding an encoding returns the (padded) original *)
Theorem decode_encode : forall s bs, bcd_encode s = Some bs -> bcd_decode bs = Some (pad s).
Proof.
  intros s bs H. rewrite encode_is_spec in H. unfold spec_encode in H.
  destruct (all_digits s) eqn:E; [|discriminate]. injection H as <-.
  destruct (pad_even s) as [m Hm]. pose proof (pad_digits s E) as Hd.
  rewrite decode_is_spec. unfold spec_decode.
  rewrite (pack_nibbles m) by assumption. now rewrite (unpack_pack m).
Qed.

(* encoded bytes are bytes *)
Theorem encode_bytes : forall s bs, bcd_encode s = Some bs -> all_bytes bs = true.
Proof.
  intros s bs H. rewrite encode_is_spec in H. unfold spec_encode in H.
  destruct (all_digits s) eqn:E; [|discriminate]. injection H as <-.
  destruct (pad_even s) as [m Hm]. pose proof (pad_digits s E) as Hd.
  revert Hm Hd. generalize (pad s). clear. revert m.
  induction m as [|m IH]; intros s Hl Hd.
  - destruct s; [reflexivity | discriminate].
  - destruct s as [|a [|b s]]; try (cbn in Hl; lia).
    cbn [all_digits forallb] in Hd. apply andb_prop in Hd as [Ha Hd]. apply andb_prop in Hd as [Hb Hd].
    cbn [pack all_bytes forallb]. fold (all_bytes (pack s)). rewrite IH; [|cbn in Hl; lia|exact Hd].
    apply digit_range in Ha. apply digit_range in Hb. unfold is_byte. lia.
Qed.
