(* C17: whatever the caller does afterwards, the client's configuration - what routing reads - does not change. *)
From UV Require Import Base.Bytes Model.Alias.
From Coq Require Import Arith.
Open Scope nat_scope.

Lemma hget_hset_other h l l' c : l <> l' -> hget (hset h l c) l' = hget h l'.
Proof.
  revert l l'. induction h as [|x h IH]; intros l l' H; [destruct l; reflexivity|].
  destruct l as [|l], l' as [|l']; cbn; try reflexivity; [contradiction|]. apply IH. congruence.
Qed.

Lemma hget_hset_same h l c : l < length h -> hget (hset h l c) l = Some c.
Proof. revert l. induction h as [|x h IH]; intros [|l] L; cbn in *; try lia; [reflexivity|]. apply IH. lia. Qed.

Lemma hset_length h l c : length (hset h l c) = length h.
Proof. revert l. induction h as [|x h IH]; intros [|l]; cbn; auto. Qed.

Lemma hget_app_old h c l : l < length h -> hget (h ++ [c]) l = hget h l.
Proof. intros H. unfold hget. now rewrite nth_error_app1. Qed.

Lemma hget_app_new h c : hget (h ++ [c]) (length h) = Some c.
Proof. unfold hget. rewrite nth_error_app2 by auto. now rewrite Nat.sub_diag. Qed.

Lemma hget_some_lt h l c : hget h l = Some c -> l < length h.
Proof. intros H. apply nth_error_Some. unfold hget in H. congruence. Qed.

(* the invariant: the client's map cell holds the devices ds0 it was built with; it is not reachable by the caller; the
   Doors references stored in it do not point back at the map itself *)
Definition Inv (ds0 : list devrec) (s : state) : Prop :=
  hget (st_heap s) (st_client s) = Some (CDevs ds0) /\
  ~ In (st_client s) (map r_doors ds0) /\
  ~ reachable s (st_client s) /\
  Forall (fun l => l < length (st_heap s)) (st_caller s).

Lemma inv_view ds0 s : Inv ds0 s -> routing_view s = map (fun d => (r_id d, r_name d, r_addr d, r_proto d)) ds0.
Proof. intros (G & _). unfold routing_view. now rewrite G. Qed.

Lemma step_inv ds0 s x : Inv ds0 s -> allowed s x -> Inv ds0 (do_step s x).
Proof.
  intros (G & ND & NR & FA) A. pose proof (hget_some_lt _ _ _ G) as Lc.
  unfold Inv, reachable in *.
  destruct x as [l c|c| |]; cbn [do_step allowed] in *; unfold halloc; try rewrite G; cbn [st_heap st_client st_caller].
  - (* write *)
    destruct A as (Rl & Nd).
    assert (l <> st_client s) as Ne by (intros ->; contradiction).
    rewrite hset_length, hget_hset_other by exact Ne.
    split; [exact G|]. split; [exact ND|]. split; [|exact FA].
    intros [HIn|(r & c' & Hr & Hg & Hd)]; [apply NR; now left|].
    destruct (Nat.eq_dec l r) as [->|Nlr].
    + rewrite hget_hset_same in Hg by (eapply Forall_forall in FA; eauto). injection Hg as <-. contradiction.
    + rewrite hget_hset_other in Hg by exact Nlr. apply NR. right. exists r, c'. auto.
  - (* caller allocation *)
    rewrite app_length. cbn [length].
    rewrite hget_app_old by exact Lc. split; [exact G|]. split; [exact ND|]. split.
    + intros [[E|HIn]|(r & c' & [<-|Hr] & Hg & Hd)].
      * lia.
      * apply NR. now left.
      * rewrite hget_app_new in Hg. injection Hg as <-. contradiction.
      * apply NR. right. exists r, c'. split; [exact Hr|]. split; [|exact Hd].
        rewrite hget_app_old in Hg; [exact Hg|]. eapply Forall_forall in FA; eauto.
    + constructor; [lia|]. eapply Forall_impl; [|exact FA]. cbn. intros; lia.
  - (* DeviceList *)
    rewrite app_length. cbn [length].
    rewrite hget_app_old by exact Lc. split; [exact G|]. split; [exact ND|]. split.
    + intros [[E|HIn]|(r & c' & [<-|Hr] & Hg & Hd)].
      * lia.
      * apply NR. now left.
      * rewrite hget_app_new in Hg. injection Hg as <-. cbn [doors_of] in Hd. contradiction.
      * apply NR. right. exists r, c'. split; [exact Hr|]. split; [|exact Hd].
        rewrite hget_app_old in Hg; [exact Hg|]. eapply Forall_forall in FA; eauto.
    + constructor; [lia|]. eapply Forall_impl; [|exact FA]. cbn. intros; lia.
  - (* call *) repeat split; auto.
Qed.

(* histories: every step allowed in the state it is taken in *)
Fixpoint run (s : state) (xs : list step) : state :=
  match xs with [] => s | x :: r => run (do_step s x) r end.
Fixpoint all_allowed (s : state) (xs : list step) : Prop :=
  match xs with [] => True | x :: r => allowed s x /\ all_allowed (do_step s x) r end.

Theorem history_preserves_config : forall ds0 xs s, Inv ds0 s -> all_allowed s xs ->
  routing_view (run s xs) = routing_view s /\ Inv ds0 (run s xs).
Proof.
  intros ds0 xs. induction xs as [|x xs IH]; intros s I A; [auto|].
  destruct A as [A1 A2]. cbn [run]. pose proof (step_inv ds0 s x I A1) as I'.
  destruct (IH _ I' A2) as [V I'']. split; [|exact I'']. rewrite V. now rewrite (inv_view ds0 _ I'), (inv_view ds0 _ I).
Qed.

(* construction establishes the invariant *)
Lemma clone_all_spec : forall ds h h' ds', clone_all h ds = (h', ds') ->
  length h <= length h' /\ (forall l, l < length h -> hget h' l = hget h l) /\
  Forall (fun d => length h <= r_doors d < length h') ds' /\
  map (fun d => (r_id d, r_name d, r_addr d, r_proto d)) ds' = map (fun d => (r_id d, r_name d, r_addr d, r_proto d)) ds.
Proof.
  induction ds as [|d ds IH]; intros h h' ds' H; cbn [clone_all] in H.
  - injection H as <- <-. repeat split; auto.
  - unfold clone_dev in H. cbn [halloc] in H.
    destruct (clone_all (h ++ [CDoors match hget h (r_doors d) with Some (CDoors n) => n | _ => [] end]) ds) as [h2 r'] eqn:E.
    injection H as <- <-. destruct (IH _ _ _ E) as (L & Old & Fr & V). rewrite app_length in *. cbn [length] in *.
    split; [lia|]. split.
    + intros l Hl. rewrite Old by lia. now apply hget_app_old.
    + split.
      * constructor; [cbn [r_doors]; lia|]. eapply Forall_impl; [|exact Fr]. cbn. intros; lia.
      * cbn [map r_id r_name r_addr r_proto]. now rewrite V.
Qed.

Theorem construct_inv : forall h input caller ds,
  hget h input = Some (CDevs ds) -> Forall (fun l => l < length h) caller ->
  (forall r c, In r caller -> hget h r = Some c -> Forall (fun l => l < length h) (doors_of c)) ->
  exists ds0, Inv ds0 (construct h input caller) /\
              routing_view (construct h input caller) = map (fun d => (r_id d, r_name d, r_addr d, r_proto d)) ds.
Proof.
  intros h input caller ds G FA WF. unfold construct. rewrite G.
  destruct (clone_all h ds) as [h1 ds'] eqn:E. destruct (clone_all_spec _ _ _ _ E) as (L & Old & Fr & V).
  unfold halloc. exists ds'. unfold Inv, routing_view, reachable. cbn [st_heap st_client st_caller].
  rewrite hget_app_new. split; [|now rewrite V]. split; [reflexivity|]. split.
  - intros HIn. apply in_map_iff in HIn as (d & Hd & HIn). eapply Forall_forall in Fr; eauto. cbn in Fr. lia.
  - split.
    + intros [HIn|(r & c & Hr & Hg & Hd)].
      * eapply Forall_forall in FA; eauto. cbn in FA. lia.
      * assert (r < length h) as Lr by (eapply Forall_forall in FA; eauto).
        rewrite hget_app_old in Hg by lia. rewrite Old in Hg by exact Lr.
        pose proof (WF r c Hr Hg) as W. eapply Forall_forall in W; eauto. cbn in W. lia.
    + rewrite app_length. cbn [length]. eapply Forall_impl; [|exact FA]. cbn. intros; lia.
Qed.
