(* Per-kind lemmas: the model's encoders/decoders (fmt + BCD strings, iterated division, ...) agree with the
   arithmetic protocol specification of Spec/WireSpec.v. *)
From UV Require Import Base.Bytes Model.BCD Spec.BCDSpec Proofs.BCDProofs Model.WireTypes Spec.WireSpec.
From Coq Require Import ZifyN ZifyNat ZifyBool Arith.
Ltac Zify.zify_post_hook ::= Z.div_mod_to_equations.
Open Scope N_scope.

(* ---------- integers ---------- *)
Lemma le16_spec n : le16 n = spec_le16 n.
Proof.
  unfold le16, spec_le16, byte_n. change (2 ^ (8 * 0)) with 1. change (2 ^ (8 * 1)) with 256.
  rewrite N.div_1_r. reflexivity.
Qed.

Lemma le24_spec n : le24 n = spec_le24 n.
Proof.
  unfold le24, spec_le24, byte_n.
  change (2 ^ (8 * 0)) with 1. change (2 ^ (8 * 1)) with 256. change (2 ^ (8 * 2)) with (256 * 256).
  rewrite N.div_1_r, <- N.div_div by discriminate. reflexivity.
Qed.

Lemma le32_spec n : le32 n = spec_le32 n.
Proof.
  unfold le32, spec_le32, byte_n.
  change (2 ^ (8 * 0)) with 1. change (2 ^ (8 * 1)) with 256. change (2 ^ (8 * 2)) with (256 * 256).
  change (2 ^ (8 * 3)) with (256 * 256 * 256).
  rewrite N.div_1_r, <- !N.div_div by discriminate. reflexivity.
Qed.

Lemma be16_spec n : be16 n = spec_be16 n.
Proof.
  unfold be16, spec_be16, byte_n. change (2 ^ (8 * 0)) with 1. change (2 ^ (8 * 1)) with 256.
  rewrite N.div_1_r. reflexivity.
Qed.

Lemma of_le_le16 n : n < 65536 -> of_le (le16 n) = n.
Proof. intros H. unfold of_le, le16. cbn [fold_right]. lia. Qed.
Lemma of_le_le24 n : n < 16777216 -> of_le (le24 n) = n.
Proof. intros H. unfold of_le, le24. cbn [fold_right]. lia. Qed.
Lemma of_le_le32 n : n < 4294967296 -> of_le (le32 n) = n.
Proof. intros H. unfold of_le, le32. cbn [fold_right]. lia. Qed.
Lemma of_be16_be16 n : n < 65536 -> of_be16 (be16 n) = n.
Proof. intros H. unfold of_be16, be16. lia. Qed.

(* ---------- decimal formatting on the finite ranges that occur (complete enumerations) ---------- *)
Definition zlist (lo n : Z) : list Z := map (fun i => (lo + Z.of_nat i)%Z) (seq 0 (Z.to_nat n)).

Lemma in_zlist lo n z : (lo <= z < lo + n)%Z -> In z (zlist lo n).
Proof.
  intros H. unfold zlist. apply in_map_iff. exists (Z.to_nat (z - lo)). split; [lia|].
  apply in_seq. lia.
Qed.

Definition fmt2_ok (z : Z) : bool :=
  nlist_eqb (fmt_int 2 z) [48 + zn z / 10; 48 + zn z mod 10].
Definition fmt4_ok (z : Z) : bool :=
  nlist_eqb (fmt_int 4 z) [48 + (zn z / 100) / 10; 48 + (zn z / 100) mod 10; 48 + (zn z mod 100) / 10; 48 + (zn z mod 100) mod 10].

Lemma fmt2_enum : forallb fmt2_ok (zlist 0%Z 100%Z) = true.
Proof. vm_compute. reflexivity. Qed.
Lemma fmt4_enum : forallb fmt4_ok (zlist 0%Z 10000%Z) = true.
Proof. vm_compute. reflexivity. Qed.

Lemma nlist_eqb_eq a b : nlist_eqb a b = true -> a = b.
Proof.
  revert b; induction a as [|x a IH]; intros [|y b] H; try discriminate; [reflexivity|].
  cbn in H. apply andb_prop in H as [H1 H2]. apply N.eqb_eq in H1. subst. f_equal. now apply IH.
Qed.
Lemma nlist_eqb_refl a : nlist_eqb a a = true.
Proof. induction a as [|x a IH]; [reflexivity|]. cbn. now rewrite N.eqb_refl, IH. Qed.

Lemma fmt2 z : (0 <= z <= 99)%Z -> fmt_int 2 z = [48 + zn z / 10; 48 + zn z mod 10].
Proof.
  intros H. apply nlist_eqb_eq.
  exact (proj1 (forallb_forall _ _) fmt2_enum z (in_zlist 0%Z 100%Z z ltac:(lia))).
Qed.
Lemma fmt4 z : (0 <= z <= 9999)%Z ->
  fmt_int 4 z = [48 + (zn z / 100) / 10; 48 + (zn z / 100) mod 10; 48 + (zn z mod 100) / 10; 48 + (zn z mod 100) mod 10].
Proof.
  intros H. apply nlist_eqb_eq.
  exact (proj1 (forallb_forall _ _) fmt4_enum z (in_zlist 0%Z 10000%Z z ltac:(lia))).
Qed.

(* ---------- BCD of digit pairs ---------- *)
Lemma digit_of d : d <= 9 -> digit (48 + d) = true.
Proof. intros H. unfold digit. lia. Qed.

(* a string made of digit pairs encodes pair by pair *)
Fixpoint pairs_str (ps : list (N * N)) : list N :=
  match ps with [] => [] | (a, b) :: r => (48 + a) :: (48 + b) :: pairs_str r end.
Fixpoint pairs_bytes (ps : list (N * N)) : list N :=
  match ps with [] => [] | (a, b) :: r => (16 * a + b) :: pairs_bytes r end.
Definition pairs_ok (ps : list (N * N)) : bool := forallb (fun p => (fst p <=? 9) && (snd p <=? 9)) ps.

Lemma pairs_len ps : length (pairs_str ps) = (2 * length ps)%nat.
Proof. induction ps as [|[a b] r IH]; cbn [pairs_str length]; lia. Qed.

Lemma bcd_pairs ps : pairs_ok ps = true -> bcd_encode (pairs_str ps) = Some (pairs_bytes ps).
Proof.
  intros H. rewrite encode_is_spec. unfold spec_encode.
  assert (all_digits (pairs_str ps) = true) as ->.
  { induction ps as [|[a b] r IH]; [reflexivity|]. cbn in H. apply andb_prop in H as [H1 H2].
    apply andb_prop in H1 as [Ha Hb]. cbn [pairs_str all_digits forallb].
    rewrite !digit_of by lia. cbn [andb]. apply IH. exact H2. }
  unfold pad. assert (Nat.odd (length (pairs_str ps)) = false) as ->.
  { rewrite pairs_len. rewrite Nat.odd_mul. reflexivity. }
  f_equal. induction ps as [|[a b] r IH]; [reflexivity|].
  cbn in H. apply andb_prop in H as [H1 H2]. cbn [pairs_str pack pairs_bytes].
  rewrite IH by exact H2. f_equal. lia.
Qed.

Lemma bcd2_pair n : n <= 99 -> bcd2 n = 16 * (n / 10) + n mod 10.
Proof. reflexivity. Qed.

Ltac solve_pairs :=
  unfold pairs_ok, zn; cbn [forallb fst snd];
  repeat (apply andb_true_intro; split); try reflexivity; lia.

(* ---------- dates and times: encode ---------- *)
Lemma enc_ymd y m d : (0 <= y <= 9999)%Z -> (0 <= m <= 99)%Z -> (0 <= d <= 99)%Z ->
  bcd_encode (fmt_int 4 y ++ fmt_int 2 m ++ fmt_int 2 d) = Some (spec_date_bytes y m d).
Proof.
  intros Hy Hm Hd. rewrite fmt4, !fmt2 by assumption. cbn [app].
  change ([48 + (zn y / 100) / 10; 48 + (zn y / 100) mod 10; 48 + (zn y mod 100) / 10; 48 + (zn y mod 100) mod 10;
           48 + zn m / 10; 48 + zn m mod 10; 48 + zn d / 10; 48 + zn d mod 10])
    with (pairs_str [((zn y / 100) / 10, (zn y / 100) mod 10); ((zn y mod 100) / 10, (zn y mod 100) mod 10);
                     (zn m / 10, zn m mod 10); (zn d / 10, zn d mod 10)]).
  rewrite bcd_pairs.
  - reflexivity.
  - solve_pairs.
Qed.

Lemma enc_hms a b c : (0 <= a <= 99)%Z -> (0 <= b <= 99)%Z -> (0 <= c <= 99)%Z ->
  bcd_encode (fmt_int 2 a ++ fmt_int 2 b ++ fmt_int 2 c) = Some [bcd2 (zn a); bcd2 (zn b); bcd2 (zn c)].
Proof.
  intros Ha Hb Hc. rewrite !fmt2 by assumption. cbn [app].
  change ([48 + zn a / 10; 48 + zn a mod 10; 48 + zn b / 10; 48 + zn b mod 10; 48 + zn c / 10; 48 + zn c mod 10])
    with (pairs_str [(zn a / 10, zn a mod 10); (zn b / 10, zn b mod 10); (zn c / 10, zn c mod 10)]).
  rewrite bcd_pairs; [reflexivity|]. solve_pairs.
Qed.

Lemma enc_hm a b : (0 <= a <= 99)%Z -> (0 <= b <= 99)%Z ->
  bcd_encode (fmt_int 2 a ++ fmt_int 2 b) = Some [bcd2 (zn a); bcd2 (zn b)].
Proof.
  intros Ha Hb. rewrite !fmt2 by assumption. cbn [app].
  change ([48 + zn a / 10; 48 + zn a mod 10; 48 + zn b / 10; 48 + zn b mod 10])
    with (pairs_str [(zn a / 10, zn a mod 10); (zn b / 10, zn b mod 10)]).
  rewrite bcd_pairs; [reflexivity|]. solve_pairs.
Qed.

Lemma enc_datetime_full y m d h mi s :
  (0 <= y <= 9999)%Z -> (0 <= m <= 99)%Z -> (0 <= d <= 99)%Z -> (0 <= h <= 99)%Z -> (0 <= mi <= 99)%Z -> (0 <= s <= 99)%Z ->
  bcd_encode (fmt_int 4 y ++ fmt_int 2 m ++ fmt_int 2 d ++ fmt_int 2 h ++ fmt_int 2 mi ++ fmt_int 2 s)
  = Some (spec_date_bytes y m d ++ [bcd2 (zn h); bcd2 (zn mi); bcd2 (zn s)]).
Proof.
  intros Hy Hm Hd Hh Hmi Hs. rewrite fmt4, !fmt2 by assumption. cbn [app].
  change ([48 + (zn y / 100) / 10; 48 + (zn y / 100) mod 10; 48 + (zn y mod 100) / 10; 48 + (zn y mod 100) mod 10;
           48 + zn m / 10; 48 + zn m mod 10; 48 + zn d / 10; 48 + zn d mod 10;
           48 + zn h / 10; 48 + zn h mod 10; 48 + zn mi / 10; 48 + zn mi mod 10; 48 + zn s / 10; 48 + zn s mod 10])
    with (pairs_str [((zn y / 100) / 10, (zn y / 100) mod 10); ((zn y mod 100) / 10, (zn y mod 100) mod 10);
                     (zn m / 10, zn m mod 10); (zn d / 10, zn d mod 10);
                     (zn h / 10, zn h mod 10); (zn mi / 10, zn mi mod 10); (zn s / 10, zn s mod 10)]).
  rewrite bcd_pairs.
  - reflexivity.
  - solve_pairs.
Qed.

(* calendar facts used below *)
Lemma calendar_bounds y m d : calendar_date y m d = true ->
  (0 <= y <= 9999 /\ 1 <= m <= 12 /\ 1 <= d <= 31)%Z.
Proof.
  unfold calendar_date, zrange, month_days. intros H.
  destruct (m =? 2)%Z; [destruct (leap y)|destruct ((m =? 4) || (m =? 6) || (m =? 9) || (m =? 11))%Z]; lia.
Qed.

Lemma time_bounds h mi s : time_of_day h mi s = true -> (0 <= h <= 23 /\ 0 <= mi <= 59 /\ 0 <= s <= 59)%Z.
Proof. unfold time_of_day, zrange. lia. Qed.

(* ---------- N calendar (model) = Z calendar (spec) ---------- *)
Lemma is_leap_leap y : is_leap y = leap (Z.of_N y).
Proof. unfold is_leap, leap. lia. Qed.

Lemma days_in_md y m : Z.of_N (days_in y m) = month_days (Z.of_N y) (Z.of_N m).
Proof.
  unfold days_in, month_days. rewrite is_leap_leap.
  destruct (m =? 2) eqn:E1; destruct (Z.of_N m =? 2)%Z eqn:E2; try lia.
  - destruct (leap (Z.of_N y)); reflexivity.
  - destruct ((m =? 4) || (m =? 6) || (m =? 9) || (m =? 11)) eqn:E3;
    destruct ((Z.of_N m =? 4) || (Z.of_N m =? 6) || (Z.of_N m =? 9) || (Z.of_N m =? 11))%Z eqn:E4; try lia; reflexivity.
Qed.

Lemma valid_calendar y m d : y <= 9999 -> valid_ymd y m d = calendar_date (Z.of_N y) (Z.of_N m) (Z.of_N d).
Proof. intros H. unfold valid_ymd, calendar_date, zrange. rewrite <- days_in_md. lia. Qed.

Lemma valid_hms_time h mi s : valid_hms h mi s = time_of_day (Z.of_N h) (Z.of_N mi) (Z.of_N s).
Proof. unfold valid_hms, time_of_day, zrange. lia. Qed.

(* ---------- decoding: model vs protocol specification, for ALL byte strings of the field's width ---------- *)
Definition dec_agrees (k : kind) (md : outcome (option fval)) (r : dres) : bool :=
  match r, md with
  | DVal v, Ok (Some v') => fval_eqb v v'
  | DFail, Err => negb (is_ptr k)
  | DFail, Ok None => is_ptr k
  | DNone, Ok None => true
  | DNone, Ok (Some v') => no_value k v'
  | _, _ => false
  end.

Definition nib (b : N) : bool := (b / 16 <=? 9) && (b mod 16 <=? 9).
Definition val (b : N) : N := 10 * (b / 16) + b mod 16.

Lemma two_val b : two (48 + b / 16) (48 + b mod 16) = val b.
Proof. unfold two, val. lia. Qed.

Lemma unbcd2_nib b : unbcd2 b = if nib b then Some (val b) else None.
Proof. reflexivity. Qed.

Lemma val_bound b : nib b = true -> val b <= 99.
Proof. unfold nib, val. lia. Qed.

Lemma bcd_decode_cons b r :
  bcd_decode (b :: r) = if nib b then match bcd_decode r with Some d => Some (48 + b / 16 :: 48 + b mod 16 :: d) | None => None end else None.
Proof. reflexivity. Qed.

Lemma num4 a b : num_of_digits [48 + a / 16; 48 + a mod 16; 48 + b / 16; 48 + b mod 16] = 100 * val a + val b.
Proof. unfold num_of_digits, num_of_digits_acc, val. lia. Qed.

Lemma fval_eqb_refl v : fval_eqb v v = true.
Proof.
  destruct v as [n|b|l|[[a p]|]|l|y m d|y m d h mi s|y m d|h mi s|h m|]; cbn;
    rewrite ?N.eqb_refl, ?Z.eqb_refl, ?nlist_eqb_refl; try reflexivity.
  destruct b; reflexivity.
Qed.

Opaque N.div N.modulo.

Lemma dec_date_agrees (ptr : bool) (c y m d : N) :
  dec_agrees (if ptr then KDateP else KDate) (dec_date ptr [c; y; m; d]) (spec_dec KDate [c; y; m; d]) = true.
Proof.
  unfold dec_date, spec_dec, date_of_bytes, un2, is_date_zero. rewrite !unbcd2_nib, !bcd_decode_cons.
  destruct (nib c) eqn:Hc; [|destruct ptr; reflexivity].
  destruct (nib y) eqn:Hy; [|destruct ptr; reflexivity].
  destruct (nib m) eqn:Hm; [|destruct ptr; reflexivity].
  destruct (nib d) eqn:Hd; [|destruct ptr; reflexivity].
  cbn [bcd_decode].
  unfold parse_ymd8. rewrite num4, !two_val.
  pose proof (val_bound c Hc). pose proof (val_bound y Hy).
  rewrite valid_calendar by lia.
  rewrite !N2Z.inj_add, !N2Z.inj_mul. change (Z.of_N 100) with 100%Z.
  set (Y := (100 * Z.of_N (val c) + Z.of_N (val y))%Z).
  set (M := Z.of_N (val m)). set (D := Z.of_N (val d)).
  cbn [nlist_eqb].
  unfold nib in *.
  destruct ((48 + c / 16 =? 48) && ((48 + c mod 16 =? 48) && ((48 + y / 16 =? 48) && ((48 + y mod 16 =? 48) &&
            ((48 + m / 16 =? 48) && ((48 + m mod 16 =? 48) && ((48 + d / 16 =? 48) && ((48 + d mod 16 =? 48) && true)))))))) eqn:Z0.
  - assert (M = 0%Z) as HM by (unfold M, val; lia).
    assert (calendar_date Y M D = false) as -> by (unfold calendar_date, zrange; rewrite HM; lia).
    cbn [orb]. destruct ptr; reflexivity.
  - cbn [orb].
    destruct ((48 + c / 16 =? 48) && ((48 + c mod 16 =? 48) && ((48 + y / 16 =? 48) && ((48 + y mod 16 =? 49) &&
            ((48 + m / 16 =? 48) && ((48 + m mod 16 =? 49) && ((48 + d / 16 =? 48) && ((48 + d mod 16 =? 49) && true)))))))) eqn:Z1.
    + assert (Y = 1%Z /\ M = 1%Z /\ D = 1%Z) as (HY & HM & HD) by (unfold Y, M, D, val; lia).
      rewrite HY, HM, HD. cbn. destruct ptr; reflexivity.
    + destruct (calendar_date Y M D) eqn:CD.
      * assert (((Y =? 1) && (M =? 1) && (D =? 1))%Z = false) as -> by (unfold Y, M, D, val; lia).
        destruct ptr; cbn [dec_agrees fval_eqb]; unfold Y, M, D; lia.
      * destruct ptr; reflexivity.
Qed.

Lemma dec_datetime_agrees (ptr : bool) (c y m d h n s : N) :
  dec_agrees (if ptr then KDateTimeP else KDateTime) (dec_datetime ptr [c; y; m; d; h; n; s]) (spec_dec KDateTime [c; y; m; d; h; n; s]) = true.
Proof.
  unfold dec_datetime, spec_dec.
  destruct (nlist_eqb [c; y; m; d; h; n; s] [0; 0; 0; 0; 0; 0; 0] || nlist_eqb [c; y; m; d; h; n; s] [32; 0; 0; 0; 0; 0; 0]) eqn:S.
  { destruct ptr; reflexivity. }
  cbn [firstn skipn]. unfold date_of_bytes, un2. rewrite !unbcd2_nib, !bcd_decode_cons.
  destruct (nib c) eqn:Hc; [|destruct ptr; reflexivity].
  destruct (nib y) eqn:Hy; [|destruct ptr; reflexivity].
  destruct (nib m) eqn:Hm; [|destruct ptr; reflexivity].
  destruct (nib d) eqn:Hd; [|destruct ptr; reflexivity].
  destruct (nib h) eqn:Hh; [|destruct ptr; destruct (calendar_date _ _ _); reflexivity].
  destruct (nib n) eqn:Hn; [|destruct ptr; destruct (calendar_date _ _ _); reflexivity].
  destruct (nib s) eqn:Hs; [|destruct ptr; destruct (calendar_date _ _ _); reflexivity].
  cbn [bcd_decode]. rewrite num4, !two_val.
  pose proof (val_bound c Hc). pose proof (val_bound y Hy).
  rewrite valid_calendar by lia. rewrite valid_hms_time.
  rewrite !N2Z.inj_add, !N2Z.inj_mul. change (Z.of_N 100) with 100%Z.
  set (Y := (100 * Z.of_N (val c) + Z.of_N (val y))%Z).
  destruct (calendar_date Y (Z.of_N (val m)) (Z.of_N (val d))) eqn:CD;
  destruct (time_of_day (Z.of_N (val h)) (Z.of_N (val n)) (Z.of_N (val s))) eqn:TD; cbn [andb];
    try (destruct ptr; reflexivity).
  destruct ptr; cbn [dec_agrees fval_eqb]; unfold Y; lia.
Qed.

Lemma dec_sysdate_agrees (y m d : N) :
  dec_agrees KSysDate (dec_sysdate [y; m; d]) (spec_dec KSysDate [y; m; d]) = true.
Proof.
  unfold dec_sysdate, spec_dec.
  destruct (nlist_eqb [y; m; d] [0; 0; 0]) eqn:S; [reflexivity|].
  unfold un2. rewrite !unbcd2_nib, !bcd_decode_cons.
  destruct (nib y) eqn:Hy; [|reflexivity].
  destruct (nib m) eqn:Hm; [|reflexivity].
  destruct (nib d) eqn:Hd; [|reflexivity].
  cbn [bcd_decode]. rewrite !two_val.
  pose proof (val_bound y Hy).
  rewrite valid_calendar by (destruct (69 <=? val y); lia).
  destruct (69 <=? val y) eqn:C;
  match goal with |- context [calendar_date ?a ?b ?c] => destruct (calendar_date a b c) eqn:CD end;
    cbn [dec_agrees fval_eqb]; rewrite ?Z.eqb_refl; reflexivity.
Qed.

Lemma dec_systime_agrees (h n s : N) :
  dec_agrees KSysTime (dec_systime [h; n; s]) (spec_dec KSysTime [h; n; s]) = true.
Proof.
  unfold dec_systime, spec_dec, un2. rewrite !unbcd2_nib, !bcd_decode_cons.
  destruct (nib h) eqn:Hh; [|reflexivity].
  destruct (nib n) eqn:Hn; [|reflexivity].
  destruct (nib s) eqn:Hs; [|reflexivity].
  cbn [bcd_decode]. rewrite !two_val, valid_hms_time.
  destruct (time_of_day _ _ _); cbn [dec_agrees fval_eqb]; rewrite ?Z.eqb_refl; reflexivity.
Qed.

Lemma dec_hhmm_agrees (ptr : bool) (h m : N) :
  dec_agrees (if ptr then KHHmmP else KHHmm) (dec_hhmm ptr [h; m]) (spec_dec KHHmm [h; m]) = true.
Proof.
  unfold dec_hhmm, spec_dec, un2. rewrite !unbcd2_nib, !bcd_decode_cons.
  destruct (nib h) eqn:Hh; [|destruct ptr; reflexivity].
  destruct (nib m) eqn:Hm; [|destruct ptr; reflexivity].
  cbn [bcd_decode]. rewrite !two_val.
  assert ((24 <? val h) || (59 <? val m) || ((val h =? 24) && negb (val m =? 0))
          = negb (((val h <=? 23) && (val m <=? 59)) || ((val h =? 24) && (val m =? 0)))) as -> by lia.
  destruct (((val h <=? 23) && (val m <=? 59)) || ((val h =? 24) && (val m =? 0))); cbn [negb];
    destruct ptr; cbn [dec_agrees fval_eqb is_ptr negb]; rewrite ?Z.eqb_refl; reflexivity.
Qed.

(* spec_dec does not distinguish the value and pointer variants *)
Lemma spec_dec_ptr b : spec_dec KDateP b = spec_dec KDate b /\ spec_dec KDateTimeP b = spec_dec KDateTime b
                       /\ spec_dec KHHmmP b = spec_dec KHHmm b.
Proof. repeat split; reflexivity. Qed.

Lemma of_le_2 a b : of_le [a; b] = a + 256 * b.
Proof. unfold of_le; cbn [fold_right]. lia. Qed.
Lemma of_le_3 a b c : of_le [a; b; c] = a + 256 * b + 65536 * c.
Proof. unfold of_le; cbn [fold_right]. lia. Qed.
Lemma of_le_4 a b c d : of_le [a; b; c; d] = a + 256 * b + 65536 * c + 16777216 * d.
Proof. unfold of_le; cbn [fold_right]. lia. Qed.

(* THE per-kind decoding lemma: for every byte string of the field's width (any byte values), the model's decoder
   and the protocol decoding agree, including how 'rejected' and 'no value' surface *)
Theorem dec_agrees_all : forall k b, length b = width k -> dec_agrees k (dec k None b) (spec_dec k b) = true.
Proof.
  intros k b Hlen.
  destruct k; cbn [width] in Hlen;
    repeat (destruct b as [|? b]; try discriminate Hlen); clear Hlen.
  - cbn. now rewrite N.eqb_refl.
  - unfold dec, spec_dec. rewrite of_le_2. cbn. now rewrite N.eqb_refl.
  - unfold dec, spec_dec. rewrite of_le_4. cbn. now rewrite N.eqb_refl.
  - cbn. destruct (n =? 1) eqn:E1; destruct (n =? 0) eqn:E0; try reflexivity; lia.
  - cbn. now rewrite !N.eqb_refl.
  - unfold dec, spec_dec. cbn [firstn skipn]. rewrite of_le_2. cbn. now rewrite !N.eqb_refl.
  - cbn. now rewrite !N.eqb_refl.
  - cbn. now rewrite !N.eqb_refl.
  - unfold dec, spec_dec. rewrite of_le_4. cbn. now rewrite N.eqb_refl.
  - exact (dec_date_agrees false _ _ _ _).
  - exact (dec_date_agrees true _ _ _ _).
  - exact (dec_datetime_agrees false _ _ _ _ _ _ _).
  - exact (dec_datetime_agrees true _ _ _ _ _ _ _).
  - apply dec_sysdate_agrees.
  - apply dec_systime_agrees.
  - exact (dec_hhmm_agrees false _ _).
  - exact (dec_hhmm_agrees true _ _).
  - unfold dec, spec_dec. rewrite of_le_3. cbn. now rewrite N.eqb_refl.
  - unfold dec, spec_dec, of_be16. cbn [dec_agrees fval_eqb]. lia.
Qed.

(* ---------- encoding: model = protocol bytes, for every in-domain value ---------- *)
Definition enc_matches (k : kind) (v : fval) : Prop :=
  match spec_bytes k v with
  | Some bs => exists bs', enc k None v = EWrite bs' (width k) /\ firstn (width k) bs' = bs /\ length bs = width k
  | None => enc k None v = ESkip
  end.

Lemma firstn_exact {A} (l : list A) n : length l = n -> firstn n l = l.
Proof. intros <-. apply firstn_all. Qed.

Lemma marshaler_some bs n : length bs = n -> marshaler (Some bs) = EWrite bs n.
Proof. intros <-. reflexivity. Qed.

Lemma matches_marshaler k v bs sb :
  spec_bytes k v = Some sb -> enc k None v = marshaler (Some bs) -> bs = sb -> length sb = width k -> enc_matches k v.
Proof.
  intros Hs He -> Hl. unfold enc_matches. rewrite Hs. exists sb. rewrite He.
  split; [now apply marshaler_some|]. split; [|exact Hl]. now apply firstn_exact.
Qed.

Lemma enc_date_spec y m d : calendar_date y m d = true ->
  enc_date y m d = Some (if ((y =? 1) && (m =? 1) && (d =? 1))%Z then [0;0;0;0] else spec_date_bytes y m d).
Proof.
  intros H. apply calendar_bounds in H. unfold enc_date.
  destruct ((y =? 1) && (m =? 1) && (d =? 1))%Z; [reflexivity|]. apply enc_ymd; lia.
Qed.

Lemma enc_datetime_spec y m d h mi s : calendar_date y m d = true -> time_of_day h mi s = true ->
  enc_datetime y m d h mi s =
  Some (if ((y =? 1) && (m =? 1) && (d =? 1) && (h =? 0) && (mi =? 0) && (s =? 0))%Z then [0;0;0;0;0;0;0]
        else spec_date_bytes y m d ++ [bcd2 (zn h); bcd2 (zn mi); bcd2 (zn s)]).
Proof.
  intros H T. apply calendar_bounds in H. apply time_bounds in T. unfold enc_datetime.
  destruct ((y =? 1) && (m =? 1) && (d =? 1) && (h =? 0) && (mi =? 0) && (s =? 0))%Z; [reflexivity|].
  apply enc_datetime_full; lia.
Qed.

Lemma if_len {A} (c : bool) (a b : list A) n : length a = n -> length b = n -> length (if c then a else b) = n.
Proof. destruct c; auto. Qed.

Theorem enc_spec : forall k v, in_domain k v = true -> enc_matches k v.
Proof.
  intros k v H.
  destruct k; destruct v as [n|b|ip|[[a p]|]|mac|y m d|y m d h mi s|y m d|h mi s|h m|];
    cbn [in_domain] in H; try discriminate H.
  - (* KU8 *) unfold enc_matches. cbn. exists [n mod 256]. repeat split. f_equal. lia.
  - (* KU16 *) unfold enc_matches. cbn [spec_bytes enc width]. exists (le16 n). rewrite le16_spec. repeat split.
  - (* KU32 *) unfold enc_matches. cbn [spec_bytes enc width]. exists (le32 n). rewrite le32_spec. repeat split.
  - (* KBool *) unfold enc_matches. cbn. exists [if b then 1 else 0]. repeat split.
  - (* KIP *) unfold enc_matches. cbn [spec_bytes enc width]. exists (to4 ip). unfold to4.
    apply andb_prop in H as [H _].
    destruct (Nat.eqb (length ip) 4) eqn:E4.
    + apply Nat.eqb_eq in E4. split; [reflexivity|]. split; [|exact E4]. now apply firstn_exact.
    + cbn [orb] in H. rewrite H. apply andb_prop in H as [E16 _]. apply Nat.eqb_eq in E16.
      assert (length (skipn 12 ip) = 4%nat) as L by (rewrite skipn_length; lia).
      split; [reflexivity|]. split; [|exact L]. now apply firstn_exact.
  - (* KAddrPort *) unfold enc_matches. cbn [spec_bytes enc width].
    apply andb_prop in H as [H _]. apply andb_prop in H as [E4 _]. rewrite E4. apply Nat.eqb_eq in E4.
    exists (a ++ le16 p). rewrite le16_spec.
    assert (length (a ++ spec_le16 p) = 6%nat) as L by (rewrite app_length, E4; reflexivity).
    split; [reflexivity|]. split; [|exact L]. now apply firstn_exact.
  - (* KMACraw *) unfold enc_matches. cbn [spec_bytes enc width]. apply andb_prop in H as [E _]. apply Nat.eqb_eq in E.
    exists mac. split; [reflexivity|]. split; [|exact E]. now apply firstn_exact.
  - (* KMacT *) apply andb_prop in H as [E _]. apply Nat.eqb_eq in E.
    eapply matches_marshaler; [reflexivity|reflexivity| |exact E].
    unfold pad_right. rewrite E. cbn [Nat.sub repeat]. rewrite app_nil_r. now apply firstn_exact.
  - (* KSerial *) eapply matches_marshaler; [reflexivity|reflexivity|apply le32_spec|reflexivity].
  - (* KDate *) apply andb_prop in H as [H _].
    eapply matches_marshaler; [reflexivity| cbn [enc]; rewrite (enc_date_spec _ _ _ H); reflexivity | reflexivity |].
    apply if_len; reflexivity.
  - (* KDateP, date *) apply andb_prop in H as [H _].
    eapply matches_marshaler; [reflexivity| cbn [enc]; rewrite (enc_date_spec _ _ _ H); reflexivity | reflexivity |].
    apply if_len; reflexivity.
  - (* KDateP, nil *) reflexivity.
  - (* KDateTime *) apply andb_prop in H as [H T]. apply andb_prop in H as [H _].
    eapply matches_marshaler; [reflexivity| cbn [enc]; rewrite (enc_datetime_spec _ _ _ _ _ _ H T); reflexivity | reflexivity |].
    apply if_len; reflexivity.
  - (* KDateTimeP *) apply andb_prop in H as [H T]. apply andb_prop in H as [H _].
    eapply matches_marshaler; [reflexivity| cbn [enc]; rewrite (enc_datetime_spec _ _ _ _ _ _ H T); reflexivity | reflexivity |].
    apply if_len; reflexivity.
  - (* KDateTimeP nil *) reflexivity.
  - (* KSysDate *) apply andb_prop in H as [H R]. pose proof (calendar_bounds _ _ _ H) as B.
    eapply matches_marshaler; [reflexivity| cbn [enc]; rewrite enc_hms by lia; reflexivity | | reflexivity].
    unfold zn. f_equal. f_equal. lia.
  - (* KSysTime *) pose proof (time_bounds _ _ _ H) as B.
    eapply matches_marshaler; [reflexivity| cbn [enc]; rewrite enc_hms by lia; reflexivity | reflexivity | reflexivity].
  - (* KHHmm *) assert ((0 <= h <= 99)%Z /\ (0 <= m <= 99)%Z) as [Bh Bm] by (unfold zrange in H; lia).
    eapply matches_marshaler; [reflexivity| cbn [enc]; rewrite enc_hm by lia; reflexivity | reflexivity | reflexivity].
  - (* KHHmmP *) assert ((0 <= h <= 99)%Z /\ (0 <= m <= 99)%Z) as [Bh Bm] by (unfold zrange in H; lia).
    eapply matches_marshaler; [reflexivity| cbn [enc]; rewrite enc_hm by lia; reflexivity | reflexivity | reflexivity].
  - (* KHHmmP nil *) reflexivity.
  - (* KPIN *) eapply matches_marshaler; [reflexivity|reflexivity|apply le24_spec|reflexivity].
  - (* KVersion *) eapply matches_marshaler; [reflexivity|reflexivity|apply be16_spec|reflexivity].
Qed.

(* ---------- round trip at the level of one field ---------- *)
Lemma fval_eqb_eq a b : fval_eqb a b = true -> a = b.
Proof.
  destruct a as [n|b1|l|[[a1 p1]|]|l|y m d|y m d h mi s|y m d|h mi s|h m|];
  destruct b as [n'|b2|l'|[[a2 p2]|]|l'|y' m' d'|y' m' d' h' mi' s'|y' m' d'|h' mi' s'|h' m'|];
    cbn [fval_eqb]; intros H; try discriminate H; try reflexivity.
  - apply N.eqb_eq in H. now subst.
  - apply Bool.eqb_prop in H. now subst.
  - apply nlist_eqb_eq in H. now subst.
  - apply andb_prop in H as [H1 H2]. apply nlist_eqb_eq in H1. apply N.eqb_eq in H2. now subst.
  - apply nlist_eqb_eq in H. now subst.
  - repeat (apply andb_prop in H as [H ?]). repeat match goal with X : (_ =? _)%Z = true |- _ => apply Z.eqb_eq in X end. now subst.
  - repeat (apply andb_prop in H as [H ?]). repeat match goal with X : (_ =? _)%Z = true |- _ => apply Z.eqb_eq in X end. now subst.
  - repeat (apply andb_prop in H as [H ?]). repeat match goal with X : (_ =? _)%Z = true |- _ => apply Z.eqb_eq in X end. now subst.
  - repeat (apply andb_prop in H as [H ?]). repeat match goal with X : (_ =? _)%Z = true |- _ => apply Z.eqb_eq in X end. now subst.
  - repeat (apply andb_prop in H as [H ?]). repeat match goal with X : (_ =? _)%Z = true |- _ => apply Z.eqb_eq in X end. now subst.
Qed.

Lemma unbcd2_bcd2 x : x <= 99 -> unbcd2 (bcd2 x) = Some x.
Proof.
  intros H. unfold unbcd2, bcd2.
  assert ((16 * (x / 10) + x mod 10) / 16 = x / 10) as -> by lia.
  assert ((16 * (x / 10) + x mod 10) mod 16 = x mod 10) as -> by lia.
  assert ((x / 10 <=? 9) && (x mod 10 <=? 9) = true) as -> by lia.
  f_equal. lia.
Qed.

Lemma date_of_spec_bytes y m d : calendar_date y m d = true ->
  date_of_bytes (spec_date_bytes y m d) = Some (Some (y, m, d)).
Proof.
  intros H. pose proof (calendar_bounds _ _ _ H) as (By & Bm & Bd).
  unfold date_of_bytes, spec_date_bytes, un2, zn.
  rewrite !unbcd2_bcd2 by lia.
  replace (Z.of_N (100 * (Z.to_N y / 100) + Z.to_N y mod 100)) with y by lia.
  rewrite !Z2N.id by lia. now rewrite H.
Qed.

(* the value a field holds after unmarshal *)
Definition decv (k : kind) (vtag : option (option N)) (b : list N) : outcome fval :=
  match dec k vtag b with
  | Ok (Some v) => Ok v
  | Ok None => Ok (zero_of k)
  | Err => Err
  | Panic => Panic
  end.

Lemma decv_of_spec k b w : length b = width k -> spec_dec k b = DVal w -> decv k None b = Ok w.
Proof.
  intros L S. pose proof (dec_agrees_all k b L) as A. rewrite S in A. unfold decv.
  destruct (dec k None b) as [[v'|]| |]; cbn [dec_agrees] in A; try discriminate A.
  apply fval_eqb_eq in A. now subst.
Qed.

Lemma byte_n_0 n : byte_n n 0 = n mod 256.
Proof. unfold byte_n. change (2 ^ (8 * 0)) with 1. now rewrite N.div_1_r. Qed.
Lemma byte_n_1 n : byte_n n 1 = (n / 256) mod 256.
Proof. reflexivity. Qed.
Lemma byte_n_2 n : byte_n n 2 = (n / 65536) mod 256.
Proof. reflexivity. Qed.
Lemma byte_n_3 n : byte_n n 3 = (n / 16777216) mod 256.
Proof. reflexivity. Qed.

Definition field_zero (k : kind) (v : fval) : bool :=
  match k, v with
  | KDate, VDate y m d | KDateP, VDate y m d => is_date_zero y m d
  | KDateTime, VDateTime y m d h mi s | KDateTimeP, VDateTime y m d h mi s => is_datetime_zero y m d h mi s
  | _, _ => false
  end.

Lemma date_bytes_split y m d r : firstn 4 (spec_date_bytes y m d ++ r) = spec_date_bytes y m d
                                 /\ skipn 4 (spec_date_bytes y m d ++ r) = r.
Proof. split; reflexivity. Qed.

Lemma bcd2_pos x : 1 <= x <= 99 -> bcd2 x <> 0.
Proof. unfold bcd2. lia. Qed.

Lemma datetime_not_sentinel y m d r : calendar_date y m d = true ->
  nlist_eqb (spec_date_bytes y m d ++ r) [0;0;0;0;0;0;0] || nlist_eqb (spec_date_bytes y m d ++ r) [32;0;0;0;0;0;0] = false.
Proof.
  intros H. pose proof (calendar_bounds _ _ _ H) as (By & Bm & Bd).
  assert (bcd2 (zn m) =? 0 = false) as E by (apply N.eqb_neq, bcd2_pos; unfold zn; lia).
  unfold spec_date_bytes. cbn [app nlist_eqb]. rewrite E.
  cbn [andb]. now rewrite !andb_false_r.
Qed.

Lemma datetime_roundtrip y m d h mi s :
  calendar_date y m d = true -> time_of_day h mi s = true ->
  spec_dec KDateTime (spec_date_bytes y m d ++ [bcd2 (zn h); bcd2 (zn mi); bcd2 (zn s)]) = DVal (VDateTime y m d h mi s).
Proof.
  intros H T. pose proof (time_bounds _ _ _ T) as (Bh & Bmi & Bs).
  unfold spec_dec. rewrite datetime_not_sentinel by exact H.
  destruct (date_bytes_split y m d [bcd2 (zn h); bcd2 (zn mi); bcd2 (zn s)]) as [-> ->].
  rewrite date_of_spec_bytes by exact H. unfold un2, zn.
  rewrite !unbcd2_bcd2 by lia. rewrite !Z2N.id by lia. now rewrite T.
Qed.

Lemma all_bytes_4 (a : list N) : length a = 4%nat -> exists a1 a2 a3 a4, a = [a1; a2; a3; a4].
Proof. destruct a as [|a1 [|a2 [|a3 [|a4 [|]]]]]; try discriminate. eauto. Qed.

(* protocol decoding of the protocol bytes of a non-zero in-domain value gives the value back *)
Lemma spec_roundtrip k v bs : in_domain k v = true -> field_zero k v = false -> spec_bytes k v = Some bs ->
  spec_dec k bs = DVal (canon k v).
Proof.
  intros H NZ S.
  destruct k; destruct v as [n|b|ip|[[a p]|]|mac|y m d|y m d h mi s|y m d|h mi s|h m|];
    cbn [in_domain] in H; try discriminate H; cbn [spec_bytes] in S; try discriminate S; injection S as <-; cbn [canon field_zero] in *.
  - (* KU8 *) reflexivity.
  - (* KU16 *) unfold spec_le16. rewrite byte_n_0, byte_n_1. cbn [spec_dec]. do 2 f_equal. lia.
  - (* KU32 *) unfold spec_le32. rewrite byte_n_0, byte_n_1, byte_n_2, byte_n_3. cbn [spec_dec]. do 2 f_equal. lia.
  - (* KBool *) destruct b; reflexivity.
  - (* KIP *) reflexivity.
  - (* KAddrPort *) apply andb_prop in H as [H Hp]. apply andb_prop in H as [E4 _]. apply Nat.eqb_eq in E4.
    destruct (all_bytes_4 a E4) as (a1 & a2 & a3 & a4 & ->).
    unfold spec_le16. rewrite byte_n_0, byte_n_1. cbn [app spec_dec]. do 4 f_equal. lia.
  - (* KMACraw *) reflexivity.
  - (* KMacT *) reflexivity.
  - (* KSerial *) unfold spec_le32. rewrite byte_n_0, byte_n_1, byte_n_2, byte_n_3. cbn [spec_dec]. do 2 f_equal. lia.
  - (* KDate *) apply andb_prop in H as [H Y1].
    assert (((y =? 1) && (m =? 1) && (d =? 1))%Z = false) as E.
    { cbn [field_zero] in NZ. destruct ((y =? 1) && (m =? 1) && (d =? 1))%Z eqn:E; [|reflexivity].
      assert (y = 1 /\ m = 1 /\ d = 1)%Z as (-> & -> & ->) by lia. discriminate NZ. }
    unfold is_date_zero in *. rewrite E. unfold spec_dec. rewrite date_of_spec_bytes by exact H. unfold is_date_zero. now rewrite E.
  - (* KDateP *) apply andb_prop in H as [H Y1].
    assert (((y =? 1) && (m =? 1) && (d =? 1))%Z = false) as E.
    { cbn [field_zero] in NZ. destruct ((y =? 1) && (m =? 1) && (d =? 1))%Z eqn:E; [|reflexivity].
      assert (y = 1 /\ m = 1 /\ d = 1)%Z as (-> & -> & ->) by lia. discriminate NZ. }
    unfold is_date_zero in *. rewrite E. unfold spec_dec. rewrite date_of_spec_bytes by exact H. unfold is_date_zero. now rewrite E.
  - (* KDateTime *) apply andb_prop in H as [H T]. apply andb_prop in H as [H _].
    cbn [field_zero] in NZ. rewrite NZ. now apply datetime_roundtrip.
  - (* KDateTimeP *) apply andb_prop in H as [H T]. apply andb_prop in H as [H _].
    cbn [field_zero] in NZ. rewrite NZ. change (spec_dec KDateTimeP) with (spec_dec KDateTime). now apply datetime_roundtrip.
  - (* KSysDate *) apply andb_prop in H as [H R]. pose proof (calendar_bounds _ _ _ H) as (By & Bm & Bd).
    unfold zrange in R. unfold spec_dec.
    assert (nlist_eqb [bcd2 (zn y mod 100); bcd2 (zn m); bcd2 (zn d)] [0; 0; 0] = false) as ->.
    { cbn [nlist_eqb]. assert (bcd2 (zn m) =? 0 = false) as -> by (apply N.eqb_neq, bcd2_pos; unfold zn; lia).
      now rewrite andb_false_r. }
    unfold un2, zn. rewrite !unbcd2_bcd2 by lia.
    assert (Z.of_N (if 69 <=? Z.to_N y mod 100 then 1900 + Z.to_N y mod 100 else 2000 + Z.to_N y mod 100) = y) as ->
      by (destruct (69 <=? Z.to_N y mod 100) eqn:C; lia).
    rewrite !Z2N.id by lia. now rewrite H.
  - (* KSysTime *) pose proof (time_bounds _ _ _ H) as (Bh & Bmi & Bs).
    unfold spec_dec, un2, zn. rewrite !unbcd2_bcd2 by lia. rewrite !Z2N.id by lia. now rewrite H.
  - (* KHHmm *) assert ((0 <= h <= 24)%Z /\ (0 <= m <= 59)%Z) as [Bh Bm] by (unfold zrange in H; lia).
    unfold spec_dec, un2, zn. rewrite !unbcd2_bcd2 by lia.
    assert (((Z.to_N h <=? 23) && (Z.to_N m <=? 59)) || ((Z.to_N h =? 24) && (Z.to_N m =? 0)) = true) as -> by (unfold zrange in H; lia).
    now rewrite !Z2N.id by lia.
  - (* KHHmmP *) change (spec_dec KHHmmP) with (spec_dec KHHmm). assert ((0 <= h <= 24)%Z /\ (0 <= m <= 59)%Z) as [Bh Bm] by (unfold zrange in H; lia).
    unfold spec_dec, un2, zn. rewrite !unbcd2_bcd2 by lia.
    assert (((Z.to_N h <=? 23) && (Z.to_N m <=? 59)) || ((Z.to_N h =? 24) && (Z.to_N m =? 0)) = true) as -> by (unfold zrange in H; lia).
    now rewrite !Z2N.id by lia.
  - (* KPIN *) unfold spec_le24. rewrite byte_n_0, byte_n_1, byte_n_2. cbn [spec_dec]. do 2 f_equal. lia.
  - (* KVersion *) unfold spec_be16. rewrite byte_n_0, byte_n_1. cbn [spec_dec]. do 2 f_equal. lia.
Qed.

Definition field_image (k : kind) (v : fval) : list N :=
  match spec_bytes k v with Some bs => bs | None => repeat 0 (width k) end.

Lemma spec_bytes_length k v bs : in_domain k v = true -> spec_bytes k v = Some bs -> length bs = width k.
Proof.
  intros H S. pose proof (enc_spec k v H) as M. unfold enc_matches in M. rewrite S in M.
  destruct M as (bs' & _ & _ & L). exact L.
Qed.

Lemma field_image_length k v : in_domain k v = true -> length (field_image k v) = width k.
Proof.
  intros H. unfold field_image. destruct (spec_bytes k v) eqn:S.
  - eapply spec_bytes_length; eauto. - apply repeat_length.
Qed.

(* decoding the protocol image of an in-domain value gives the value back (up to [canon]) *)
Theorem decv_roundtrip : forall k v, in_domain k v = true -> decv k None (field_image k v) = Ok (canon k v).
Proof.
  intros k v H. unfold field_image.
  destruct (spec_bytes k v) as [bs|] eqn:S.
  - destruct (field_zero k v) eqn:Z.
    + destruct k; destruct v as [n|b|ip|[[a p]|]|mac|y m d|y m d h mi s|y m d|h mi s|h m|];
        cbn [field_zero] in Z; try discriminate Z; cbn [spec_bytes] in S; rewrite Z in S; injection S as <-;
        cbn [canon]; rewrite ?Z.
      * unfold is_date_zero in Z. assert (y = 1 /\ m = 1 /\ d = 1)%Z as (-> & -> & ->) by lia. reflexivity.
      * reflexivity.
      * unfold is_datetime_zero in Z.
        assert (y = 1 /\ m = 1 /\ d = 1 /\ h = 0 /\ mi = 0 /\ s = 0)%Z as (-> & -> & -> & -> & -> & ->) by lia. reflexivity.
      * reflexivity.
    + apply decv_of_spec.
      * eapply spec_bytes_length; eauto.
      * now apply spec_roundtrip.
  - destruct k; destruct v as [n|b|ip|[[a p]|]|mac|y m d|y m d h mi s|y m d|h mi s|h m|];
      cbn [in_domain] in H; try discriminate H; cbn [spec_bytes] in S; try discriminate S; reflexivity.
Qed.
