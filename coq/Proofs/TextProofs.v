(* C14: round trips and rejections of the JSON / text forms (model: Model/TextForms.v, Model/Cases14.v) *)
From UV Require Import Proofs.WireProofs Proofs.ApiProofs Proofs.AddrProofs.
From UV Require Import Base.Bytes Model.WireTypes Spec.WireSpec Model.Addr Model.Cases15 Model.TextForms Model.Cases14.
From Coq Require Import Lia ZifyN ZifyNat ZifyBool.
Ltac Zify.zify_post_hook ::= Z.div_mod_to_equations.
Open Scope N_scope.

(* ---------- digits ---------- *)
Lemma fmt_w_nonneg w z : (0 <= z)%Z -> fmt_w w z = fmt_int w z.
Proof. intros H. unfold fmt_w, fmt_int. destruct (z <? 0)%Z eqn:E; [lia|reflexivity]. Qed.

Lemma isdig_digit d : d <= 9 -> isdig (48 + d) = true.
Proof. intros H. unfold isdig. lia. Qed.
Lemma zd_digit d : zd (48 + d) = Z.of_N d.
Proof. unfold zd. lia. Qed.

Lemma fmtw2 z : (0 <= z <= 99)%Z -> fmt_w 2 z = [48 + zn z / 10; 48 + zn z mod 10].
Proof. intros H. rewrite fmt_w_nonneg by lia. now apply fmt2. Qed.
Lemma fmtw4 z : (0 <= z <= 9999)%Z ->
  fmt_w 4 z = [48 + (zn z / 100) / 10; 48 + (zn z / 100) mod 10; 48 + (zn z mod 100) / 10; 48 + (zn z mod 100) mod 10].
Proof. intros H. rewrite fmt_w_nonneg by lia. now apply fmt4. Qed.

Lemma num2_digits z : (0 <= z <= 99)%Z -> num2 (48 + zn z / 10) (48 + zn z mod 10) = z.
Proof. intros H. unfold num2. rewrite !zd_digit. unfold zn. lia. Qed.

(* ---------- date ---------- *)
Lemma parse_date10_str y m d : (0 <= y <= 9999)%Z -> (0 <= m <= 99)%Z -> (0 <= d <= 99)%Z ->
  parse_date10 (str_date y m d) = if valid_ymd (zn y) (zn m) (zn d) then Some (y, m, d) else None.
Proof.
  intros Hy Hm Hd. unfold str_date. rewrite fmtw4, !fmtw2 by lia. cbv beta iota delta [app parse_date10].
  cbv beta iota delta [forallb]. rewrite !isdig_digit by (unfold zn; lia). cbv beta iota delta [andb].
  rewrite !num2_digits by lia. rewrite !zd_digit.
  replace (Z.of_N (zn y / 100 / 10) * 1000 + Z.of_N ((zn y / 100) mod 10) * 100 + Z.of_N ((zn y mod 100) / 10) * 10 + Z.of_N ((zn y mod 100) mod 10))%Z
    with y by (unfold zn; lia).
  reflexivity.
Qed.

Definition date_dom (y m d : Z) : bool := ((1 <=? y) && (y <=? 9999))%Z && valid_ymd (zn y) (zn m) (zn d) && ((0 <=? m) && (0 <=? d))%Z.

Lemma valid_ymd_bounds y m d : valid_ymd y m d = true -> 1 <= m <= 12 /\ 1 <= d <= 31.
Proof.
  unfold valid_ymd, days_in. intros H. repeat (apply andb_prop in H as [H ?]).
  destruct (m =? 2); [destruct (is_leap y)|destruct ((m =? 4) || (m =? 6) || (m =? 9) || (m =? 11))]; lia.
Qed.

Theorem date_roundtrip y m d : date_dom y m d = true ->
  exists s, date_to (cv_date y m d) = Some s /\ date_of s = Some (cv_date y m d).
Proof.
  unfold date_dom. intros H. apply andb_prop in H as [H H3]. apply andb_prop in H as [H1 H2].
  pose proof (valid_ymd_bounds _ _ _ H2) as [Bm Bd].
  unfold date_to, cv_date. destruct ((y =? 1) && (m =? 1) && (d =? 1))%Z eqn:Z.
  - exists []. split; [reflexivity|]. cbn [date_of]. unfold cv_date_zero, cv_date.
    assert (y = 1 /\ m = 1 /\ d = 1)%Z as (-> & -> & ->) by lia. reflexivity.
  - exists (str_date y m d). split; [reflexivity|]. unfold date_of.
    assert (parse_date10 (str_date y m d) = Some (y, m, d)) as P.
    { rewrite parse_date10_str by (unfold zn in *; lia). now rewrite H2. }
    destruct (str_date y m d) eqn:S; [|now rewrite P].
    unfold str_date in S. rewrite fmtw4 in S by lia. discriminate S.
Qed.

(* ten characters dddd-dd-dd that do not name a calendar date are refused *)
Theorem date_rejects y1 y2 y3 y4 m1 m2 d1 d2 :
  valid_ymd (Z.to_N (zd y1 * 1000 + zd y2 * 100 + zd y3 * 10 + zd y4)) (Z.to_N (num2 m1 m2)) (Z.to_N (num2 d1 d2)) = false ->
  date_of [y1;y2;y3;y4;45;m1;m2;45;d1;d2] = None.
Proof.
  intros H. unfold date_of, parse_date10. destruct (forallb isdig [y1; y2; y3; y4; m1; m2; d1; d2]); [|reflexivity].
  cbv zeta. now rewrite H.
Qed.

(* ---------- time of day, date-time ---------- *)
Lemma parse_time8_str h mi s : (0 <= h <= 99)%Z -> (0 <= mi <= 99)%Z -> (0 <= s <= 99)%Z ->
  parse_time8 (str_time h mi s) = if valid_hms (zn h) (zn mi) (zn s) then Some (h, mi, s) else None.
Proof.
  intros Hh Hm Hs. unfold str_time. rewrite !fmtw2 by lia. cbv beta iota delta [app parse_time8].
  cbv beta iota delta [forallb]. rewrite !isdig_digit by (unfold zn; lia). cbv beta iota delta [andb].
  rewrite !num2_digits by lia. reflexivity.
Qed.

Definition datetime_dom (y m d h mi s : Z) : bool :=
  date_dom y m d && ((0 <=? h) && (0 <=? mi) && (0 <=? s))%Z && valid_hms (zn h) (zn mi) (zn s).

Lemma str_date_len y m d : (0 <= y <= 9999)%Z -> (0 <= m <= 99)%Z -> (0 <= d <= 99)%Z ->
  exists a b c e f g i j k l, str_date y m d = [a;b;c;e;f;g;i;j;k;l].
Proof. intros. unfold str_date. rewrite fmtw4, !fmtw2 by lia. cbn [app]. repeat eexists. Qed.
Lemma str_time_len h mi s : (0 <= h <= 99)%Z -> (0 <= mi <= 99)%Z -> (0 <= s <= 99)%Z ->
  exists a b c e f g i j, str_time h mi s = [a;b;c;e;f;g;i;j].
Proof. intros. unfold str_time. rewrite !fmtw2 by lia. cbn [app]. repeat eexists. Qed.

(* any non-empty zone abbreviation (Go prints one for every instant): the civil reading comes back *)
Theorem datetime_roundtrip14 y m d h mi s abbr : datetime_dom y m d h mi s = true -> abbr <> [] ->
  exists t, datetime_to (VL [VZ y; VZ m; VZ d; VZ h; VZ mi; VZ s]) abbr = Some t
            /\ datetime_of abbr t = DOk (VL [VZ y; VZ m; VZ d; VZ h; VZ mi; VZ s]).
Proof.
  unfold datetime_dom, date_dom. intros H Ha.
  apply andb_prop in H as [H V]. apply andb_prop in H as [H T]. apply andb_prop in H as [H P]. apply andb_prop in H as [R D].
  pose proof (valid_ymd_bounds _ _ _ D) as [Bm Bd].
  assert (zn h < 24 /\ zn mi < 60 /\ zn s < 60) as (Bh & Bmi & Bs) by (unfold valid_hms in V; lia).
  unfold datetime_to.
  destruct ((y =? 1) && (m =? 1) && (d =? 1) && (h =? 0) && (mi =? 0) && (s =? 0))%Z eqn:Z.
  - exists []. split; [reflexivity|].
    assert (y = 1 /\ m = 1 /\ d = 1 /\ h = 0 /\ mi = 0 /\ s = 0)%Z as (-> & -> & -> & -> & -> & ->) by lia. reflexivity.
  - eexists. split; [reflexivity|].
    assert (parse_date10 (str_date y m d) = Some (y, m, d)) as PD.
    { rewrite parse_date10_str by (unfold zn in *; lia). now rewrite D. }
    assert (parse_time8 (str_time h mi s) = Some (h, mi, s)) as PT.
    { rewrite parse_time8_str by (unfold zn in *; lia). now rewrite V. }
    destruct (str_date_len y m d) as (a1&a2&a3&a4&a5&a6&a7&a8&a9&a10&SD); try (unfold zn in *; lia).
    destruct (str_time_len h mi s) as (b1&b2&b3&b4&b5&b6&b7&b8&ST); try (unfold zn in *; lia).
    rewrite SD, ST in *. destruct abbr as [|c abbr]; [contradiction|].
    cbn [app datetime_of firstn skipn nth_error]. rewrite PD, PT. now rewrite nlist_eqb_refl.
Qed.

(* a syntactically complete date-time whose date or time of day is impossible is refused, whatever follows it *)
Theorem datetime_rejects (dte tme rest : list N) c : length dte = 10%nat -> length tme = 8%nat ->
  parse_date10 dte = None \/ parse_time8 tme = None -> forall inforce, datetime_of inforce (dte ++ c :: tme ++ rest) = DErr.
Proof.
  intros Ld Lt H inforce.
  do 10 (destruct dte as [|? dte]; [discriminate Ld|]). destruct dte; [|discriminate Ld].
  do 8 (destruct tme as [|? tme]; [discriminate Lt|]). destruct tme; [|discriminate Lt].
  cbn [app datetime_of firstn skipn nth_error]. destruct H as [H|H]; rewrite H.
  - reflexivity.
  - destruct (parse_date10 _) as [[[? ?] ?]|]; [|reflexivity]. destruct c as [|p]; [reflexivity|].
    repeat (destruct p as [p|p|]; try reflexivity).
Qed.

(* ---------- HH:mm ---------- *)
Lemma hhmm_of_str h m : (0 <= h <= 99)%Z -> (0 <= m <= 99)%Z ->
  hhmm_of (fmt_w 2 h ++ 58 :: fmt_w 2 m)
  = if ((24 <? h) || (59 <? m) || ((h =? 24) && negb (m =? 0)))%Z then None else Some (cv_hhmm h m).
Proof.
  intros Hh Hm. rewrite !fmtw2 by lia. cbv beta iota delta [app hhmm_of].
  cbv beta iota delta [forallb]. rewrite !isdig_digit by (unfold zn; lia). cbv beta iota delta [andb].
  rewrite !num2_digits by lia. reflexivity.
Qed.

Theorem hhmm_roundtrip h m : hhmm_dom h m = true ->
  exists s, hhmm_to (cv_hhmm h m) = Some s /\ hhmm_of s = Some (cv_hhmm h m).
Proof.
  unfold hhmm_dom. intros H. eexists. split; [reflexivity|]. rewrite hhmm_of_str by lia.
  destruct ((24 <? h) || (59 <? m) || ((h =? 24) && negb (m =? 0)))%Z eqn:E; [lia|reflexivity].
Qed.

(* two-digit hours and minutes outside 00:00..24:00 are refused: "24:01", "23:60", "25:00", ... *)
Theorem hhmm_rejects h m : (0 <= h <= 99)%Z -> (0 <= m <= 99)%Z -> hhmm_dom h m = false ->
  hhmm_of (fmt_w 2 h ++ 58 :: fmt_w 2 m) = None.
Proof.
  unfold hhmm_dom. intros Hh Hm H. rewrite hhmm_of_str by lia.
  destruct ((24 <? h) || (59 <? m) || ((h =? 24) && negb (m =? 0)))%Z eqn:E; [reflexivity|lia].
Qed.
Theorem hhmm_rejects_chars h1 h2 m1 m2 :
  ((24 <? num2 h1 h2) || (59 <? num2 m1 m2) || ((num2 h1 h2 =? 24) && negb (num2 m1 m2 =? 0)))%Z = true ->
  hhmm_of [h1; h2; 58; m1; m2] = None.
Proof. intros H. unfold hhmm_of. destruct (forallb isdig [h1; h2; m1; m2]); [|reflexivity]. cbv zeta. now rewrite H. Qed.

(* ---------- PIN ---------- *)
Lemma digits_len6 n : n <= 999999 -> (length (digits n) <= 6)%nat.
Proof.
  intros H. unfold digits. change 40%nat with (S (S (S (S (S (S 34)))))).
  rewrite digits_fuel_S. destruct (n <? 10) eqn:E1; [cbn; lia|].
  rewrite digits_fuel_S. destruct (n / 10 <? 10) eqn:E2; [cbn; lia|].
  rewrite digits_fuel_S. destruct (n / 10 / 10 <? 10) eqn:E3; [cbn; lia|].
  rewrite digits_fuel_S. destruct (n / 10 / 10 / 10 <? 10) eqn:E4; [cbn; lia|].
  rewrite digits_fuel_S. destruct (n / 10 / 10 / 10 / 10 <? 10) eqn:E5; [cbn; lia|].
  rewrite digits_fuel_S. destruct (n / 10 / 10 / 10 / 10 / 10 <? 10) eqn:E6; [cbn; lia|]. lia.
Qed.
Lemma lt_p10_40 n : n <= 999999 -> n < p10 40.
Proof.
  intros H. assert (p10 6 <= p10 40) by (unfold p10; apply N.pow_le_mono_r; lia).
  assert (p10 6 = 1000000) by reflexivity. lia.
Qed.

Theorem pin_roundtrip p : (0 <= p <= 999999)%Z -> exists s, pin_to (VZ p) = Some s /\ pin_of s = Some (VZ p).
Proof.
  intros H. unfold pin_to. destruct ((p =? 0) || (999999 <? p))%Z eqn:E.
  - exists []. split; [reflexivity|]. assert (p = 0)%Z as -> by lia. reflexivity.
  - eexists. split; [reflexivity|]. unfold pin_of.
    change (forallb isdig (digits (Z.to_N p))) with (forallb dig (digits (Z.to_N p))). rewrite digits_all_dig.
    pose proof (digits_len6 (Z.to_N p) ltac:(lia)) as L. apply Nat.leb_le in L. rewrite L. cbn [andb].
    destruct (digits (Z.to_N p)) eqn:D; [now apply digits_nonempty in D|]. rewrite <- D.
    unfold num_of_digits. rewrite digits_num by (apply lt_p10_40; lia). f_equal. f_equal. lia.
Qed.
(* more than six digits: refused *)
Theorem pin_rejects s : (6 < length s)%nat -> pin_of s = None.
Proof. intros H. unfold pin_of. apply Nat.leb_gt in H. rewrite H. now rewrite andb_false_r. Qed.

(* ---------- door control state, task type ---------- *)
Theorem control_roundtrip c : (1 <= c <= 3)%Z -> exists s, control_to (VZ c) = Some s /\ control_of s = Some (VZ c).
Proof. intros H. assert (c = 1 \/ c = 2 \/ c = 3)%Z as [ -> | [ -> | -> ] ] by lia; eexists; split; reflexivity. Qed.
Theorem control_rejects s : s <> s_normally_open -> s <> s_normally_closed -> s <> s_controlled -> control_of s = None.
Proof.
  intros A B C. unfold control_of.
  destruct (nlist_eqb s s_normally_open) eqn:E1; [now apply nlist_eqb_eq in E1|].
  destruct (nlist_eqb s s_normally_closed) eqn:E2; [now apply nlist_eqb_eq in E2|].
  destruct (nlist_eqb s s_controlled) eqn:E3; [now apply nlist_eqb_eq in E3|]. reflexivity.
Qed.

Definition tasktype_ok (t : Z) : bool :=
  match tasktype_to (VZ t) with
  | Some s => match tasktype_of_name s, tasktype_of_text s with Some (VZ a), Some (VZ b) => ((a =? t) && (b =? t))%Z | _, _ => false end
  | None => false
  end.
Lemma tasktype_enum : forallb tasktype_ok (zlist 0%Z 13%Z) = true.
Proof. vm_compute. reflexivity. Qed.
(* the JSON form is the name; the name also goes back through the text parser *)
Theorem tasktype_roundtrip t : (0 <= t <= 12)%Z ->
  exists s, tasktype_to (VZ t) = Some s /\ tasktype_of_name s = Some (VZ t) /\ tasktype_of_text s = Some (VZ t).
Proof.
  intros H. pose proof (proj1 (forallb_forall _ _) tasktype_enum t (in_zlist 0%Z 13%Z t ltac:(lia))) as E.
  unfold tasktype_ok in E. destruct (tasktype_to (VZ t)) as [s|]; [|discriminate E]. exists s. split; [reflexivity|].
  destruct (tasktype_of_name s) as [[a| |]|]; try discriminate E. destruct (tasktype_of_text s) as [[b| |]|]; try discriminate E.
  assert (a = t /\ b = t)%Z as [-> ->] by lia. split; reflexivity.
Qed.
Theorem tasktype_rejects_num n : (n <= 0 \/ 14 <= n)%Z -> tasktype_of_num n = None.
Proof. intros H. unfold tasktype_of_num. destruct ((0 <? n) && (n <? 14))%Z eqn:E; [lia|reflexivity]. Qed.
Theorem tasktype_accepts_num n : (1 <= n <= 13)%Z -> tasktype_of_num n = Some (VZ (n - 1)).
Proof. intros H. unfold tasktype_of_num. destruct ((0 <? n) && (n <? 14))%Z eqn:E; [reflexivity|lia]. Qed.

Theorem tasktype_numbers : forall n : Z, ((n <= 0 \/ 14 <= n)%Z -> tasktype_of_num n = None) /\ ((1 <= n <= 13)%Z -> tasktype_of_num n = Some (VZ (n - 1)%Z)).
Proof. intros n. split; [exact (tasktype_rejects_num n)|exact (tasktype_accepts_num n)]. Qed.

(* ---------- firmware version, MAC address ---------- *)
Lemma unhex_hexd_enum : forallb (fun d => match unhex (hexd d) with Some x => x =? d | None => false end) (map N.of_nat (seq 0 16)) = true.
Proof. vm_compute. reflexivity. Qed.
Lemma unhex_hexd d : d < 16 -> unhex (hexd d) = Some d.
Proof.
  intros H. assert (In d (map N.of_nat (seq 0 16))) as HIn.
  { apply in_map_iff. exists (N.to_nat d). split; [apply N2Nat.id|apply in_seq; lia]. }
  pose proof (proj1 (forallb_forall _ _) unhex_hexd_enum d HIn) as E. cbn beta in E.
  destruct (unhex (hexd d)) as [x|]; [|discriminate E]. apply N.eqb_eq in E. now subst.
Qed.
Theorem version_roundtrip n : (0 <= n < 65536)%Z -> exists s, version_to (VZ n) = Some s /\ version_of s = Some (VZ n).
Proof.
  intros H. eexists. split; [reflexivity|]. unfold version_of.
  rewrite !unhex_hexd by lia. f_equal. f_equal. lia.
Qed.

Definition hexbyte_ok (b : N) : bool :=
  match unhex (hexd (b / 16)), unhex (hexd (b mod 16)) with Some x, Some y => x * 16 + y =? b | _, _ => false end.
Lemma hexbyte_enum : forallb hexbyte_ok octets = true.
Proof. vm_compute. reflexivity. Qed.
Lemma hexbyte b : b < 256 -> exists x y, unhex (hexd (b / 16)) = Some x /\ unhex (hexd (b mod 16)) = Some y /\ x * 16 + y = b.
Proof.
  intros H. assert (In b octets) as HIn.
  { unfold octets. apply in_map_iff. exists (N.to_nat b). split; [apply N2Nat.id|apply in_seq; lia]. }
  pose proof (proj1 (forallb_forall _ _) hexbyte_enum b HIn) as E. unfold hexbyte_ok in E.
  destruct (unhex (hexd (b / 16))) as [x|]; [|discriminate E]. destruct (unhex (hexd (b mod 16))) as [y|]; [|discriminate E].
  exists x, y. repeat split. lia.
Qed.
Theorem mac_roundtrip a b c d e f : a < 256 -> b < 256 -> c < 256 -> d < 256 -> e < 256 -> f < 256 ->
  exists s, mac_to (VS [a;b;c;d;e;f]) = Some s /\ mac_of s = Some (VS [a;b;c;d;e;f]).
Proof.
  intros Ha Hb Hc Hd He Hf. eexists. split; [reflexivity|]. cbn [mac_str]. unfold mac_of.
  destruct (hexbyte a Ha) as (x1&x2&->&->&<-). destruct (hexbyte b Hb) as (x3&x4&->&->&<-).
  destruct (hexbyte c Hc) as (x5&x6&->&->&<-). destruct (hexbyte d Hd) as (y1&y2&->&->&<-).
  destruct (hexbyte e He) as (y3&y4&->&->&<-). destruct (hexbyte f Hf) as (y5&y6&->&->&<-). reflexivity.
Qed.

(* ---------- addresses ---------- *)
Theorem addr_roundtrip r a b c d p : a < 256 -> b < 256 -> c < 256 -> d < 256 -> (0 <= p <= 65535)%Z -> port_ok r (Z.to_N p) = true ->
  exists s, addr_to r (VL [VS [a;b;c;d]; VZ p]) = Some s /\ addr_of r s = POk (VL [VS [a;b;c;d]; VZ p]).
Proof.
  intros Ha Hb Hc Hd Hp Hr. eexists. split; [reflexivity|]. unfold addr_of.
  rewrite format_parse by (try assumption; lia). rewrite Z2N.id by lia. reflexivity.
Qed.
(* a port the role forbids, or no port where one is mandatory: refused *)
Theorem addr_rejects_port r a b c d p : a < 256 -> b < 256 -> c < 256 -> d < 256 -> p <= 65535 -> port_ok r p = false ->
  addr_of r (quad_str [a; b; c; d] ++ colon :: digits p) = PErr.
Proof. intros Ha Hb Hc Hd Hp Hr. unfold addr_of. rewrite accept_with_port by assumption. now rewrite Hr. Qed.
Theorem addr_rejects_listen_without_port a b c d : a < 256 -> b < 256 -> c < 256 -> d < 256 ->
  addr_of RListen (quad_str [a; b; c; d]) = PErr.
Proof. intros Ha Hb Hc Hd. unfold addr_of. now rewrite accept_without_port by assumption. Qed.

(* ---------- weekdays ---------- *)
Definition flag (b : bool) : cv := VZ (if b then 1 else 0).
Theorem weekdays_roundtrip b1 b2 b3 b4 b5 b6 b7 :
  let v := VL (map flag [b1; b2; b3; b4; b5; b6; b7]) in
  exists s, weekdays_to v = Some s /\ weekdays_of s = Some v.
Proof. destruct b1, b2, b3, b4, b5, b6, b7; eexists; (split; [reflexivity|]); vm_compute; reflexivity. Qed.

(* ---------- segments ---------- *)
Definition seg (h1 m1 h2 m2 : Z) : cv := VL [cv_hhmm h1 m1; cv_hhmm h2 m2].
Definition seg_dom (h1 m1 h2 m2 : Z) : bool := hhmm_dom h1 m1 && hhmm_dom h2 m2.

Lemma segment_roundtrip h1 m1 h2 m2 : seg_dom h1 m1 h2 m2 = true ->
  exists j, segment_to (seg h1 m1 h2 m2) = Some j /\ segment_of j = Some (seg h1 m1 h2 m2).
Proof.
  unfold seg_dom. intros H. apply andb_prop in H as [A B].
  destruct (hhmm_roundtrip h1 m1 A) as (s1 & T1 & O1). destruct (hhmm_roundtrip h2 m2 B) as (s2 & T2 & O2).
  unfold seg, segment_to. rewrite T1, T2. eexists. split; [reflexivity|].
  unfold segment_of, member_hhmm. cbn [jget].
  change (nlist_eqb k_start k_end) with false. change (nlist_eqb k_start k_start) with true. change (nlist_eqb k_end k_end) with true.
  cbv iota. now rewrite O1, O2.
Qed.

Definition absent : cv := VL [VZ 0; seg 0 0 0 0]%Z.
Definition present (sg : cv) : cv := VL [VZ 1; sg]%Z.

Ltac seg_open D j T O := destruct (segment_roundtrip _ _ _ _ D) as (j & T & O).
Ltac seg_close := unfold segments_to, present, absent; cbn [filter map];
  repeat match goal with T : segment_to ?x = Some _ |- _ => rewrite T; clear T end; cbn [forallb andb map];
  eexists; (split; [reflexivity|]); unfold segments_of; cbn [firstn map];
  repeat match goal with O : segment_of ?x = Some _ |- _ => rewrite O; clear O end; cbn [forallb andb map nth_error nth]; reflexivity.

(* every Segments value without a gap: a fresh (nil) map holds exactly the same entries afterwards *)
Theorem segments_roundtrip_0 : let v := VL [absent; absent; absent] in exists j, segments_to v = Some j /\ segments_of [] j = Some v.
Proof. eexists. split; reflexivity. Qed.
Theorem segments_roundtrip_1 a1 a2 a3 a4 : seg_dom a1 a2 a3 a4 = true ->
  let v := VL [present (seg a1 a2 a3 a4); absent; absent] in exists j, segments_to v = Some j /\ segments_of [] j = Some v.
Proof. intros Da v. subst v. seg_open Da ja Ta Oa. seg_close. Qed.
Theorem segments_roundtrip_2 a1 a2 a3 a4 b1 b2 b3 b4 : seg_dom a1 a2 a3 a4 = true -> seg_dom b1 b2 b3 b4 = true ->
  let v := VL [present (seg a1 a2 a3 a4); present (seg b1 b2 b3 b4); absent] in exists j, segments_to v = Some j /\ segments_of [] j = Some v.
Proof. intros Da Db v. subst v. seg_open Da ja Ta Oa. seg_open Db jb Tb Ob. seg_close. Qed.
Theorem segments_roundtrip_3 a1 a2 a3 a4 b1 b2 b3 b4 c1 c2 c3 c4 : seg_dom a1 a2 a3 a4 = true -> seg_dom b1 b2 b3 b4 = true -> seg_dom c1 c2 c3 c4 = true ->
  let v := VL [present (seg a1 a2 a3 a4); present (seg b1 b2 b3 b4); present (seg c1 c2 c3 c4)] in
  exists j, segments_to v = Some j /\ segments_of [] j = Some v.
Proof. intros Da Db Dc v. subst v. seg_open Da ja Ta Oa. seg_open Db jb Tb Ob. seg_open Dc jc Tc Oc. seg_close. Qed.

(* F15 (known finding): with a gap the encoding, which is positional and omits absent entries, decodes to a different value *)
Theorem segments_gap_refuted :
  exists v j, in_dom TySegments v = true /\ segments_to v = Some j /\ segments_of [] j <> Some v.
Proof.
  exists (VL [present (seg 8 30 9 45); absent; present (seg 15 10 18 0)])%Z. eexists. split; [reflexivity|]. split; [reflexivity|].
  vm_compute. discriminate.
Qed.

(* ---------- the text parsers on String() ---------- *)
Theorem text_date_roundtrip y m d : date_dom y m d = true -> (y, m, d) <> (1, 1, 1)%Z ->
  exists s, text_to 0 (cv_date y m d) = Some s /\ text_of 0 s = POk (cv_date y m d).
Proof.
  intros H NZ. destruct (date_roundtrip y m d H) as (s & T & O). exists s. split; [exact T|].
  unfold text_of. cbn [N.eqb]. unfold parse_date_text. destruct s as [|c s]; [|now rewrite O].
  unfold date_to, cv_date in T. destruct ((y =? 1) && (m =? 1) && (d =? 1))%Z eqn:Z.
  - exfalso. apply NZ. assert (y = 1 /\ m = 1 /\ d = 1)%Z as (-> & -> & ->) by lia. reflexivity.
  - unfold date_dom in H. apply andb_prop in H as [H _]. apply andb_prop in H as [H _].
    unfold str_date in T. rewrite fmtw4 in T by lia. discriminate T.
Qed.
Theorem text_hhmm_roundtrip h m : hhmm_dom h m = true ->
  exists s, text_to 1 (cv_hhmm h m) = Some s /\ text_of 1 s = POk (cv_hhmm h m).
Proof. intros H. destruct (hhmm_roundtrip h m H) as (s & T & O). exists s. split; [exact T|]. unfold text_of. cbn. now rewrite O. Qed.
Theorem text_systime_roundtrip h m s : ((0 <=? h) && (0 <=? m) && (0 <=? s))%Z = true -> valid_hms (zn h) (zn m) (zn s) = true ->
  exists t, text_to 2 (VL [VZ h; VZ m; VZ s]) = Some t /\ text_of 2 t = POk (VL [VZ h; VZ m; VZ s]).
Proof.
  intros P V. eexists. split; [reflexivity|]. unfold text_of. cbn [N.eqb Pos.eqb].
  rewrite parse_time8_str by (unfold valid_hms, zn in *; lia). now rewrite V.
Qed.
Theorem text_tasktype_roundtrip t : (0 <= t <= 12)%Z -> exists s, text_to 3 (VZ t) = Some s /\ text_of 3 s = POk (VZ t).
Proof. intros H. destruct (tasktype_roundtrip t H) as (s & T & _ & O). exists s. split; [exact T|]. unfold text_of. cbn. now rewrite O. Qed.
Theorem text_cardformat_roundtrip : forall f, (f = 0 \/ f = 1)%Z -> exists s, text_to 4 (VZ f) = Some s /\ text_of 4 s = POk (VZ f).
Proof. intros f [->| ->]; eexists; split; reflexivity. Qed.

(* ---------- the executable reject oracle used on the harness cases is sound for the model ---------- *)
Theorem must_reject_sound t j prior : (forall r, t <> TyAddr r) -> must_reject t j = true -> of_json t prior j = PErr.
Proof.
  intros NA H. destruct t; try discriminate H; try (exfalso; eapply NA; reflexivity).
  - (* date *) destruct j as [s| | | | |]; try discriminate H.
    do 10 (destruct s as [|? s]; [discriminate H|]). destruct s; [|discriminate H].
    cbn [must_reject] in H. repeat (apply andb_prop in H as [H ?]).
    repeat match goal with E : (_ =? 45) = true |- _ => apply N.eqb_eq in E; subst end.
    unfold of_json; cbn [of_json_a]. rewrite date_rejects; [reflexivity|]. now apply negb_true_iff.
  - (* HH:mm *) destruct j as [s| | | | |]; try discriminate H.
    do 5 (destruct s as [|? s]; [discriminate H|]). destruct s; [|discriminate H].
    cbn [must_reject] in H. repeat (apply andb_prop in H as [H ?]).
    repeat match goal with E : (_ =? 58) = true |- _ => apply N.eqb_eq in E; subst end.
    unfold of_json; cbn [of_json_a]. now rewrite hhmm_rejects_chars.
  - (* PIN *) destruct j as [s| | | | |]; try discriminate H. cbn [must_reject] in H. apply andb_prop in H as [_ H].
    unfold of_json; cbn [of_json_a]. rewrite pin_rejects; [reflexivity|]. now apply Nat.ltb_lt.
  - (* control state *) destruct j as [s| | | | |]; try discriminate H. cbn [must_reject] in H. unfold of_json; cbn [of_json_a]. unfold control_of.
    apply negb_true_iff in H. apply orb_false_iff in H as [H C]. apply orb_false_iff in H as [A B]. now rewrite A, B, C.
  - (* task type *) destruct j as [|n| | | |]; try discriminate H. cbn [must_reject] in H. unfold of_json; cbn [of_json_a].
    rewrite tasktype_rejects_num; [reflexivity|lia].
Qed.

(* ---------- composites: card, time profile, task ---------- *)
From UV Require Import Model.TextComposites.

Lemma date_text_parse y m d : date_dom y m d = true -> (y, m, d) <> (1, 1, 1)%Z ->
  exists s, date_to (cv_date y m d) = Some s /\ parse_date_text s = Some (cv_date y m d).
Proof.
  intros H NZ. destruct (text_date_roundtrip y m d H NZ) as (s & T & O). exists s. split; [exact T|].
  unfold text_of in O. cbn [N.eqb] in O. destruct (parse_date_text s); [now injection O as ->|discriminate O].
Qed.

Definition u8 (z : Z) : bool := ((0 <=? z) && (z <? 256))%Z.

Theorem card_roundtrip n y1 m1 d1 y2 m2 d2 a b c d pin :
  (0 <= n < 4294967296)%Z -> date_dom y1 m1 d1 = true -> (y1, m1, d1) <> (1, 1, 1)%Z -> date_dom y2 m2 d2 = true -> (y2, m2, d2) <> (1, 1, 1)%Z ->
  u8 a = true -> u8 b = true -> u8 c = true -> u8 d = true -> (0 <= pin <= 999999)%Z ->
  let v := VL [VZ n; cv_date y1 m1 d1; cv_date y2 m2 d2; VL [VZ a; VZ b; VZ c; VZ d]; VZ pin] in
  exists j, card_to v = Some j /\ card_of j = POk v.
Proof.
  intros Hn D1 N1 D2 N2 Ha Hb Hc Hd Hp v. subst v.
  destruct (date_text_parse y1 m1 d1 D1 N1) as (s1 & T1 & P1). destruct (date_text_parse y2 m2 d2 D2 N2) as (s2 & T2 & P2).
  destruct (pin_roundtrip pin Hp) as (sp & TP & OP).
  unfold card_to. rewrite T1, T2. assert ((999999 <? pin)%Z = false) as -> by lia.
  unfold u8 in *.
  apply andb_prop in Ha as [Ha1 Ha2]. apply andb_prop in Hb as [Hb1 Hb2]. apply andb_prop in Hc as [Hc1 Hc2]. apply andb_prop in Hd as [Hd1 Hd2].
  assert ((0 <=? n)%Z = true /\ (n <? 4294967296)%Z = true) as [Hn1 Hn2] by lia.
  destruct (pin =? 0)%Z eqn:Z0.
  - assert (pin = 0%Z) by lia. subst pin. eexists. split; [reflexivity|].
    lazy -[parse_date_text pin_of Z.leb Z.ltb]. rewrite P1, P2, Ha1, Ha2, Hb1, Hb2, Hc1, Hc2, Hd1, Hd2, Hn1, Hn2. reflexivity.
  - rewrite TP. eexists. split; [reflexivity|].
    lazy -[parse_date_text pin_of Z.leb Z.ltb]. rewrite P1, P2, OP, Ha1, Ha2, Hb1, Hb2, Hc1, Hc2, Hd1, Hd2, Hn1, Hn2. reflexivity.
Qed.

Theorem segments_roundtrip_3p prior a1 a2 a3 a4 b1 b2 b3 b4 c1 c2 c3 c4 : seg_dom a1 a2 a3 a4 = true -> seg_dom b1 b2 b3 b4 = true -> seg_dom c1 c2 c3 c4 = true ->
  let v := VL [present (seg a1 a2 a3 a4); present (seg b1 b2 b3 b4); present (seg c1 c2 c3 c4)] in
  exists j, segments_to v = Some j /\ segments_of prior j = Some v.
Proof. intros Da Db Dc v. subst v. seg_open Da ja Ta Oa. seg_open Db jb Tb Ob. seg_open Dc jc Tc Oc. seg_close. Qed.

Definition date_dom0 (y m d : Z) : bool := date_dom y m d.     (* 0001-01-01, the zero date, included *)

Theorem profile_roundtrip id linked y1 m1 d1 y2 m2 d2 f1 f2 f3 f4 f5 f6 f7 a1 a2 a3 a4 b1 b2 b3 b4 c1 c2 c3 c4 :
  u8 id = true -> u8 linked = true -> date_dom y1 m1 d1 = true -> date_dom y2 m2 d2 = true ->
  seg_dom a1 a2 a3 a4 = true -> seg_dom b1 b2 b3 b4 = true -> seg_dom c1 c2 c3 c4 = true ->
  let v := VL [VZ id; VZ linked; cv_date y1 m1 d1; cv_date y2 m2 d2; VL (map flag [f1; f2; f3; f4; f5; f6; f7]);
               VL [present (seg a1 a2 a3 a4); present (seg b1 b2 b3 b4); present (seg c1 c2 c3 c4)]] in
  exists j, profile_to v = Some j /\ profile_of j = POk v.
Proof.
  intros Hid Hl D1 D2 Sa Sb Sc v. subst v.
  destruct (date_roundtrip y1 m1 d1 D1) as (s1 & T1 & O1). destruct (date_roundtrip y2 m2 d2 D2) as (s2 & T2 & O2).
  destruct (weekdays_roundtrip f1 f2 f3 f4 f5 f6 f7) as (w & TW & OW).
  destruct (segments_roundtrip_3p [zero_seg; zero_seg; zero_seg] _ _ _ _ _ _ _ _ _ _ _ _ Sa Sb Sc) as (js & TS & OS).
  cbv zeta in TW, OW, TS, OS.
  unfold profile_to. rewrite T1, T2, TW, TS. unfold u8 in *.
  apply andb_prop in Hid as [Hi1 Hi2]. apply andb_prop in Hl as [Hl1 Hl2].
  destruct (linked =? 0)%Z eqn:Z0.
  - assert (linked = 0%Z) by lia. subst linked. eexists. split; [reflexivity|].
    lazy -[date_of weekdays_of segments_of Z.leb Z.ltb flag map present seg zero_seg]. rewrite O1, O2, OW, OS, Hi1, Hi2. reflexivity.
  - eexists. split; [reflexivity|].
    lazy -[date_of weekdays_of segments_of Z.leb Z.ltb flag map present seg zero_seg]. rewrite O1, O2, OW, OS, Hi1, Hi2, Hl1, Hl2. reflexivity.
Qed.

Theorem task_roundtrip ty door y1 m1 d1 y2 m2 d2 f1 f2 f3 f4 f5 f6 f7 h mi cards :
  (0 <= ty <= 12)%Z -> u8 door = true -> u8 cards = true -> date_dom y1 m1 d1 = true -> date_dom y2 m2 d2 = true -> hhmm_dom h mi = true ->
  let v := VL [VZ ty; VZ door; cv_date y1 m1 d1; cv_date y2 m2 d2; VL (map flag [f1; f2; f3; f4; f5; f6; f7]); cv_hhmm h mi; VZ cards] in
  exists j, task_to v = Some j /\ task_of j = POk v.
Proof.
  intros Hty Hd Hc D1 D2 HH v. subst v.
  destruct (date_roundtrip y1 m1 d1 D1) as (s1 & T1 & O1). destruct (date_roundtrip y2 m2 d2 D2) as (s2 & T2 & O2).
  destruct (weekdays_roundtrip f1 f2 f3 f4 f5 f6 f7) as (w & TW & OW). cbv zeta in TW, OW.
  destruct (hhmm_roundtrip h mi HH) as (sh & TH & OH).
  destruct (tasktype_roundtrip ty Hty) as (sn & TN & ON & _).
  unfold task_to. rewrite TN, T1, T2, TW, TH. unfold u8 in *.
  apply andb_prop in Hd as [Hd1 Hd2]. apply andb_prop in Hc as [Hc1 Hc2].
  destruct (door =? 0)%Z eqn:Zd; destruct (cards =? 0)%Z eqn:Zc;
    try (assert (door = 0%Z) by lia; subst door); try (assert (cards = 0%Z) by lia; subst cards);
    (eexists; split; [reflexivity|]);
    lazy -[date_of weekdays_of hhmm_of tasktype_of_name Z.leb Z.ltb flag map];
    rewrite O1, O2, OW, OH, ON, ?Hd1, ?Hd2, ?Hc1, ?Hc2; reflexivity.
Qed.
