(* C08, model B: soundness of the lock-set discipline in the trace model, and the generated-data obligation. *)
From Coq Require Import String List Bool Arith Lia.
From UV Require Import Gen.SyncSkeleton Gen.SharedState Model.Sync.
Import ListNotations.
Open Scope string_scope.
Open Scope list_scope.

Lemma st_eq_dec (a b : option thread) : {a = b} + {a <> b}.
Proof. decide equality. apply Nat.eq_dec. Qed.
Lemma ev_eq_dec (a b : thread * event) : {a = b} + {a <> b}.
Proof. decide equality; [decide equality; try apply string_dec; apply Bool.bool_dec|apply Nat.eq_dec]. Qed.

Lemma step_keeps m t1 te st' : step m (Some t1) te = Some st' -> te <> (t1, Rel m) -> st' = Some t1.
Proof.
  destruct te as [t e]. unfold step. cbn [fst snd]. destruct e as [m'|m'|v w].
  - destruct (String.eqb m' m); [discriminate|]. now intros [= <-].
  - destruct (String.eqb m' m) eqn:E; [|now intros [= <-]].
    destruct (Nat.eqb t1 t) eqn:N; [|discriminate]. apply String.eqb_eq in E. apply Nat.eqb_eq in N. subst.
    intros _ H. now elim H.
  - now intros [= <-].
Qed.

Lemma step_to_holder m st te t2 : step m st te = Some (Some t2) -> st <> Some t2 -> st = None /\ te = (t2, Acq m).
Proof.
  destruct te as [t e]. unfold step. cbn [fst snd]. destruct e as [m'|m'|v w].
  - destruct (String.eqb m' m) eqn:E.
    + apply String.eqb_eq in E. subst. destruct st; [discriminate|]. intros [= <-] _. split; reflexivity.
    + intros [= ->] H. now elim H.
  - destruct (String.eqb m' m).
    + destruct st as [o|]; [|discriminate]. destruct (Nat.eqb o t); discriminate.
    + intros [= ->] H. now elim H.
  - intros [= ->] H. now elim H.
Qed.

(* from a state other than "held by t2" to "held by t2": t2 acquires m on the way; and if m was held by t1, t1 releases
   it before that *)
Lemma run_reaches m t2 : forall q st, run m st q = Some (Some t2) -> st <> Some t2 ->
  exists q2 q3, q = q2 ++ (t2, Acq m) :: q3 /\ (forall t1, st = Some t1 -> exists a b, q2 = a ++ (t1, Rel m) :: b).
Proof.
  induction q as [|te q IH]; intros st R NE.
  - cbn in R. injection R as ->. now elim NE.
  - cbn [run] in R. destruct (step m st te) as [st'|] eqn:S; [|discriminate].
    destruct (st_eq_dec st' (Some t2)) as [E|NE'].
    + subst st'. destruct (step_to_holder m st te t2 S NE) as [-> ->].
      exists [], q. split; [reflexivity|]. intros t1 H. discriminate H.
    + destruct (IH st' R NE') as (q2 & q3 & -> & Hrel).
      exists (te :: q2), q3. split; [reflexivity|]. intros t1 ->.
      destruct (ev_eq_dec te (t1, Rel m)) as [->|D].
      * exists [], q2. reflexivity.
      * pose proof (step_keeps m t1 te st' S D) as ->. destruct (Hrel t1 eq_refl) as (a & b & ->).
        exists (te :: a), b. reflexivity.
Qed.

Lemma run_app m : forall a st b, run m st (a ++ b) = match run m st a with Some st' => run m st' b | None => None end.
Proof.
  induction a as [|te a IH]; intros st b; [reflexivity|]. cbn [app run].
  destruct (step m st te) as [st'|]; [apply IH|reflexivity].
Qed.

(* SOUNDNESS of the discipline: if two accesses by different threads are both made while holding the same mutex m, then
   between them the first thread releases m and afterwards the second acquires it.  Unlock -> later Lock of the same
   mutex is a synchronises-with edge of the Go memory model, so the accesses are ordered by happens-before and cannot
   race - in every valid trace, of any length, with any number of other threads, mutexes and accesses in between. *)
Theorem lockset_orders : forall m t1 t2 p q r x1 w1 x2 w2, t1 <> t2 ->
  holds m t1 p -> holds m t2 (p ++ (t1, Acc x1 w1) :: q) ->
  let tr := p ++ (t1, Acc x1 w1) :: q ++ (t2, Acc x2 w2) :: r in
  exists q1 q2 q3, q = q1 ++ (t1, Rel m) :: q2 ++ (t2, Acq m) :: q3 /\
                   tr = p ++ (t1, Acc x1 w1) :: q1 ++ (t1, Rel m) :: q2 ++ (t2, Acq m) :: q3 ++ (t2, Acc x2 w2) :: r.
Proof.
  intros m t1 t2 p q r x1 w1 x2 w2 NE H1 H2 tr. unfold holds in *.
  rewrite run_app, H1 in H2. cbn [run step snd] in H2.
  assert (Some t1 <> Some t2) as NS by (intros [= E]; now apply NE).
  destruct (run_reaches m t2 q (Some t1) H2 NS) as (q2' & q3 & -> & Hrel).
  destruct (Hrel t1 eq_refl) as (a & b & ->).
  exists a, b, q3. split.
  - now rewrite <- app_assoc.
  - unfold tr. repeat (rewrite <- ?app_assoc; cbn [app]). reflexivity.
Qed.

(* the static check gives, for every conflicting pair of accesses of a checked variable, a mutex held at both *)
Lemma common_spec l1 l2 : common l1 l2 = true -> exists m, In m l1 /\ In m l2.
Proof.
  unfold common. intros H. apply existsb_exists in H as (x & I1 & H). apply existsb_exists in H as (y & I2 & E).
  apply String.eqb_eq in E. subst y. now exists x.
Qed.

Theorem var_ok_spec : forall accs, var_ok accs = true -> forall a b, In a accs -> In b accs -> conflicting a b = true ->
  exists m, In m (a_locks a) /\ In m (a_locks b).
Proof.
  intros accs H a b Ia Ib C. unfold var_ok in H.
  pose proof (proj1 (forallb_forall _ _) H a Ia) as Ha. cbn beta in Ha.
  pose proof (proj1 (forallb_forall _ _) Ha b Ib) as Hb. cbn beta in Hb.
  rewrite C in Hb. cbn [negb orb] in Hb. now apply common_spec.
Qed.

Theorem lockset_ok_spec : forall sk, lockset_ok sk = true -> forall fn v accs, In (fn, v, accs) sk ->
  In (fn, v) ordered_otherwise \/
  (forall a b, In a accs -> In b accs -> conflicting a b = true -> exists m, In m (a_locks a) /\ In m (a_locks b)).
Proof.
  intros sk H fn v accs I. pose proof (proj1 (forallb_forall _ _) H _ I) as E. cbn beta iota in E.
  apply orb_true_iff in E as [E|E].
  - left. apply existsb_exists in E as ([f' v'] & I' & E). cbn [fst snd] in E. apply andb_prop in E as [E1 E2].
    apply String.eqb_eq in E1. apply String.eqb_eq in E2. now subst.
  - right. now apply var_ok_spec.
Qed.

(* GENERATED-DATA OBLIGATION: the skeleton extracted from the current source satisfies the discipline *)
Theorem skeleton_disciplined : lockset_ok sync_skeleton = true.
Proof. vm_compute. reflexivity. Qed.

(* the pre-repair Broadcast (F9): the same variables without the mutex are rejected *)
Example f9_rejected :
  lockset_ok [("uhppote.ut0311.Broadcast", "replies", [("go1", "w", [], 86); ("go1", "r", [], 86); ("parent", "r", [], 96)])] = false.
Proof. reflexivity. Qed.

(* ---------- process-wide state ---------- *)
Theorem shared_ok_spec : forall l, shared_ok l = true -> forall p n k w, In (p, n, k, w) l -> w = 0 /\ In k benign_kinds.
Proof.
  intros l H p n k w I. pose proof (proj1 (forallb_forall _ _) H _ I) as E. cbn beta iota in E.
  apply andb_prop in E as [E1 E2]. split.
  - now apply Nat.eqb_eq.
  - apply existsb_exists in E2 as (k' & I' & E). apply String.eqb_eq in E. now subst.
Qed.

(* GENERATED-DATA OBLIGATION: the package-level variables of the current source *)
Theorem shared_state_benign : shared_ok shared_state = true.
Proof. vm_compute. reflexivity. Qed.

(* a pooled receive buffer, a written cache map and a package-level value whose address is handed out are rejected *)
Example pool_rejected : shared_ok [("uhppote", "buffers", "composite:sync.Pool", 0)] = false.
Proof. reflexivity. Qed.
Example written_map_rejected : shared_ok [("encoding/UTO311-L0x", "offsets", "map-literal", 1)] = false.
Proof. reflexivity. Qed.
Example shared_slice_rejected : shared_ok [("encoding/bcd", "empty", "slice-literal", 1)] = false.
Proof. reflexivity. Qed.
