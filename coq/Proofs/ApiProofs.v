(* C01 / C06 / C07: requests on the wire, routing, argument validation. *)
From Coq Require Import String.
From UV Require Import Base.Bytes Model.WireTypes Model.Codec Model.Interp Model.Cases18 Model.Ops Gen.Layouts
  Spec.WireSpec Spec.CodecSpec Spec.Protocol Spec.ApiSpec Proofs.WireProofs Proofs.CodecProofs Proofs.LayoutProps.
From Coq Require Import ZifyN ZifyNat ZifyBool.
Open Scope N_scope.

(* the request struct the operation fills in (GENERATED layout, fields assigned by name as in uhppote/<op>.go) is,
   field for field, the protocol's flat description of the request *)
(* [lazy], not vm_compute: the arguments are symbolic and vm_compute would normalise e.g. [c <=? 999999] on a variable *)
Local Opaque passcode clamp_code.
Lemma proto_match : forall o, msg_layout (req_name o) = proto_layout o /\ request_values o = proto_values o.
Proof. intros o. destruct o; split; lazy; reflexivity. Qed.

Lemma proto_wf : forall o, wf_layout (proto_layout o) = true.
Proof. intros o. destruct o; lazy; reflexivity. Qed.

Definition args_in_domain (o : op) : bool := values_in_domain (proto_layout o) (proto_values o).

Theorem request_is_proto : forall o, args_in_domain o = true -> request_bytes o = Ok (proto_request o).
Proof.
  intros o D. unfold request_bytes. destruct (proto_match o) as [-> ->].
  apply marshal_is_image; [apply proto_wf|exact D].
Qed.

(* ---------- C01 / C06: exactly one driver call, to the routed endpoint, carrying the protocol request ---------- *)
Theorem api_sends_proto : forall cfg o s, o <> GetDevices -> accepted o = true -> args_in_domain o = true ->
  snd (api cfg o s) = [(route cfg (op_id o), proto_request o)].
Proof.
  intros cfg o s NG A D.
  assert (op_id o =? 0 = false) as NZ.
  { destruct o; try contradiction; unfold accepted in A; apply andb_prop in A as [A _]; now apply negb_true_iff in A. }
  assert (api cfg o s = match sendto cfg o s with
                        | (Ok vs, calls) => (result_of cfg o vs, calls)
                        | (Err, calls) => (RErr, calls)
                        | (Panic, calls) => (RPanic, calls) end) as ->.
  { destruct o; try contradiction; unfold api; rewrite A; reflexivity. }
  unfold sendto. rewrite NZ, (request_is_proto o D).
  destruct (drive (route cfg (op_id o)) (op_id o) s) as [r| |]; try reflexivity.
  destruct (negb (Nat.eqb (length r) 64)); [reflexivity|].
  destruct (negb (serial_of r =? op_id o)); [reflexivity|].
  destruct (unmarshal (resp_layout o) r); reflexivity.
Qed.

Theorem discovery_sends_proto : forall cfg s,
  snd (api cfg GetDevices s) = [(EBroadcast (fst (bcast_addr cfg)) (snd (bcast_addr cfg)), proto_request GetDevices)].
Proof.
  intros cfg s. unfold api. rewrite (request_is_proto GetDevices eq_refl). destruct s; reflexivity.
Qed.

(* a rejected call puts nothing on the network *)
Theorem rejected_sends_nothing : forall cfg o s, accepted o = false -> snd (api cfg o s) = [] /\ fst (api cfg o s) = RErr.
Proof.
  intros cfg o s A. destruct o; try discriminate A; unfold api; rewrite A; split; reflexivity.
Qed.

(* sequences of calls: what is sent is a function of each call alone *)
Definition run_history (cfg : config) (steps : list (op * script)) : list (result * list (endpoint * list N)) :=
  map (fun st => api cfg (fst st) (snd st)) steps.

Definition expected_sent (cfg : config) (o : op) : list (endpoint * list N) :=
  match o with
  | GetDevices => [(EBroadcast (fst (bcast_addr cfg)) (snd (bcast_addr cfg)), proto_request GetDevices)]
  | _ => if accepted o then [(route cfg (op_id o), proto_request o)] else []
  end.

Theorem history_sent : forall cfg steps,
  Forall (fun st => args_in_domain (fst st) = true) steps ->
  flat_map snd (run_history cfg steps) = flat_map (fun st => expected_sent cfg (fst st)) steps.
Proof.
  intros cfg steps H. induction H as [|[o s] steps Ho _ IH]; [reflexivity|].
  cbn [run_history map flat_map fst snd] in *. fold (run_history cfg steps). rewrite IH. f_equal.
  destruct (accepted o) eqn:A.
  - destruct o; try (unfold expected_sent; rewrite A; apply api_sends_proto; [discriminate|exact A|exact Ho]).
    apply discovery_sends_proto.
  - destruct o; try (unfold expected_sent; rewrite A; now apply rejected_sends_nothing). discriminate A.
Qed.

(* ---------- C07: accepted <-> the arguments are valid ---------- *)
Ltac Zify.zify_post_hook ::= Z.div_mod_to_equations.
Definition p10 (k : nat) : N := 10 ^ N.of_nat k.
Lemma p10_0 : p10 0 = 1. Proof. reflexivity. Qed.
Lemma p10_S k : p10 (S k) = 10 * p10 k.
Proof. unfold p10. rewrite Nat2N.inj_succ, N.pow_succ_r'. reflexivity. Qed.
Lemma p10_pos k : 0 < p10 k.
Proof. induction k; [rewrite p10_0; lia | rewrite p10_S; lia]. Qed.

Lemma nda_acc ds : forall a, num_of_digits_acc ds a = a * p10 (length ds) + num_of_digits_acc ds 0.
Proof.
  induction ds as [|d r IH]; intros a; cbn [num_of_digits_acc length].
  - rewrite p10_0. lia.
  - rewrite IH, (IH (0 * 10 + (d - 48))), p10_S. lia.
Qed.

Lemma nda_app a b : forall x, num_of_digits_acc (a ++ b) x = num_of_digits_acc b (num_of_digits_acc a x).
Proof. induction a as [|d a IH]; intros x; [reflexivity|]. cbn [app num_of_digits_acc]. apply IH. Qed.

Lemma nd_app a b : num_of_digits (a ++ b) = num_of_digits a * p10 (length b) + num_of_digits b.
Proof. unfold num_of_digits. rewrite nda_app, nda_acc. reflexivity. Qed.

Lemma digits_value : forall f n acc, n < p10 f ->
  num_of_digits_acc (digits_fuel f n acc) 0 = n * p10 (length acc) + num_of_digits_acc acc 0.
Proof.
  induction f as [|f IH]; intros n acc H.
  - rewrite p10_0 in H. assert (n = 0) as -> by lia. cbn [digits_fuel]. lia.
  - cbn [digits_fuel]. rewrite p10_S in H. destruct (n <? 10) eqn:E.
    + cbn [num_of_digits_acc]. rewrite nda_acc. lia.
    + rewrite IH by lia. cbn [length num_of_digits_acc]. rewrite p10_S, (nda_acc acc (0 * 10 + (48 + n mod 10 - 48))).
      pose proof (N.div_mod n 10 ltac:(lia)) as E10.
      set (q := n / 10) in *. set (r := n mod 10) in *.
      assert (0 * 10 + (48 + r - 48) = r) as -> by lia. rewrite E10. ring.
Qed.

Lemma digits_length : forall f k n acc, (1 <= k <= f)%nat -> n < p10 k ->
  (length (digits_fuel f n acc) <= k + length acc)%nat.
Proof.
  induction f as [|f IH]; intros k n acc Hk H; [lia|].
  cbn [digits_fuel]. destruct (n <? 10) eqn:E.
  - cbn [length]. lia.
  - destruct k as [|[|k]]; try lia.
    + rewrite p10_S, p10_0 in H. lia.
    + pose proof (IH (S k) (n / 10) ((48 + n mod 10) :: acc)) as X.
      cbn [length] in X. rewrite p10_S in H.
      assert (n / 10 < p10 (S k)) as Y by lia. specialize (X ltac:(lia) Y). lia.
Qed.

Definition isdig (c : N) : bool := (48 <=? c) && (c <=? 57).
Lemma digits_alldig : forall f n acc, forallb isdig acc = true -> forallb isdig (digits_fuel f n acc) = true.
Proof.
  induction f as [|f IH]; intros n acc H; [exact H|]. cbn [digits_fuel]. destruct (n <? 10) eqn:E.
  - cbn [forallb]. rewrite H. unfold isdig. lia.
  - apply IH. cbn [forallb]. rewrite H. unfold isdig. lia.
Qed.

Lemma nd_bound ds : forallb isdig ds = true -> num_of_digits_acc ds 0 < p10 (length ds).
Proof.
  induction ds as [|d r IH]; intros H; cbn [length num_of_digits_acc].
  - rewrite p10_0. lia.
  - cbn [forallb] in H. apply andb_prop in H as [Hd Hr]. rewrite nda_acc, p10_S. specialize (IH Hr).
    unfold isdig in Hd. generalize dependent (p10 (length r)). intros P IH. nia.
Qed.

Lemma nd_zeros k : num_of_digits_acc (repeat 48 k) 0 = 0.
Proof. induction k; [reflexivity|]. cbn [repeat num_of_digits_acc]. exact IHk. Qed.

Lemma pad8_digits c : c <= 99999999 ->
  num_of_digits (firstn 3 (pad_to 8 (digits c))) = c / 100000 /\ num_of_digits (skipn 3 (pad_to 8 (digits c))) = c mod 100000.
Proof.
  intros H.
  assert (c < p10 8) as H8 by (unfold p10; cbn; lia).
  assert (c < p10 40) as H40.
  { unfold p10. assert (10 ^ N.of_nat 8 <= 10 ^ N.of_nat 40) by (apply N.pow_le_mono_r; lia). unfold p10 in H8. lia. }
  set (ds := pad_to 8 (digits c)).
  assert (length (digits c) <= 8)%nat as L.
  { pose proof (digits_length 40 8 c [] ltac:(lia) H8). cbn [length] in *. unfold digits. lia. }
  assert (length ds = 8%nat) as L8.
  { unfold ds, pad_to. rewrite app_length, repeat_length. lia. }
  assert (num_of_digits ds = c) as V.
  { unfold ds, pad_to, num_of_digits. rewrite nda_app, nd_zeros. unfold digits. rewrite digits_value by exact H40.
    cbn [length num_of_digits_acc]. rewrite p10_0. lia. }
  assert (forallb isdig ds = true) as D.
  { unfold ds, pad_to. rewrite forallb_app. apply andb_true_intro. split.
    - clear. induction (8 - length (digits c))%nat; [reflexivity|]. cbn. exact IHn.
    - unfold digits. now apply digits_alldig. }
  rewrite <- (firstn_skipn 3 ds) in V, D. rewrite nd_app in V. rewrite forallb_app in D. apply andb_prop in D as [D1 D2].
  assert (length (skipn 3 ds) = 5%nat) as L5 by (rewrite skipn_length; lia).
  pose proof (nd_bound _ D2) as B. rewrite L5 in B, V. change (p10 5) with 100000 in *.
  unfold num_of_digits in *. lia.
Qed.

(* the code's digit-string test (Sprintf "%08v", Atoi of s[:3] and s[3:], numbers above 99999999 rejected) is the
   arithmetic Wiegand-26 rule, for ALL 2^32 (indeed all) card numbers *)
Theorem is_wiegand26_w26 : forall c, is_wiegand26 c = w26 c.
Proof.
  intros c. unfold is_wiegand26, w26. destruct (99999999 <? c) eqn:E.
  - symmetry. apply andb_false_iff. left. lia.
  - destruct (pad8_digits c ltac:(lia)) as [-> ->]. reflexivity.
Qed.

Lemma is_ip4_spec ip :
  is_ip4 ip = Nat.eqb (length ip) 4 || (Nat.eqb (length ip) 16 && nlist_eqb (firstn 12 ip) [0;0;0;0;0;0;0;0;0;0;255;255]).
Proof.
  unfold is_ip4, to4, v4in6_prefix. destruct (Nat.eqb (length ip) 4) eqn:E4.
  - apply Nat.eqb_eq in E4. rewrite E4. reflexivity.
  - cbn [orb]. destruct (Nat.eqb (length ip) 16 && nlist_eqb (firstn 12 ip) [0;0;0;0;0;0;0;0;0;0;255;255]) eqn:E16.
    + apply andb_prop in E16 as [E16 _]. apply Nat.eqb_eq in E16. rewrite skipn_length, E16. reflexivity.
    + reflexivity.
Qed.

Lemma existsb_pointwise {A} (f g : A -> bool) l : (forall x, f x = g x) -> existsb f l = existsb g l.
Proof. intros H. induction l as [|x l IH]; [reflexivity|]. cbn [existsb]. now rewrite H, IH. Qed.

Theorem accepted_iff_valid : forall o, accepted o = valid_args o.
Proof.
  intros o. destruct o; try reflexivity; unfold accepted, valid_args; f_equal; cbn [guards].
  - (* SetAddress *) now rewrite !is_ip4_spec.
  - (* PutCard *)
    assert (card_number_valid (c_number c) formats =
            match formats with [] => true | _ => existsb (format_matches (c_number c)) formats end) as ->.
    { unfold card_number_valid. destruct formats as [|f fs]; [reflexivity|].
      apply existsb_pointwise. intros f'. unfold format_matches. rewrite is_wiegand26_w26.
      destruct (f' =? 1), (f' =? 0); reflexivity. }
    destruct (c_number c =? 0), (c_number c =? 4294967295), (c_number c =? 16777215), (c_pin c <=? 999999);
      cbn [orb negb andb]; rewrite ?andb_true_r, ?andb_false_r; reflexivity.
Qed.

(* the routing closure of sendto is the specification's routing function *)
Lemma find_device_fold ds id acc :
  find_device ds id acc = fold_left (fun a d => if d_id d =? id then Some d else a) ds acc.
Proof. revert acc. induction ds as [|d ds IH]; intros acc; [reflexivity|]. cbn [find_device fold_left]. apply IH. Qed.

Theorem route_is_spec : forall cfg o, o <> GetDevices -> route cfg (op_id o) = Spec.ApiSpec.spec_route cfg o.
Proof.
  intros cfg o NG. unfold route, Spec.ApiSpec.spec_route, lookup_device, Spec.ApiSpec.last_device, bcast_addr, Spec.ApiSpec.default_bcast, s_tcp.
  rewrite find_device_fold. destruct o; try contradiction; reflexivity.
Qed.

(* shape of the protocol message: 64 bytes, protocol id 0x17, the operation's function code *)
Theorem proto_shape : forall o,
  length (proto_request o) = 64%nat /\ nth 0 (proto_request o) 0 = 0x17 /\ nth 1 (proto_request o) 0 = proto_code o.
Proof.
  intros o. split; [apply image_length|].
  assert (length (proto_values o) = length (proto_layout o)) as L1 by (unfold proto_values, proto_layout; cbn [length]; now rewrite !map_length).
  assert (length (dummies (proto_layout o)) = length (proto_layout o)) as L2 by (unfold dummies; apply map_length).
  assert (forallb span_ok (spans (proto_layout o)) = true) as Fit.
  { pose proof (proto_wf o) as W. unfold wf_layout in W. apply andb_prop in W as [W _]. now apply andb_prop in W as [_ ?]. }
  unfold proto_request. rewrite !nth_image by lia. unfold image_byte.
  rewrite (image_at_hdr _ _ (dummies (proto_layout o)) 0%nat) by (auto; lia).
  rewrite (image_at_hdr _ _ (dummies (proto_layout o)) 1%nat) by (auto; lia).
  split; destruct o; reflexivity.
Qed.
