(* C15: the address parsers accept exactly IPv4[:port] under each role's rule. *)
From UV Require Import Base.Bytes Model.WireTypes Model.Addr Proofs.ApiProofs.
From Coq Require Import ZifyN ZifyNat ZifyBool Arith.
Ltac Zify.zify_post_hook ::= Z.div_mod_to_equations.
Open Scope N_scope.

(* ---------- the regular expressions: matcher = denotation ---------- *)
Definition seg13 (a : list N) : Prop := (1 <= length a <= 3)%nat /\ Forall (fun c => dig c = true) a.

Lemma take13_spec s r : In r (take13 s) <-> exists a, seg13 a /\ s = a ++ r.
Proof.
  split.
  - unfold take13. destruct s as [|c1 r1]; [intros []|].
    destruct (dig c1) eqn:D1; [|intros []].
    intros [H|H].
    + subst. exists [c1]. split; [split; [cbn; lia|repeat constructor; auto]|reflexivity].
    + destruct r1 as [|c2 r2]; [destruct H|]. destruct (dig c2) eqn:D2; [|destruct H].
      destruct H as [H|H].
      * subst. exists [c1; c2]. split; [split; [cbn; lia|repeat constructor; auto]|reflexivity].
      * destruct r2 as [|c3 r3]; [destruct H|]. destruct (dig c3) eqn:D3; [|destruct H].
        destruct H as [H|[]]. subst. exists [c1; c2; c3].
        split; [split; [cbn; lia|repeat constructor; auto]|reflexivity].
  - intros [a [[Hlen Hd] Hs]]. subst s.
    destruct a as [|c1 [|c2 [|c3 [|c4 a]]]]; cbn in Hlen; try lia;
      repeat match goal with H : Forall _ (_ :: _) |- _ => inversion H; clear H; subst end;
      cbn [app take13];
      repeat match goal with H : dig _ = true |- _ => rewrite H; clear H end; cbn; auto.
Qed.

Lemma take_dot_spec s r : In r (take_dot s) <-> s = dot :: r.
Proof.
  unfold take_dot. destruct s as [|c r']; [split; [intros []|discriminate]|].
  destruct (N.eqb_spec c dot); split.
  - intros [H|[]]. subst. reflexivity.
  - intros H. inversion H. left. reflexivity.
  - intros [].
  - intros H. inversion H. contradiction.
Qed.

Definition quad_split (s rest : list N) : Prop :=
  exists a b c d, seg13 a /\ seg13 b /\ seg13 c /\ seg13 d /\ s = a ++ dot :: b ++ dot :: c ++ dot :: d ++ rest.

Lemma quad_rests_spec s rest : In rest (quad_rests s) <-> quad_split s rest.
Proof.
  split.
  - intros Hin. unfold quad_rests, bind in Hin.
    repeat (apply in_flat_map in Hin; destruct Hin as [? [? Hin]]).
    repeat match goal with
           | H : In _ (take13 _) |- _ => apply take13_spec in H; destruct H as [? [? ?]]
           | H : In _ (take_dot _) |- _ => apply take_dot_spec in H
           end.
    subst.
    match goal with |- quad_split (?a ++ dot :: ?b ++ dot :: ?c ++ dot :: ?d ++ ?r) _ => exists a, b, c, d end.
    repeat match goal with |- _ /\ _ => split end; try assumption. reflexivity.
  - intros (a & b & c & d & Ha & Hb & Hc & Hd & ->).
    unfold quad_rests, bind.
    apply in_flat_map. eexists; split; [apply take13_spec; eexists; split; [exact Ha|reflexivity]|].
    apply in_flat_map. eexists; split; [apply take_dot_spec; reflexivity|].
    apply in_flat_map. eexists; split; [apply take13_spec; eexists; split; [exact Hb|reflexivity]|].
    apply in_flat_map. eexists; split; [apply take_dot_spec; reflexivity|].
    apply in_flat_map. eexists; split; [apply take13_spec; eexists; split; [exact Hc|reflexivity]|].
    apply in_flat_map. eexists; split; [apply take_dot_spec; reflexivity|].
    apply take13_spec. eexists; split; [exact Hd|reflexivity].
Qed.

(* "the string contains a dotted quad": some substring is d{1,3}.d{1,3}.d{1,3}.d{1,3} *)
Definition has_dotted_quad (s : list N) : Prop := exists pre t rest, s = pre ++ t /\ quad_split t rest.

Lemma quad_hereb_spec s : quad_hereb s = true <-> exists rest, quad_split s rest.
Proof.
  unfold quad_hereb. destruct (quad_rests s) as [|r l] eqn:E.
  - split; [discriminate|]. intros [rest H]. apply quad_rests_spec in H. rewrite E in H. destruct H.
  - split; [|reflexivity]. intros _. exists r. apply quad_rests_spec. rewrite E. now left.
Qed.

Theorem contains_quad_spec s : contains_quad s = true <-> has_dotted_quad s.
Proof.
  induction s as [|c s IH]; cbn [contains_quad].
  - rewrite orb_false_r, quad_hereb_spec. split.
    + intros [rest H]. exists [], [], rest. auto.
    + intros (pre & t & rest & Hs & Hq). destruct pre, t; try discriminate. now exists rest.
  - rewrite orb_true_iff, quad_hereb_spec, IH. split.
    + intros [[rest H]|(pre & t & rest & Hs & Hq)].
      * exists [], (c :: s), rest. auto.
      * exists (c :: pre), t, rest. subst. auto.
    + intros (pre & t & rest & Hs & Hq). destruct pre as [|c' pre].
      * left. cbn in Hs. subst. now exists rest.
      * right. inversion Hs. subst. exists pre, t, rest. auto.
Qed.

Lemma quadport_implies_quad s : contains_quadport s = true -> contains_quad s = true.
Proof.
  induction s as [|c s IH]; cbn [contains_quadport contains_quad]; intros H.
  - rewrite orb_false_r in *. unfold quadport_hereb, quad_hereb in *. destruct (quad_rests []); [discriminate H|reflexivity].
  - apply orb_true_iff in H as [H|H].
    + unfold quadport_hereb, quad_hereb in *. destruct (quad_rests (c :: s)); [discriminate H|reflexivity].
    + rewrite (IH H). apply orb_true_r.
Qed.

(* C15: a string that contains no dotted quad at all is rejected, by every role *)
Theorem reject_no_quad : forall r s, ~ has_dotted_quad s -> parse r s = PErr.
Proof.
  intros r s H. unfold parse.
  assert (contains_quad s = false) as Q.
  { destruct (contains_quad s) eqn:E; [|reflexivity]. apply contains_quad_spec in E. contradiction. }
  destruct (contains_quadport s) eqn:P; [apply quadport_implies_quad in P; congruence|].
  rewrite Q. destruct (default_port r); reflexivity.
Qed.

(* ---------- decimal numerals ---------- *)
Definition nodig (c : N) : bool := negb (dig c).

Lemma digits_all_dig n : forallb dig (digits n) = true.
Proof. unfold digits. apply (digits_alldig 40 n []). reflexivity. Qed.

Lemma digits_fuel_S f n acc :
  digits_fuel (S f) n acc = if n <? 10 then (48 + n) :: acc else digits_fuel f (n / 10) ((48 + n mod 10) :: acc).
Proof. reflexivity. Qed.

Lemma digits_fuel_nonempty : forall f m acc, acc <> [] -> digits_fuel f m acc <> [].
Proof.
  induction f as [|f IH]; intros m acc Ha; [exact Ha|]. rewrite digits_fuel_S.
  destruct (m <? 10); [discriminate|]. apply IH. discriminate.
Qed.

Lemma digits_nonempty n : digits n <> [].
Proof.
  unfold digits. change 40%nat with (S 39). rewrite digits_fuel_S.
  destruct (n <? 10); [discriminate|]. apply digits_fuel_nonempty. discriminate.
Qed.

(* the digit scanner of parseIPv4 / ParseUint on a run of digits *)
Fixpoint oct_scan (ds : list N) (val : N) (n : nat) : option (N * nat) :=
  match ds with
  | [] => Some (val, n)
  | c :: r => if Nat.eqb n 1 && (val =? 0) then None
              else let v := val * 10 + (c - 48) in if 255 <? v then None else oct_scan r v (S n)
  end.

Lemma ipv4_loop_digits ds : forall r first pd fields val n, forallb dig ds = true ->
  ipv4_loop (ds ++ r) first pd fields val n =
  match ds with
  | [] => ipv4_loop r first pd fields val n
  | _ => match oct_scan ds val n with Some (v, k) => ipv4_loop r false false fields v k | None => PErr end
  end.
Proof.
  induction ds as [|c ds IH]; intros r first pd fields val n H; [reflexivity|].
  cbn [forallb] in H. apply andb_prop in H as [Hc Hd]. cbn [app ipv4_loop oct_scan]. rewrite Hc.
  destruct (Nat.eqb n 1 && (val =? 0)); [reflexivity|].
  destruct (255 <? val * 10 + (c - 48)); [reflexivity|].
  rewrite IH by exact Hd. destruct ds; reflexivity.
Qed.

Definition octets : list N := map N.of_nat (seq 0 256).
Lemma octet_scan_enum : forallb (fun a => match oct_scan (digits a) 0 0 with Some (v, k) => (v =? a) && Nat.ltb 0 k | None => false end) octets = true.
Proof. vm_compute. reflexivity. Qed.

Lemma octet_scan a : a < 256 -> exists k, oct_scan (digits a) 0 0 = Some (a, k).
Proof.
  intros H. assert (In a octets) as HIn.
  { unfold octets. apply in_map_iff. exists (N.to_nat a). split; [apply N2Nat.id|apply in_seq; lia]. }
  pose proof (proj1 (forallb_forall _ _) octet_scan_enum a HIn) as E. cbn beta in E.
  destruct (oct_scan (digits a) 0 0) as [[v k]|]; [|discriminate E].
  apply andb_prop in E as [E _]. apply N.eqb_eq in E. subst. now exists k.
Qed.

(* one octet followed by a dot and more text *)
Lemma ipv4_octet_dot a r first pd fields : a < 256 -> r <> [] -> (length fields < 3)%nat ->
  ipv4_loop (digits a ++ dot :: r) first pd fields 0 0 = ipv4_loop r false true (a :: fields) 0 0.
Proof.
  intros Ha Hr Hf. rewrite ipv4_loop_digits by apply digits_all_dig.
  destruct (digits a) eqn:D; [now apply digits_nonempty in D|]. rewrite <- D.
  destruct (octet_scan a Ha) as [k ->]. cbn [ipv4_loop].
  assert (dig dot = false) as -> by reflexivity. rewrite N.eqb_refl. cbn [orb].
  destruct r; [contradiction|]. cbn [orb].
  assert (Nat.eqb (length fields) 3 = false) as -> by (apply Nat.eqb_neq; lia). reflexivity.
Qed.

Lemma ipv4_octet_end a fields first pd : a < 256 -> length fields = 3%nat ->
  ipv4_loop (digits a) first pd fields 0 0 = POk (rev (a :: fields)).
Proof.
  intros Ha Hf. rewrite <- (app_nil_r (digits a)). rewrite ipv4_loop_digits by apply digits_all_dig.
  destruct (digits a) eqn:D; [now apply digits_nonempty in D|]. rewrite <- D.
  destruct (octet_scan a Ha) as [k ->]. cbn [ipv4_loop]. rewrite Hf. reflexivity.
Qed.

Lemma app_nonempty {A} (l : list A) x r : l ++ x :: r <> [].
Proof. destruct l; discriminate. Qed.

Theorem parse_ipv4_quad a b c d : a < 256 -> b < 256 -> c < 256 -> d < 256 ->
  parse_ipv4 (quad_str [a; b; c; d]) = POk [a; b; c; d].
Proof.
  intros Ha Hb Hc Hd. unfold parse_ipv4, quad_str.
  rewrite ipv4_octet_dot; [|exact Ha|apply app_nonempty|cbn; lia].
  rewrite ipv4_octet_dot; [|exact Hb|apply app_nonempty|cbn; lia].
  rewrite ipv4_octet_dot; [|exact Hc|apply digits_nonempty|cbn; lia].
  rewrite ipv4_octet_end; [reflexivity|exact Hd|reflexivity].
Qed.

(* ---------- scanning for separators ---------- *)
Lemma dig_not_sep c : dig c = true -> (c =? dot) = false /\ (c =? colon) = false /\ (c =? 37) = false /\ (c =? 91) = false.
Proof. unfold dig, dot, colon. intros H. repeat split; lia. Qed.

Lemma addr_scan_digits ds r whole : forallb dig ds = true ->
  parse_addr_scan (ds ++ dot :: r) whole = parse_ipv4 whole.
Proof.
  induction ds as [|c ds IH]; intros H.
  - cbn [app parse_addr_scan]. now rewrite N.eqb_refl.
  - cbn [forallb] in H. apply andb_prop in H as [Hc Hd]. cbn [app parse_addr_scan].
    destruct (dig_not_sep c Hc) as (-> & -> & -> & _). now apply IH.
Qed.

Theorem parse_addr_quad a b c d : a < 256 -> b < 256 -> c < 256 -> d < 256 ->
  parse_addr (quad_str [a; b; c; d]) = POk [a; b; c; d].
Proof.
  intros Ha Hb Hc Hd. unfold parse_addr. unfold quad_str at 1.
  rewrite addr_scan_digits by apply digits_all_dig. now apply parse_ipv4_quad.
Qed.

(* no colon in a string *)
Definition no_colon (s : list N) : bool := forallb (fun c => negb (c =? colon)) s.

Lemma no_colon_digits n : no_colon (digits n) = true.
Proof.
  unfold no_colon. pose proof (digits_all_dig n) as H. induction (digits n) as [|c l IH]; [reflexivity|].
  cbn [forallb] in *. apply andb_prop in H as [Hc Hl]. rewrite (IH Hl).
  destruct (dig_not_sep c Hc) as (_ & -> & _). reflexivity.
Qed.

Lemma no_colon_app a b : no_colon (a ++ b) = no_colon a && no_colon b.
Proof. unfold no_colon. apply forallb_app. Qed.

Lemma no_colon_quad a : no_colon (quad_str a) = true.
Proof.
  destruct a as [|a1 [|a2 [|a3 [|a4 [|]]]]]; try reflexivity. unfold quad_str.
  repeat (rewrite no_colon_app; rewrite no_colon_digits; cbn [andb]; unfold no_colon at 1; cbn [forallb]).
  assert ((dot =? colon) = false) as -> by reflexivity. cbn [negb andb].
  fold (no_colon (digits a2 ++ dot :: digits a3 ++ dot :: digits a4)).
  repeat (rewrite no_colon_app; rewrite no_colon_digits; cbn [andb]; unfold no_colon at 1; cbn [forallb];
          assert ((dot =? colon) = false) as -> by reflexivity; cbn [negb andb]).
  apply no_colon_digits.
Qed.

Lemma split_no_colon s : no_colon s = true -> split_last_colon s = None.
Proof.
  induction s as [|c s IH]; intros H; [reflexivity|]. cbn [no_colon forallb] in H. apply andb_prop in H as [Hc Hs].
  cbn [split_last_colon]. rewrite (IH Hs). apply negb_true_iff in Hc. now rewrite Hc.
Qed.

Lemma split_at_colon x y : no_colon y = true -> split_last_colon (x ++ colon :: y) = Some (x, y).
Proof.
  intros Hy. induction x as [|c x IH]; cbn [app split_last_colon].
  - rewrite (split_no_colon y Hy). now rewrite N.eqb_refl.
  - now rewrite IH.
Qed.

(* ---------- ports ---------- *)
Lemma nda_ge ds : forall acc, forallb dig ds = true -> acc <= num_of_digits_acc ds acc.
Proof.
  induction ds as [|c ds IH]; intros acc H; [cbn; lia|]. cbn [forallb] in H. apply andb_prop in H as [Hc Hd].
  cbn [num_of_digits_acc]. specialize (IH (acc * 10 + (c - 48)) Hd). lia.
Qed.

Lemma parse_uint_digits ds : forall acc, forallb dig ds = true -> num_of_digits_acc ds acc <= 65535 ->
  parse_uint_loop ds acc = Some (num_of_digits_acc ds acc).
Proof.
  induction ds as [|c ds IH]; intros acc H B; [reflexivity|]. cbn [forallb] in H. apply andb_prop in H as [Hc Hd].
  cbn [parse_uint_loop num_of_digits_acc] in *. rewrite Hc.
  pose proof (nda_ge ds (acc * 10 + (c - 48)) Hd) as G.
  assert (65535 <? acc * 10 + (c - 48) = false) as -> by lia. now apply IH.
Qed.

Lemma digits_num n : n < p10 40 -> num_of_digits_acc (digits n) 0 = n.
Proof. intros H. unfold digits. rewrite digits_value by exact H. cbn [length num_of_digits_acc]. rewrite p10_0. lia. Qed.

Lemma small_lt_p10_40 n : n <= 65535 -> n < p10 40.
Proof.
  intros H. assert (p10 5 <= p10 40) by (unfold p10; apply N.pow_le_mono_r; lia).
  assert (p10 5 = 100000) by reflexivity. lia.
Qed.

Theorem parse_port_digits p : p <= 65535 -> parse_port (digits p) = Some p.
Proof.
  intros H. unfold parse_port. destruct (digits p) eqn:D; [now apply digits_nonempty in D|]. rewrite <- D.
  pose proof (digits_num p (small_lt_p10_40 p H)) as V.
  rewrite parse_uint_digits; [now rewrite V|apply digits_all_dig|rewrite V; exact H].
Qed.

(* ---------- the regular expressions on canonical strings ---------- *)
Lemma digits_octet_seg a : a < 256 -> seg13 (digits a).
Proof.
  intros H. split.
  - pose proof (digits_length 40 3 a [] ltac:(lia)) as L. cbn [length] in L. unfold digits.
    assert (a < p10 3) as H3 by (change (p10 3) with 1000; lia). specialize (L H3).
    pose proof (digits_nonempty a) as NE. unfold digits in NE. destruct (digits_fuel 40 a []); [contradiction|cbn [length] in *; lia].
  - apply Forall_forall. intros c Hc. exact (proj1 (forallb_forall _ _) (digits_all_dig a) c Hc).
Qed.

Lemma quad_str_split a b c d rest : a < 256 -> b < 256 -> c < 256 -> d < 256 ->
  quad_split (quad_str [a; b; c; d] ++ rest) rest.
Proof.
  intros Ha Hb Hc Hd. exists (digits a), (digits b), (digits c), (digits d).
  repeat split; try (apply digits_octet_seg; assumption); try apply digits_octet_seg; auto.
  unfold quad_str. now rewrite <- !app_assoc, <- !app_comm_cons, <- !app_assoc, <- !app_comm_cons, <- !app_assoc.
Qed.

Lemma contains_quadport_canonical a b c d p rest0 : a < 256 -> b < 256 -> c < 256 -> d < 256 ->
  contains_quadport (quad_str [a; b; c; d] ++ colon :: digits p ++ rest0) = true.
Proof.
  intros Ha Hb Hc Hd.
  set (s := quad_str [a; b; c; d] ++ colon :: digits p ++ rest0).
  assert (quadport_hereb s = true) as Q.
  { unfold quadport_hereb. apply existsb_exists. exists (colon :: digits p ++ rest0). split.
    - apply quad_rests_spec. now apply quad_str_split.
    - unfold port_follows. destruct (digits p) as [|x l] eqn:D; [now apply digits_nonempty in D|].
      cbn [app]. rewrite N.eqb_refl. pose proof (digits_all_dig p) as AD. rewrite D in AD. cbn [forallb] in AD.
      now apply andb_prop in AD as [-> _]. }
  destruct s; cbn [contains_quadport]; now rewrite Q.
Qed.

Lemma contains_quad_canonical a b c d rest : a < 256 -> b < 256 -> c < 256 -> d < 256 ->
  contains_quad (quad_str [a; b; c; d] ++ rest) = true.
Proof.
  intros Ha Hb Hc Hd. apply contains_quad_spec. exists [], (quad_str [a; b; c; d] ++ rest), rest.
  split; [reflexivity|]. now apply quad_str_split.
Qed.

(* a remainder of the quad matcher is a suffix, so without a colon in the string the port pattern cannot match *)
Lemma quadport_needs_colon s : no_colon s = true -> contains_quadport s = false.
Proof.
  induction s as [|c s IH]; intros H.
  - reflexivity.
  - cbn [contains_quadport]. assert (no_colon s = true) as Hs by (cbn [no_colon forallb] in H; now apply andb_prop in H as [_ ?]).
    rewrite (IH Hs), orb_false_r. unfold quadport_hereb.
    destruct (existsb port_follows (quad_rests (c :: s))) eqn:E; [|reflexivity].
    apply existsb_exists in E as (r & Hin & Hp). apply quad_rests_spec in Hin as (x1 & x2 & x3 & x4 & _ & _ & _ & _ & Hs').
    unfold port_follows in Hp. destruct r as [|k [|k2 r]]; try discriminate Hp. apply andb_prop in Hp as [Hk _]. apply N.eqb_eq in Hk. subst k.
    assert (c :: s = (x1 ++ dot :: x2 ++ dot :: x3 ++ dot :: x4) ++ colon :: k2 :: r) as HP.
    { rewrite Hs'. repeat (rewrite <- app_assoc || rewrite <- app_comm_cons). reflexivity. }
    rewrite HP, no_colon_app in H. apply andb_prop in H as [_ H]. cbn [no_colon forallb] in H.
    rewrite N.eqb_refl in H. discriminate H.
Qed.

(* ---------- C15: canonical strings ---------- *)
Definition first_not_bracket (s : list N) : Prop := match s with c :: _ => (c =? 91) = false | [] => False end.

Lemma quad_first a b c d : first_not_bracket (quad_str [a; b; c; d]).
Proof.
  unfold quad_str. destruct (digits a) as [|x l] eqn:D; [now apply digits_nonempty in D|]. cbn [app first_not_bracket].
  pose proof (digits_all_dig a) as AD. rewrite D in AD. cbn [forallb] in AD. apply andb_prop in AD as [Hx _].
  now destruct (dig_not_sep x Hx) as (_ & _ & _ & ->).
Qed.

Theorem accept_with_port : forall r a b c d p, a < 256 -> b < 256 -> c < 256 -> d < 256 -> p <= 65535 ->
  parse r (quad_str [a; b; c; d] ++ colon :: digits p) =
  if port_ok r p then POk ([a; b; c; d], p) else PErr.
Proof.
  intros r a b c d p Ha Hb Hc Hd Hp. unfold parse.
  pose proof (contains_quadport_canonical a b c d p [] Ha Hb Hc Hd) as Q. rewrite app_nil_r in Q. rewrite Q.
  unfold parse_addrport. rewrite split_at_colon by apply no_colon_digits.
  pose proof (quad_first a b c d) as F. destruct (quad_str [a; b; c; d]) as [|x l] eqn:E; [contradiction|].
  cbn [first_not_bracket] in F. rewrite F. rewrite <- E.
  destruct (digits p) eqn:D; [now apply digits_nonempty in D|]. rewrite <- D.
  rewrite parse_port_digits by exact Hp. rewrite parse_addr_quad by assumption. reflexivity.
Qed.

Theorem accept_without_port : forall r a b c d, a < 256 -> b < 256 -> c < 256 -> d < 256 ->
  parse r (quad_str [a; b; c; d]) =
  match default_port r with Some dp => POk ([a; b; c; d], dp) | None => PErr end.
Proof.
  intros r a b c d Ha Hb Hc Hd. unfold parse.
  rewrite quadport_needs_colon by apply no_colon_quad.
  destruct (default_port r) as [dp|]; [|reflexivity].
  pose proof (contains_quad_canonical a b c d [] Ha Hb Hc Hd) as Q. rewrite app_nil_r in Q. rewrite Q.
  now rewrite parse_addr_quad.
Qed.

(* formatting an accepted address and parsing the text again returns it *)
Theorem format_parse : forall r a b c d p, a < 256 -> b < 256 -> c < 256 -> d < 256 -> p <= 65535 -> port_ok r p = true ->
  parse r (format r ([a; b; c; d], p)) = POk ([a; b; c; d], p).
Proof.
  intros r a b c d p Ha Hb Hc Hd Hp OK. unfold format.
  assert ((match r with RListen | RController => p =? 0 | _ => false end) = false) as ->.
  { destruct r; try reflexivity; unfold port_ok in OK; [apply andb_prop in OK as [OK _]|]; now apply negb_true_iff in OK. }
  destruct (default_port r) as [dp|] eqn:DP.
  - destruct (p =? dp) eqn:E.
    + apply N.eqb_eq in E. subst dp. rewrite accept_without_port by assumption. now rewrite DP.
    + rewrite accept_with_port by assumption. now rewrite OK.
  - rewrite accept_with_port by assumption. now rewrite OK.
Qed.
