(* Value tags: decimal, hexadecimal and upper-case hexadecimal spellings of every byte value denote that byte.
   The domain is finite (256 values x 4 spellings): complete enumeration by vm_compute, lifted with forallb_forall. *)
From UV Require Import Base.Bytes Model.WireTypes Model.Codec Model.Interp.
Open Scope N_scope.

Definition hexdigit (upper : bool) (d : N) : N := if d <? 10 then 48 + d else (if upper then 55 else 87) + d.
Definition spell_hex (upper px : bool) (n : N) : list N :=
  [48; if px then 88 else 120] ++ (if n <? 16 then [hexdigit upper n] else [hexdigit upper (n / 16); hexdigit upper (n mod 16)]).
Definition spell_dec (n : N) : list N := digits n.

Definition tag_of (spelling : list N) : list N := s_value ++ spelling.

Definition spellings_ok (n : N) : bool :=
  let expect := Some (Some n) in
  let same t := match value_tag (tag_of t) with Some (Some m) => m =? n | _ => false end in
  same (spell_dec n) && same (spell_hex false false n) && same (spell_hex true false n) && same (spell_hex true true n)
  && same (32 :: spell_hex false false n).

Definition byte_values : list N := map N.of_nat (seq 0 256).

Lemma all_spellings : forallb spellings_ok byte_values = true.
Proof. vm_compute. reflexivity. Qed.

Lemma in_byte_values n : n < 256 -> In n byte_values.
Proof.
  intros H. unfold byte_values. apply in_map_iff. exists (N.to_nat n). split.
  - apply N2Nat.id. - apply in_seq. lia.
Qed.

Theorem value_tag_spellings : forall n, n < 256 ->
  value_tag (tag_of (spell_dec n)) = Some (Some n) /\
  value_tag (tag_of (spell_hex false false n)) = Some (Some n) /\
  value_tag (tag_of (spell_hex true false n)) = Some (Some n) /\
  value_tag (tag_of (spell_hex true true n)) = Some (Some n).
Proof.
  intros n Hn.
  pose proof (proj1 (forallb_forall _ _) all_spellings n (in_byte_values n Hn)) as H.
  unfold spellings_ok in H.
  repeat (apply andb_prop in H; destruct H as [H ?]).
  repeat match goal with
  | X : match ?e with _ => _ end = true |- _ =>
      let E := fresh in destruct e as [[?|]|] eqn:E; try discriminate X; apply N.eqb_eq in X; subst
  end.
  repeat split; assumption.
Qed.
