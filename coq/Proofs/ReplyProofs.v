(* C02: replies are interpreted as the protocol defines. *)
From Coq Require Import String.
From UV Require Import Base.Bytes Model.WireTypes Model.Codec Model.Interp Model.Cases18 Model.Ops Model.CasesApi Gen.Layouts
  Spec.WireSpec Spec.CodecSpec Spec.Protocol Spec.ApiSpec Spec.ReplySpec Proofs.WireProofs Proofs.CodecProofs Proofs.LayoutProps.
Open Scope N_scope.

(* the reply struct of every operation (GENERATED layout) is the flat protocol table of Spec/ReplySpec.v *)
Definition reply_layout_spec (o : op) : layout :=
  match o with
  | SetAddress _ _ _ _ => []
  | _ => FMsgType (Some (Some (proto_code o))) :: map (fun f => FData (fst f) (snd f) None) (reply_table o)
  end.

Lemma resp_match : forall o, resp_layout o = reply_layout_spec o.
Proof. intros o. destruct o; lazy; reflexivity. Qed.

Lemma resp_wf : forall o, wf_layout (resp_layout o) = true.
Proof. intros o. rewrite resp_match. destruct o; lazy; reflexivity. Qed.

(* hence (instances of the generic codec theorems): decoding a reply never panics, fails only for a field outside its
   domain, and every decoded field is the protocol decoding of its bytes or its 'no value' *)
Theorem reply_decoding : forall o r, spec_unmarshal_admits (resp_layout o) r (unmarshal (resp_layout o) r) = true.
Proof. intros o r. apply unmarshal_admitted, resp_wf. Qed.

(* the reply reaches decoding only if it is 64 bytes long and carries the addressed controller's serial number *)
Theorem sendto_gate : forall cfg o s vs, fst (sendto cfg o s) = Ok vs ->
  op_id o <> 0 /\
  (drive (route cfg (op_id o)) (op_id o) s = DNil /\ vs = zero_reply (resp_name o) \/
   exists r, drive (route cfg (op_id o)) (op_id o) s = DBytes r /\ length r = 64%nat /\ serial_of r = op_id o /\
             unmarshal (resp_layout o) r = Ok vs).
Proof.
  intros cfg o s vs H. unfold sendto in H.
  destruct (op_id o =? 0) eqn:Z; [discriminate H|]. split; [now apply N.eqb_neq|].
  destruct (request_bytes o); try discriminate H. cbn [fst] in H.
  destruct (drive (route cfg (op_id o)) (op_id o) s) as [r| |]; try discriminate H.
  - right. exists r. split; [reflexivity|].
    destruct (Nat.eqb (length r) 64) eqn:EL; cbn [negb] in H; [|discriminate H].
    destruct (serial_of r =? op_id o) eqn:ES; cbn [negb] in H; [|discriminate H].
    apply Nat.eqb_eq in EL. apply N.eqb_eq in ES. auto.
  - left. injection H as <-. auto.
Qed.
