(* C04: no decoding entry point, API call, listener step or rendering reaches a panic. *)
From Coq Require Import String.
From UV Require Import Base.Bytes Model.WireTypes Model.Codec Model.Interp Model.Cases18 Model.Messages Model.Ops Model.CasesApi
  Model.Listen Model.Render Gen.Layouts Gen.PanicSites Model.PanicCovered
  Spec.CodecSpec Spec.Protocol Proofs.CodecProofs Proofs.LayoutProps Proofs.ApiProofs Proofs.ReplyProofs.
Open Scope N_scope.

(* every message type of the two tables and the event types, any byte string of any length *)
Theorem decode_total : forall name L buf, In (name, L) shipped -> unmarshal L buf <> Panic.
Proof. intros name L buf H. apply unmarshal_total. exact (proj1 (shipped_in name L H)). Qed.

Theorem dispatch_total : forall buf, unmarshal_request buf <> Panic /\ unmarshal_response buf <> Panic.
Proof.
  intros buf. split; intros E.
  - pose proof (dispatch_spec table_requests buf (proj1 requests_ok)) as H. unfold unmarshal_request in E. now rewrite E in H.
  - pose proof (dispatch_spec table_responses buf (proj1 responses_ok)) as H. unfold unmarshal_response in E. now rewrite E in H.
Qed.

Lemma status_layout_wf : wf_layout (msg_layout "GetStatusResponse") = true.
Proof. exact (resp_wf (GetStatus 1)). Qed.

Theorem listen_total : forall d, listen_step d <> Panic.
Proof.
  intros d. unfold listen_step, listen_handler.
  destruct (negb (Nat.eqb (length d) 64)); [discriminate|]. destruct (serial_of d =? 0); [discriminate|].
  pose proof (unmarshal_total _ d status_layout_wf) as H.
  destruct (unmarshal (msg_layout "GetStatusResponse") d); try discriminate. contradiction.
Qed.

(* an API call never panics, whatever the configuration and whatever the network returns *)
Lemma sendto_total : forall cfg o s, args_in_domain o = true -> fst (sendto cfg o s) <> Panic.
Proof.
  intros cfg o s D. unfold sendto. destruct (op_id o =? 0); [discriminate|]. rewrite (request_is_proto o D). cbn [fst].
  destruct (drive _ _ s) as [r| |]; try discriminate.
  destruct (negb (Nat.eqb (length r) 64)); [discriminate|]. destruct (negb (serial_of r =? op_id o)); [discriminate|].
  apply unmarshal_total, resp_wf.
Qed.

Theorem api_total : forall cfg o s, args_in_domain o = true -> fst (api cfg o s) <> RPanic.
Proof.
  intros cfg o s D.
  assert (forall vs, result_of cfg o vs <> RPanic) as RO.
  { intros vs. destruct o; cbn [result_of]; try discriminate;
      repeat match goal with |- context [match ?x with _ => _ end] => destruct x; try discriminate end. }
  pose proof (sendto_total cfg o s D) as ST.
  destruct o;
    [unfold api; rewrite (request_is_proto GetDevices D); destruct s; discriminate|..];
    unfold api; (destruct (negb (accepted _)); [discriminate|]);
    (destruct (sendto cfg _ s) as [[vs| |] cs0]; cbn [fst] in *; [apply RO|discriminate|contradiction]).
Qed.

Theorem render_total : forall v, control_state_string v <> Panic.
Proof.
  intros v. unfold control_state_string. destruct ((v <? 0)%Z || (Z.of_nat (length control_state_names) <=? v)%Z) eqn:E; [discriminate|].
  destruct (nth_error control_state_names (Z.to_nat v)) eqn:N; [discriminate|].
  apply nth_error_None in N. cbn [control_state_names length] in *. lia.
Qed.

(* every panic-capable expression the translator finds in the source NOW is one of the reviewed baseline *)
Definition site_eqb (a b : string * string * string) : bool :=
  let '(f1, k1, e1) := a in let '(f2, k2, e2) := b in String.eqb f1 f2 && String.eqb k1 k2 && String.eqb e1 e2.

Theorem panic_sites_covered : forallb (fun s => existsb (site_eqb s) covered_sites) panic_sites = true.
Proof. vm_compute. reflexivity. Qed.
