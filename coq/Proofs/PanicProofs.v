(* C04: no decoding entry point, API call, listener step or rendering reaches a panic. *)
From Coq Require Import String.
From UV Require Import Base.Bytes Model.WireTypes Model.Codec Model.Interp Model.Cases18 Model.Messages Model.Ops Model.CasesApi
  Model.Listen Model.Render Gen.Layouts Gen.PanicSites Model.PanicCovered
  Spec.CodecSpec Spec.Protocol Proofs.CodecProofs Proofs.LayoutProps Proofs.ApiProofs Proofs.ReplyProofs.
Open Scope N_scope.

(* every message type of the two tables and the event types, any byte string of any length *)
Theorem decode_total : forall name L buf, In (name, L) shipped -> unmarshal L buf <> Panic.
Proof. intros name L buf H. apply unmarshal_total. exact (proj1 (shipped_in name L H)). Qed.

Theorem dispatch_total : forall buf, unmarshal_request buf <> Panic /\ unmarshal_response buf <> Panic.
Proof.
  intros buf. split; intros E.
  - pose proof (dispatch_spec table_requests buf (proj1 requests_ok)) as H. unfold unmarshal_request in E. now rewrite E in H.
  - pose proof (dispatch_spec table_responses buf (proj1 responses_ok)) as H. unfold unmarshal_response in E. now rewrite E in H.
Qed.

Lemma status_layout_wf : wf_layout (msg_layout "GetStatusResponse") = true.
Proof. exact (resp_wf (GetStatus 1)). Qed.

Theorem listen_total : forall d, listen_step d <> Panic.
Proof.
  intros d. unfold listen_step, listen_handler.
  destruct (negb (Nat.eqb (length d) 64)); [discriminate|]. destruct (serial_of d =? 0); [discriminate|].
  pose proof (unmarshal_total _ d status_layout_wf) as H.
  destruct (unmarshal (msg_layout "GetStatusResponse") d); try discriminate. contradiction.
Qed.

(* an API call never panics, whatever the configuration and whatever the network returns *)
Lemma sendto_total : forall cfg o s, args_in_domain o = true -> fst (sendto cfg o s) <> Panic.
Proof.
  intros cfg o s D. unfold sendto. destruct (op_id o =? 0); [discriminate|]. rewrite (request_is_proto o D). cbn [fst].
  destruct (drive _ _ s) as [r| |]; try discriminate.
  destruct (negb (Nat.eqb (length r) 64)); [discriminate|]. destruct (negb (serial_of r =? op_id o)); [discriminate|].
  apply unmarshal_total, resp_wf.
Qed.

Theorem api_total : forall cfg o s, args_in_domain o = true -> fst (api cfg o s) <> RPanic.
Proof.
  intros cfg o s D.
  assert (forall vs, result_of cfg o vs <> RPanic) as RO.
  { intros vs. destruct o; cbn [result_of]; try discriminate;
      repeat match goal with |- context [match ?x with _ => _ end] => destruct x; try discriminate end. }
  pose proof (sendto_total cfg o s D) as ST.
  destruct o;
    [unfold api; rewrite (request_is_proto GetDevices D); destruct s; discriminate|..];
    unfold api; (destruct (negb (accepted _)); [discriminate|]);
    (destruct (sendto cfg _ s) as [[vs| |] cs0]; cbn [fst] in *; [apply RO|discriminate|contradiction]).
Qed.

Theorem render_total : forall v, control_state_string v <> Panic.
Proof.
  intros v. unfold control_state_string. destruct ((v <? 0)%Z || (Z.of_nat (length control_state_names) <=? v)%Z) eqn:E; [discriminate|].
  destruct (nth_error control_state_names (Z.to_nat v)) eqn:N; [discriminate|].
  apply nth_error_None in N. cbn [control_state_names length] in *. lia.
Qed.

(* every panic-capable expression the translator finds in the source NOW is one of the reviewed baseline *)
Definition site_eqb (a b : string * string * string) : bool :=
  let '(f1, k1, e1) := a in let '(f2, k2, e2) := b in String.eqb f1 f2 && String.eqb k1 k2 && String.eqb e1 e2.

Theorem panic_sites_covered : forallb (fun s => existsb (site_eqb s) covered_sites) panic_sites = true.
Proof. vm_compute. reflexivity. Qed.

(* ---------- codec.Dump is total and prints exactly the bytes it is given ---------- *)
Section DumpProofs.
Open Scope list_scope.
Open Scope nat_scope.

Lemma skipn_cons_nth {A} (l : list A) i x : nth_error l i = Some x -> skipn i l = x :: skipn (S i) l.
Proof.
  revert i. induction l as [|a l IH]; intros [|i] H; try discriminate H.
  - injection H as ->. reflexivity.
  - cbn [nth_error] in H. cbn [skipn]. rewrite (IH i H). reflexivity.
Qed.

Lemma skipn_add {A} (l : list A) a b : skipn (a + b) l = skipn b (skipn a l).
Proof.
  revert l. induction a as [|a IH]; intros l; [reflexivity|]. destruct l as [|x l]; [now destruct b|]. cbn [Nat.add skipn]. apply IH.
Qed.

Lemma firstn_add {A} (l : list A) a b : firstn (a + b) l = firstn a l ++ firstn b (skipn a l).
Proof.
  revert l. induction a as [|a IH]; intros l; [reflexivity|]. destruct l as [|x l]; [now destruct b|].
  cbn [Nat.add firstn skipn app]. now rewrite IH.
Qed.

Lemma dump_cols_spec chunk : forall n i, dump_cols chunk i n = Ok (firstn n (skipn i chunk)).
Proof.
  induction n as [|n IH]; intros i; [reflexivity|]. cbn [dump_cols].
  destruct (Nat.ltb i (length chunk)) eqn:E.
  - apply Nat.ltb_lt in E. unfold index. destruct (nth_error chunk i) as [x|] eqn:N; [|apply nth_error_None in N; lia].
    cbn [obind]. rewrite IH. cbn [obind]. rewrite (skipn_cons_nth chunk i x N). reflexivity.
  - apply Nat.ltb_ge in E. rewrite skipn_all2 by exact E. now rewrite firstn_nil.
Qed.

Lemma dump_rows_spec m : forall fuel ix, length m - ix < fuel -> exists rows, dump_rows m ix fuel = Ok rows /\ concat rows = skipn ix m.
Proof.
  induction fuel as [|f IH]; intros ix H; [lia|]. cbn [dump_rows].
  destruct (Nat.ltb ix (length m)) eqn:E.
  - apply Nat.ltb_lt in E. unfold slice.
    assert ((Nat.leb ix (length m) && Nat.leb (length m) (length m))%bool = true) as -> by (rewrite !(proj2 (Nat.leb_le _ _)); [reflexivity|lia|lia]).
    assert (firstn (length m - ix) (skipn ix m) = skipn ix m) as -> by (apply firstn_all2; rewrite skipn_length; lia).
    cbn [obind]. rewrite !dump_cols_spec. cbn [obind]. change (skipn 0 (skipn ix m)) with (skipn ix m).
    destruct (IH (ix + 16) ltac:(lia)) as (rest & R & C). rewrite R. cbn [obind].
    eexists. split; [reflexivity|]. cbn [concat]. rewrite C.
    rewrite <- (firstn_add (skipn ix m) 8 8). rewrite skipn_add. apply firstn_skipn.
  - apply Nat.ltb_ge in E. exists []. split; [reflexivity|]. cbn [concat]. now rewrite skipn_all2.
Qed.

Theorem dump_total : forall m, exists rows, dump m = Ok rows /\ concat rows = m.
Proof. intros m. unfold dump. destruct (dump_rows_spec m (S (length m)) 0 ltac:(lia)) as (rows & R & C). exists rows. split; [exact R|exact C]. Qed.
End DumpProofs.
