package main

import (
	"fmt"
	"go/ast"
	"go/token"
	"os"
	"path/filepath"
	"sort"
	"strings"
)

// Synchronisation skeleton of package uhppote: for every function that starts goroutines (go func literals), every
// variable of the enclosing function that is ASSIGNED in a goroutine or after the first go statement, with all its
// accesses from then on - by which thread (parent / go1 / go2 ...), read or write, and which mutexes are lexically held
// (X.Lock() ... X.Unlock() in the same statement list, or X.Lock(); defer X.Unlock()).  Only a pretty-printer: whether
// the discipline suffices is decided in Coq (Proofs/SyncProofs.v).
type syncAccess struct {
	thread string
	kind   string // "r" | "w"
	locks  []string
	line   int
}

func genSyncSkeleton(repo, out string) error {
	fset := token.NewFileSet()
	files, err := parseDir(fset, filepath.Join(repo, "uhppote"))
	if err != nil {
		return err
	}
	type entry struct {
		fn, v string
		acc   []syncAccess
	}
	var entries []entry
	goCount := 0
	for _, af := range files {
		name := fset.Position(af.Pos()).Filename
		if strings.HasSuffix(name, "_darwin.go") || strings.HasSuffix(name, "_windows.go") || strings.HasSuffix(name, "verif_hooks.go") {
			continue
		}
		for _, d := range af.Decls {
			fd, ok := d.(*ast.FuncDecl)
			if !ok || fd.Body == nil {
				continue
			}
			fn := fd.Name.Name
			if fd.Recv != nil && len(fd.Recv.List) > 0 {
				fn = strings.TrimPrefix(exprString(fset, fd.Recv.List[0].Type), "*") + "." + fn
			}
			// goroutine literals of this function, in source order
			var lits []*ast.FuncLit
			var firstGo token.Pos
			ast.Inspect(fd.Body, func(n ast.Node) bool {
				if g, ok := n.(*ast.GoStmt); ok {
					if fl, ok := g.Call.Fun.(*ast.FuncLit); ok {
						lits = append(lits, fl)
						if firstGo == token.NoPos {
							firstGo = g.Pos()
						}
					} else {
						lits = append(lits, nil) // go f(x): no literal to inspect; counted
						if firstGo == token.NoPos {
							firstGo = g.Pos()
						}
					}
				}
				return true
			})
			if len(lits) == 0 {
				continue
			}
			goCount += len(lits)
			threadOf := func(p token.Pos) string {
				for i, fl := range lits {
					if fl != nil && fl.Pos() <= p && p < fl.End() {
						return fmt.Sprintf("go%d", i+1)
					}
				}
				return "parent"
			}
			// variables declared in the enclosing function, outside every goroutine literal
			isLocal := func(id *ast.Ident) bool {
				if id.Obj == nil || id.Obj.Kind != ast.Var {
					return false
				}
				dp := id.Obj.Pos()
				return fd.Pos() <= dp && dp < fd.End() && threadOf(dp) == "parent"
			}
			// lexical lock sets: walk statement lists
			acc := map[string][]syncAccess{}
			writes := map[string]bool{}
			var walkStmts func(list []ast.Stmt, held []string)
			var walkNode func(n ast.Node, held []string)
			record := func(id *ast.Ident, kind string, held []string) {
				if !isLocal(id) {
					return
				}
				th := threadOf(id.Pos())
				if th == "parent" && id.Pos() < firstGo {
					return // before any goroutine exists
				}
				h := append([]string{}, held...)
				sort.Strings(h)
				acc[id.Name] = append(acc[id.Name], syncAccess{th, kind, h, fset.Position(id.Pos()).Line})
				if kind == "w" {
					writes[id.Name] = true
				}
			}
			lockCall := func(s ast.Stmt) (string, string) { // (mutex, "Lock"|"Unlock"|"deferUnlock")
				var call *ast.CallExpr
				deferred := false
				switch x := s.(type) {
				case *ast.ExprStmt:
					call, _ = x.X.(*ast.CallExpr)
				case *ast.DeferStmt:
					call, deferred = x.Call, true
				}
				if call == nil {
					return "", ""
				}
				sel, ok := call.Fun.(*ast.SelectorExpr)
				if !ok {
					return "", ""
				}
				m := exprString(fset, sel.X)
				switch sel.Sel.Name {
				case "Lock", "RLock":
					if !deferred {
						return m, "Lock"
					}
				case "Unlock", "RUnlock":
					if deferred {
						return m, "deferUnlock"
					}
					return m, "Unlock"
				}
				return "", ""
			}
			walkStmts = func(list []ast.Stmt, held []string) {
				cur := append([]string{}, held...)
				for _, s := range list {
					if m, what := lockCall(s); m != "" {
						switch what {
						case "Lock":
							cur = append(cur, m)
						case "Unlock":
							nx := []string{}
							for _, x := range cur {
								if x != m {
									nx = append(nx, x)
								}
							}
							cur = nx
						}
						continue
					}
					walkNode(s, cur)
				}
			}
			walkNode = func(n ast.Node, held []string) {
				switch x := n.(type) {
				case nil:
					return
				case *ast.BlockStmt:
					walkStmts(x.List, held)
				case *ast.FuncLit:
					th := threadOf(x.Body.Pos())
					if th != "parent" && threadOf(x.Pos()-1) != th {
						walkStmts(x.Body.List, nil) // a goroutine starts with no locks held
					} else {
						walkStmts(x.Body.List, held)
					}
				case *ast.AssignStmt:
					for _, l := range x.Lhs {
						if id, ok := l.(*ast.Ident); ok {
							if x.Tok != token.DEFINE {
								record(id, "w", held)
							}
						} else {
							walkNode(l, held)
						}
					}
					for _, r := range x.Rhs {
						walkNode(r, held)
					}
				case *ast.IncDecStmt:
					if id, ok := x.X.(*ast.Ident); ok {
						record(id, "w", held)
					} else {
						walkNode(x.X, held)
					}
				case *ast.UnaryExpr:
					if id, ok := x.X.(*ast.Ident); ok && x.Op == token.AND {
						record(id, "w", held) // address taken: anything may be written through it
					} else {
						walkNode(x.X, held)
					}
				case *ast.Ident:
					record(x, "r", held)
				case *ast.SelectorExpr:
					walkNode(x.X, held) // x.f / x.m(): a read of x
				case *ast.IfStmt:
					walkNode(x.Init, held)
					walkNode(x.Cond, held)
					walkNode(x.Body, held)
					walkNode(x.Else, held)
				case *ast.ForStmt:
					walkNode(x.Init, held)
					walkNode(x.Cond, held)
					walkNode(x.Post, held)
					walkNode(x.Body, held)
				case *ast.RangeStmt:
					walkNode(x.X, held)
					walkNode(x.Body, held)
				case *ast.SwitchStmt:
					walkNode(x.Init, held)
					walkNode(x.Tag, held)
					walkNode(x.Body, held)
				case *ast.TypeSwitchStmt:
					walkNode(x.Init, held)
					walkNode(x.Assign, held)
					walkNode(x.Body, held)
				case *ast.SelectStmt:
					walkNode(x.Body, held)
				case *ast.CaseClause:
					for _, e := range x.List {
						walkNode(e, held)
					}
					walkStmts(x.Body, held)
				case *ast.CommClause:
					walkNode(x.Comm, held)
					walkStmts(x.Body, held)
				default:
					// generic: visit children (expressions, other statements)
					first := true
					ast.Inspect(n, func(c ast.Node) bool {
						if first {
							first = false
							return true
						}
						if c == nil {
							return false
						}
						walkNode(c, held)
						return false
					})
				}
			}
			walkStmts(fd.Body.List, nil)
			names := []string{}
			for v := range acc {
				if writes[v] {
					names = append(names, v)
				}
			}
			sort.Strings(names)
			for _, v := range names {
				entries = append(entries, entry{"uhppote." + fn, v, acc[v]})
			}
		}
	}
	var sb strings.Builder
	sb.WriteString("(* GENERATED by tools/gen from /repo/uhppote/*.go - do not edit *)\n")
	sb.WriteString("From Coq Require Import String List.\nImport ListNotations.\nOpen Scope string_scope.\n\n")
	sb.WriteString("(* (function, variable, accesses: (thread, read/write, mutexes lexically held, source line)) - every enclosing-function\n   variable assigned inside a goroutine literal or after the first go statement *)\n")
	fmt.Fprintf(&sb, "Definition go_statements : nat := %d.\n\n", goCount)
	sb.WriteString("Definition sync_skeleton : list (string * string * list (string * string * list string * nat)) := [\n")
	for i, e := range entries {
		sep := ";"
		if i+1 == len(entries) {
			sep = ""
		}
		parts := []string{}
		for _, a := range e.acc {
			ls := []string{}
			for _, l := range a.locks {
				ls = append(ls, coqStr(l))
			}
			parts = append(parts, fmt.Sprintf("(%s, %s, [%s], %d)", coqStr(a.thread), coqStr(a.kind), strings.Join(ls, "; "), a.line))
		}
		fmt.Fprintf(&sb, "  (%s, %s, [%s])%s\n", coqStr(e.fn), coqStr(e.v), strings.Join(parts, "; "), sep)
	}
	sb.WriteString("].\n")
	return os.WriteFile(filepath.Join(out, "SyncSkeleton.v"), []byte(sb.String()), 0o644)
}
