// gen: /repo source -> coq/Gen/*.v.  A pretty-printer over go/parser; interpretation happens in Coq.
package main

import (
	"fmt"
	"os"
)

func main() {
	if len(os.Args) != 3 {
		fmt.Fprintln(os.Stderr, "usage: gen <repo> <outdir>")
		os.Exit(2)
	}
	repo, out := os.Args[1], os.Args[2]
	for _, f := range []func(string, string) error{genLayouts, genPanicSites, genSyncSkeleton, genSharedState} {
		if err := f(repo, out); err != nil {
			fmt.Fprintln(os.Stderr, err)
			os.Exit(1)
		}
	}
}
