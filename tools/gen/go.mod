module verif/gen

go 1.23
