package main

import (
	"bytes"
	"fmt"
	"net"
	"net/netip"
	"os"
	"os/exec"
	"runtime"
	"strings"
	"sync"
	"syscall"
	"time"

	codec "github.com/uhppoted/uhppote-core/encoding/UTO311-L0x"
	"github.com/uhppoted/uhppote-core/messages"
	"github.com/uhppoted/uhppote-core/types"
	"github.com/uhppoted/uhppote-core/uhppote"
)

// Listener shutdown scenarios that can take the whole process down (a panic in a library goroutine cannot be recovered by
// the caller): run in a child process of the same binary; the parent reports a crash or a hang as a direct failure.

func init() { commands["LISTENSTOP"] = runListenStop }

type slowListener struct {
	first  bool
	events int
	errors int
	order  []uint32
	block  time.Duration
}

func (l *slowListener) OnConnected() {}
func (l *slowListener) OnEvent(s *types.Status) {
	l.events++
	l.order = append(l.order, s.Event.Index)
	if !l.first {
		l.first = true
		time.Sleep(l.block) // a slow application callback
	}
}
func (l *slowListener) OnError(err error) bool { l.errors++; return true }

// child: start the real listener, deliver events while the first callback is still busy, signal shutdown, wait
func runListenStop(o Opts) error {
	// cold start: the first thing this fresh process does with the library is decode and encode from many goroutines
	// at once (an application's listener and its API calls start together) - whatever the library initialises lazily
	// is initialised under contention; an unsynchronised package-level table ends the process with a fatal error
	{
		var wg sync.WaitGroup
		for g := 0; g < 32; g++ {
			wg.Add(1)
			go func(g int) {
				defer wg.Done()
				defer func() { recover() }()
				for code := 0; code < 256; code++ {
					buf := make([]byte, 64)
					buf[0], buf[1] = 0x17, byte((code+g*8)%256)
					buf[4] = 1
					if v, err := messages.UnmarshalResponse(buf); err == nil && v != nil {
						codec.Marshal(v)
					}
					if v, err := messages.UnmarshalRequest(buf); err == nil && v != nil {
						codec.Marshal(v)
					}
				}
			}(g)
		}
		wg.Wait()
	}
	// discovery while controllers keep answering across the end of the collection window (from 40 ms before the timeout
	// to 100 ms after it): whatever arrives in time is returned, and nothing crashes when the window closes mid-stream
	{
		ctl, err := net.ListenUDP("udp4", &net.UDPAddr{IP: net.IPv4(127, 0, 0, 1)})
		if err == nil {
			const T = 150 * time.Millisecond
			go func() {
				buf := make([]byte, 2048)
				for {
					n, from, err := ctl.ReadFromUDP(buf)
					if err != nil {
						return
					}
					if n != 64 {
						continue
					}
					req := append([]byte{}, buf[:n]...)
					go func() {
						start := time.Now()
						time.Sleep(T - 40*time.Millisecond)
						for k := 0; time.Since(start) < T+100*time.Millisecond; k++ {
							r := farmReply(req)
							r[4], r[5], r[6], r[7] = byte(k), byte(k>>8), 0x2a, 0x18
							ctl.WriteToUDP(r, from)
							if k%20 == 19 {
								time.Sleep(200 * time.Microsecond)
							}
						}
					}()
				}
			}()
			port := ctl.LocalAddr().(*net.UDPAddr).Port
			u := uhppote.NewUHPPOTE(types.BindAddrFrom(netip.AddrFrom4([4]byte{127, 0, 0, 1}), 0), types.BroadcastAddrFrom(netip.AddrFrom4([4]byte{127, 0, 0, 1}), uint16(port)), types.ListenAddrFrom(netip.AddrFrom4([4]byte{127, 0, 0, 1}), 60001), T, nil, false)
			for round := 0; round < 4; round++ {
				if _, err := u.GetDevices(); err != nil {
					fmt.Printf("LISTENSTOP: discovery with replies streaming across the timeout failed: %v\n", err)
				}
				time.Sleep(120 * time.Millisecond)
			}
			ctl.Close()
		}
	}
	// the scenarios below run side by side (each on its own port); the longest callback is busy for 11.5 s (thorough: 35 s)
	var scen sync.WaitGroup
	blocks := []time.Duration{200 * time.Millisecond, 1500 * time.Millisecond, 5500 * time.Millisecond, 11500 * time.Millisecond}
	if o.Tier == "thorough" {
		blocks = append(blocks, 35*time.Second)
	}
	for _, block := range blocks {
		block := block
		scen.Add(1)
		go func() {
			defer scen.Done()
			port := freeUDPPort()
			bind := types.BindAddrFrom(netip.IPv4Unspecified(), 0)
			listen := types.ListenAddrFrom(netip.AddrFrom4([4]byte{127, 0, 0, 1}), uint16(port))
			u := uhppote.NewUHPPOTE(bind, types.BroadcastAddr{}, listen, 500*time.Millisecond, nil, false)
			l := &slowListener{block: block}
			q := make(chan os.Signal, 1)
			done := make(chan error, 1)
			go func() { done <- u.Listen(l, q) }()
			time.Sleep(100 * time.Millisecond)
			c, err := net.DialUDP("udp4", nil, &net.UDPAddr{IP: net.IPv4(127, 0, 0, 1), Port: port})
			if err != nil {
				fmt.Println("LISTENSTOP: harness: ", err)
				os.Exit(9)
			}
			sent := time.Now()
			for i := 0; i < 3; i++ {
				ev := farmReply(append([]byte{0x17, 0x20, 0, 0, 1, 2, 3, byte(4 + i), byte(i + 1)}, make([]byte, 55)...))
				c.Write(ev)
			}
			time.Sleep(50 * time.Millisecond)
			q <- syscall.SIGINT
			select {
			case <-done:
			case <-time.After(block + 3*time.Second):
				fmt.Println("LISTENSTOP: Listen did not return within 3 s of the slow callback finishing")
				os.Exit(3)
			}
			c.Close()
			time.Sleep(time.Until(sent.Add(block + 400*time.Millisecond))) // let the callback and the library goroutines finish
			// the event the reader had already taken from the socket while the first callback was busy is delivered too
			// (the third may still have been in the socket when it was closed)
			if l.events < 2 {
				fmt.Printf("LISTENSTOP: %d of the events read before the stop signal were delivered (callback busy for %v)\n", l.events, block)
				os.Exit(4)
			}
			if l.errors != 0 {
				fmt.Printf("LISTENSTOP: %d error callbacks for valid events that had to wait for a callback busy for %v\n", l.errors, block)
				os.Exit(4)
			}
		}()
	}
	// a burst of valid events while the application's first callback is busy: they wait (in the socket) and are all
	// delivered, once each and in order, with no error callback
	scen.Add(1)
	go func() {
		defer scen.Done()
		const N = 150
		port := freeUDPPort()
		listen := types.ListenAddrFrom(netip.AddrFrom4([4]byte{127, 0, 0, 1}), uint16(port))
		u := uhppote.NewUHPPOTE(types.BindAddrFrom(netip.IPv4Unspecified(), 0), types.BroadcastAddr{}, listen, 500*time.Millisecond, nil, false)
		l := &slowListener{block: 400 * time.Millisecond}
		q := make(chan os.Signal, 1)
		done := make(chan error, 1)
		go func() { done <- u.Listen(l, q) }()
		time.Sleep(100 * time.Millisecond)
		c, err := net.DialUDP("udp4", nil, &net.UDPAddr{IP: net.IPv4(127, 0, 0, 1), Port: port})
		if err != nil {
			fmt.Println("LISTENSTOP: harness: ", err)
			os.Exit(9)
		}
		for i := 0; i < N; i++ {
			ev := farmReply(append([]byte{0x17, 0x20, 0, 0, 1, 2, 3, 4, byte(i + 1), 0, 0, 0, 1}, make([]byte, 51)...))
			c.Write(ev)
		}
		deadline := time.Now().Add(5 * time.Second)
		for time.Now().Before(deadline) {
			time.Sleep(100 * time.Millisecond)
			if l.events+l.errors >= N {
				break
			}
		}
		q <- syscall.SIGINT
		select {
		case <-done:
		case <-time.After(3 * time.Second):
			fmt.Println("LISTENSTOP: Listen did not return within 3 s of the stop signal after a burst")
			os.Exit(3)
		}
		c.Close()
		inOrder := len(l.order) == N
		for i, ix := range l.order {
			if ix != uint32(i+1) {
				inOrder = false
			}
		}
		if l.events != N || l.errors != 0 || !inOrder {
			fmt.Printf("LISTENSTOP: of %d valid events sent while the first callback was busy, %d were delivered (in order: %v) and %d error callbacks were made\n", N, l.events, inOrder, l.errors)
			os.Exit(4)
		}
	}()
	scen.Wait()
	// a Listen that cannot start (port 0, port in use) returns an error - it neither panics nor leaves goroutines behind
	occupied, err := net.ListenUDP("udp4", &net.UDPAddr{IP: net.IPv4(127, 0, 0, 1)})
	if err == nil {
		defer occupied.Close()
		time.Sleep(50 * time.Millisecond)
		g0 := runtime.NumGoroutine()
		for i := 0; i < 6; i++ {
			port := uint16(occupied.LocalAddr().(*net.UDPAddr).Port)
			if i%2 == 1 {
				port = 0
			}
			u := uhppote.NewUHPPOTE(types.BindAddrFrom(netip.IPv4Unspecified(), 0), types.BroadcastAddr{}, types.ListenAddrFrom(netip.AddrFrom4([4]byte{127, 0, 0, 1}), port), 500*time.Millisecond, nil, false)
			q := make(chan os.Signal, 1)
			if err := u.Listen(&slowListener{}, q); err == nil {
				fmt.Println("LISTENSTOP: Listen on an unusable port returned no error")
				os.Exit(5)
			}
		}
		time.Sleep(200 * time.Millisecond)
		if g1 := runtime.NumGoroutine(); g1 > g0 {
			fmt.Printf("LISTENSTOP: %d goroutines left behind by 6 failed Listen calls\n", g1-g0)
			os.Exit(6)
		}
	}
	fmt.Println("LISTENSTOP: ok")
	return nil
}

// parent side: which of the child's findings concern the calling property
//
//	crash   - a panic took the process down            (C04, C10)
//	hang    - Listen did not return / the child hung    (C09, C10)
//	dropped - an event read before the stop was lost    (C10)
//	noerror - Listen on an unusable port returned nil   (C10)
//	leak    - goroutines left behind by failed starts   (C09)
func listenStopChild(s *Sink, concerns ...string) {
	cmd := exec.Command(os.Args[0], "LISTENSTOP", "-tier", runTier)
	var out bytes.Buffer
	cmd.Stdout, cmd.Stderr = &out, &out
	done := make(chan error, 1)
	if err := cmd.Start(); err != nil {
		s.Extra["listen_lifecycle_child"] = "not run: " + err.Error()
		return
	}
	go func() { done <- cmd.Wait() }()
	var err error
	hung := false
	select {
	case err = <-done:
	case <-time.After(map[bool]time.Duration{false: 30 * time.Second, true: 90 * time.Second}[runTier == "thorough"]):
		cmd.Process.Signal(syscall.SIGKILL)
		hung = true
	}
	txt := out.String()
	s.Extra["listen_lifecycle_child"] = "ran"
	if !hung && err == nil && strings.Contains(txt, "LISTENSTOP: ok") {
		return
	}
	kind := "crash"
	code := -1
	if ee, ok := err.(*exec.ExitError); ok {
		code = ee.ExitCode()
	}
	switch {
	case hung || code == 3:
		kind = "hang"
	case strings.Contains(txt, "panic:"):
		kind = "crash"
	case code == 4:
		kind = "dropped"
	case code == 5:
		kind = "noerror"
	case code == 6:
		kind = "leak"
	}
	s.Extra["listen_lifecycle_child"] = "finding: " + kind
	for _, c := range concerns {
		if c != kind {
			continue
		}
		tail := txt
		if len(tail) > 1500 {
			tail = tail[:1500]
		}
		what := "listener lifecycle (" + kind + ")"
		if i := strings.Index(txt, "panic:"); i >= 0 {
			what = "the process crashed in the event listener's start/stop path: " + strings.SplitN(txt[i:], "\n", 2)[0]
		} else if i := strings.Index(txt, "LISTENSTOP: "); i >= 0 {
			what = "listener lifecycle: " + strings.SplitN(txt[i+12:], "\n", 2)[0]
		}
		s.Fail(map[string]any{"op": "listen-shutdown", "kind": kind, "output": tail}, what)
	}
}
