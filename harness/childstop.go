package main

import (
	"bytes"
	"fmt"
	"net"
	"net/netip"
	"os"
	"os/exec"
	"strings"
	"syscall"
	"time"

	"github.com/uhppoted/uhppote-core/types"
	"github.com/uhppoted/uhppote-core/uhppote"
)

// Listener shutdown scenarios that can take the whole process down (a panic in a library goroutine cannot be recovered by
// the caller): run in a child process of the same binary; the parent reports a crash or a hang as a direct failure.

func init() { commands["LISTENSTOP"] = runListenStop }

type slowListener struct {
	first  bool
	events int
	block  time.Duration
}

func (l *slowListener) OnConnected() {}
func (l *slowListener) OnEvent(s *types.Status) {
	l.events++
	if !l.first {
		l.first = true
		time.Sleep(l.block) // a slow application callback
	}
}
func (l *slowListener) OnError(err error) bool { return true }

// child: start the real listener, deliver events while the first callback is still busy, signal shutdown, wait
func runListenStop(o Opts) error {
	for _, block := range []time.Duration{200 * time.Millisecond, 1500 * time.Millisecond} {
		port := freeUDPPort()
		bind := types.BindAddrFrom(netip.IPv4Unspecified(), 0)
		listen := types.ListenAddrFrom(netip.AddrFrom4([4]byte{127, 0, 0, 1}), uint16(port))
		u := uhppote.NewUHPPOTE(bind, types.BroadcastAddr{}, listen, 500*time.Millisecond, nil, false)
		l := &slowListener{block: block}
		q := make(chan os.Signal, 1)
		done := make(chan error, 1)
		go func() { done <- u.Listen(l, q) }()
		time.Sleep(100 * time.Millisecond)
		c, err := net.DialUDP("udp4", nil, &net.UDPAddr{IP: net.IPv4(127, 0, 0, 1), Port: port})
		if err != nil {
			return err
		}
		for i := 0; i < 3; i++ {
			ev := farmReply(append([]byte{0x17, 0x20, 0, 0, 1, 2, 3, byte(4 + i), byte(i + 1)}, make([]byte, 55)...))
			c.Write(ev)
		}
		time.Sleep(50 * time.Millisecond)
		q <- syscall.SIGINT
		select {
		case <-done:
		case <-time.After(block + 3*time.Second):
			fmt.Println("LISTENSTOP: Listen did not return within 3 s of the slow callback finishing")
			os.Exit(3)
		}
		c.Close()
		time.Sleep(block + 300*time.Millisecond) // let the callback and the library goroutines finish
	}
	fmt.Println("LISTENSTOP: ok")
	return nil
}

// parent side
func listenStopChild(s *Sink) {
	cmd := exec.Command(os.Args[0], "LISTENSTOP")
	var out bytes.Buffer
	cmd.Stdout, cmd.Stderr = &out, &out
	done := make(chan error, 1)
	if err := cmd.Start(); err != nil {
		s.Extra["listen_shutdown_child"] = "not run: " + err.Error()
		return
	}
	go func() { done <- cmd.Wait() }()
	var err error
	select {
	case err = <-done:
	case <-time.After(30 * time.Second):
		cmd.Process.Signal(syscall.SIGKILL)
		err = fmt.Errorf("hung")
	}
	txt := out.String()
	if err != nil || !strings.Contains(txt, "LISTENSTOP: ok") {
		tail := txt
		if len(tail) > 1500 {
			tail = tail[:1500]
		}
		what := "the process crashed or hung while the event listener was shut down with events pending and a slow OnEvent callback"
		if i := strings.Index(txt, "panic:"); i >= 0 {
			what = "the process crashed while the event listener was shut down with events pending: " + strings.SplitN(txt[i:], "\n", 2)[0]
		}
		s.Fail(map[string]any{"op": "listen-shutdown", "output": tail}, what)
	}
	s.Extra["listen_shutdown_child"] = "ran"
}
