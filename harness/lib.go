package main

import (
	"crypto/sha256"
	"encoding/json"
	"fmt"
	"os"
	"path/filepath"
	"sort"
	"strings"
)

// ---- deterministic PRNG (splitmix64), one stream per property, derived from VERIF_SEED ----

type Rand struct{ s uint64 }

func NewRand(seed uint64, stream string) *Rand {
	h := sha256.Sum256([]byte(stream))
	var x uint64
	for i := 0; i < 8; i++ {
		x = x<<8 | uint64(h[i])
	}
	return &Rand{s: seed*0x9E3779B97F4A7C15 ^ x}
}

func (r *Rand) U64() uint64 {
	r.s += 0x9E3779B97F4A7C15
	z := r.s
	z = (z ^ (z >> 30)) * 0xBF58476D1CE4E5B9
	z = (z ^ (z >> 27)) * 0x94D049BB133111EB
	return z ^ (z >> 31)
}
func (r *Rand) Intn(n int) int {
	if n <= 0 {
		return 0
	}
	return int(r.U64() % uint64(n))
}
func (r *Rand) U32() uint32             { return uint32(r.U64() >> 16) }
func (r *Rand) Byte() byte              { return byte(r.U64() >> 24) }
func (r *Rand) Bool() bool              { return r.U64()&0x100 != 0 }
func (r *Rand) Pick(xs []uint32) uint32 { return xs[r.Intn(len(xs))] }
func (r *Rand) Bytes(n int) []byte {
	b := make([]byte, n)
	for i := range b {
		b[i] = r.Byte()
	}
	return b
}

// ---- Coq term printers ----

func coqN(n uint64) string { return fmt.Sprintf("%d", n) }

func coqZ(z int64) string {
	if z < 0 {
		return fmt.Sprintf("(%d)%%Z", z)
	}
	return fmt.Sprintf("%d%%Z", z)
}

func coqBytes(b []byte) string {
	var sb strings.Builder
	sb.WriteString("[")
	for i, x := range b {
		if i > 0 {
			sb.WriteString(";")
		}
		fmt.Fprintf(&sb, "%d", x)
	}
	sb.WriteString("]")
	return sb.String()
}

func coqOptBytes(b []byte, ok bool) string {
	if !ok {
		return "None"
	}
	return "(Some " + coqBytes(b) + ")"
}

func coqBool(b bool) string {
	if b {
		return "true"
	}
	return "false"
}

func coqNat(n int) string { return fmt.Sprintf("%d%%nat", n) }

func coqList(xs []string) string { return "[" + strings.Join(xs, "; ") + "]" }

func hexs(b []byte) string { return fmt.Sprintf("%x", b) }

// ---- case sink: shards of Coq case files + jsonl index + stats ----

type Sink struct {
	Prop      string
	Dir       string
	Header    string // Require lines
	CaseType  string // Coq type of one case
	ModelOK   string // Coq function: case -> bool (model agrees with implementation)
	SpecOK    string // Coq function: case -> bool (spec admits implementation behaviour)
	ShardSize int

	terms           []string
	jsons           []string
	seen            map[string]bool
	nontriv         int
	classes         map[string]int
	samples         []any
	sampled         map[string]int
	Direct          []map[string]any  // failures decided on the Go side (panics, races, ...)
	Defs            map[string]string // named Coq definitions a case may depend on (emitted only in the shards that use them)
	deps            []string
	CurDep          string
	Filter          map[string]any // replay: keep only the cases that agree with this case on ReplayKeys
	ReplayKeys      []string
	Extra           map[string]any
	perClassSamples int
}

func NewSink(prop, dir, header, caseType, modelOK, specOK string) *Sink {
	return &Sink{Prop: prop, Dir: dir, Header: header, CaseType: caseType, ModelOK: modelOK, SpecOK: specOK,
		ShardSize: 400, seen: map[string]bool{}, classes: map[string]int{}, sampled: map[string]int{},
		Extra: map[string]any{}, perClassSamples: 1}
}

// Add records one executed case. term: Coq term of type CaseType; js: JSON description (for replays and
// samples); class: distribution bucket; nontrivial: by the engine's stated rule.
func (s *Sink) Add(term string, js map[string]any, class string, nontrivial bool) int {
	if s.Filter != nil {
		for _, k := range s.ReplayKeys {
			if fmt.Sprint(s.Filter[k]) != fmt.Sprint(js[k]) {
				return -1
			}
		}
	}
	idx := len(s.terms)
	s.terms = append(s.terms, term)
	s.deps = append(s.deps, s.CurDep)
	js["class"] = class
	b, _ := json.Marshal(js)
	s.jsons = append(s.jsons, string(b))
	s.classes[class]++
	if nontrivial {
		k := term
		if !s.seen[k] {
			s.seen[k] = true
			s.nontriv++
		}
	}
	if s.sampled[class] < s.perClassSamples && len(s.samples) < 40 {
		s.sampled[class]++
		s.samples = append(s.samples, js)
	}
	return idx
}

// LoadReplay reads the case of a replay file; generation then runs as usual and only matching cases are kept
func (s *Sink) LoadReplay(path string, keys []string) error {
	b, err := os.ReadFile(path)
	if err != nil {
		return err
	}
	var r struct {
		Case map[string]any `json:"case"`
	}
	if err := json.Unmarshal(b, &r); err != nil {
		return err
	}
	s.Filter = r.Case
	s.ReplayKeys = keys
	return nil
}

func (s *Sink) Fail(js map[string]any, what string) {
	if s.Filter != nil {
		for _, k := range s.ReplayKeys {
			if fmt.Sprint(s.Filter[k]) != fmt.Sprint(js[k]) {
				return
			}
		}
	}
	js["what"] = what
	s.Direct = append(s.Direct, js)
}

func (s *Sink) Len() int { return len(s.terms) }

// ReplayWants: no replay, or the replayed case is of the given op family (e.g. "net-") - the socket-level streams are
// regenerated only for replays of their own failures
func (s *Sink) ReplayWants(prefix string) bool {
	return s.Filter == nil || strings.HasPrefix(fmt.Sprint(s.Filter["op"]), prefix)
}

func (s *Sink) Close() error {
	if err := os.MkdirAll(s.Dir, 0o755); err != nil {
		return err
	}
	old, _ := filepath.Glob(filepath.Join(s.Dir, "*"))
	for _, f := range old {
		os.Remove(f)
	}
	nshards := 0
	for lo := 0; lo < len(s.terms); lo += s.ShardSize {
		hi := lo + s.ShardSize
		if hi > len(s.terms) {
			hi = len(s.terms)
		}
		var sb strings.Builder
		sb.WriteString(s.Header)
		sb.WriteString("\n")
		if s.Defs != nil {
			done := map[string]bool{}
			for i := lo; i < hi; i++ {
				if d := s.deps[i]; d != "" && !done[d] {
					done[d] = true
					sb.WriteString(s.Defs[d])
					sb.WriteString("\n")
				}
			}
		}
		// chunks of 250 keep the list notation shallow (parsing is superlinear in the literal's length)
		names := []string{}
		for clo := lo; clo < hi; clo += 250 {
			chi := clo + 250
			if chi > hi {
				chi = hi
			}
			name := fmt.Sprintf("chunk%d", len(names))
			names = append(names, name)
			sb.WriteString("Definition " + name + " : list (" + s.CaseType + ") := [\n")
			for i := clo; i < chi; i++ {
				sb.WriteString("  ")
				sb.WriteString(s.terms[i])
				if i+1 < chi {
					sb.WriteString(";")
				}
				sb.WriteString("\n")
			}
			sb.WriteString("].\n")
		}
		sb.WriteString("Definition cases : list (" + s.CaseType + ") := " + strings.Join(names, " ++ ") + ".\n")
		sb.WriteString("Definition MIS := Eval vm_compute in failing " + s.ModelOK + " cases.\n")
		sb.WriteString("Definition SPF := Eval vm_compute in failing " + s.SpecOK + " cases.\n")
		sb.WriteString("Print MIS.\nPrint SPF.\n")
		name := fmt.Sprintf("%s_cases_%04d.v", s.Prop, nshards)
		if err := os.WriteFile(filepath.Join(s.Dir, name), []byte(sb.String()), 0o644); err != nil {
			return err
		}
		nshards++
	}
	if err := os.WriteFile(filepath.Join(s.Dir, "cases.jsonl"), []byte(strings.Join(s.jsons, "\n")+"\n"), 0o644); err != nil {
		return err
	}
	keys := make([]string, 0, len(s.classes))
	for k := range s.classes {
		keys = append(keys, k)
	}
	sort.Strings(keys)
	dist := map[string]int{}
	for _, k := range keys {
		dist[k] = s.classes[k]
	}
	stats := map[string]any{
		"property":            s.Prop,
		"evaluations":         len(s.terms),
		"distinct_nontrivial": s.nontriv,
		"distribution":        dist,
		"samples":             s.samples,
		"direct_failures":     s.Direct,
		"shards":              nshards,
		"shard_size":          s.ShardSize,
		"extra":               s.Extra,
	}
	b, _ := json.MarshalIndent(stats, "", " ")
	return os.WriteFile(filepath.Join(s.Dir, "stats.json"), b, 0o644)
}
