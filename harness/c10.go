package main

import (
	"fmt"
	"net"
	"net/netip"
	"os"
	"strings"
	"sync"
	"syscall"
	"time"

	"github.com/uhppoted/uhppote-core/types"
	"github.com/uhppoted/uhppote-core/uhppote"
)

// C10: the REAL listener (ut0311.Listen + uhppote.listen + Listen's dispatcher) on a loopback UDP port.

func init() { commands["C10"] = runC10 }

const hdr10 = "From Coq Require Import String.\nFrom UV Require Import Base.Bytes Model.WireTypes Model.Codec Model.Ops Model.Listen Model.Cases10.\nOpen Scope string_scope.\nOpen Scope N_scope."

type netListener struct {
	mu        sync.Mutex
	connected int
	order     []string // "connected", "event", "error"
	callbacks []string // Coq option terms in callback order
	rendered  []string // %v of each status at callback time
	statuses  []*types.Status
	n         chan struct{}
}

func (l *netListener) OnConnected() {
	l.mu.Lock()
	l.connected++
	l.order = append(l.order, "connected")
	l.mu.Unlock()
}
func (l *netListener) OnEvent(s *types.Status) {
	l.mu.Lock()
	l.order = append(l.order, "event")
	l.callbacks = append(l.callbacks, "(Some ["+strings.Join(statusVals(*s), "; ")+"])")
	l.rendered = append(l.rendered, fmt.Sprintf("%v", *s))
	l.statuses = append(l.statuses, s)
	l.mu.Unlock()
	l.n <- struct{}{}
}
func (l *netListener) OnError(err error) bool {
	l.mu.Lock()
	l.order = append(l.order, "error")
	l.callbacks = append(l.callbacks, "None")
	l.mu.Unlock()
	l.n <- struct{}{}
	return true
}

func freeUDPPort() int {
	c, err := net.ListenUDP("udp4", &net.UDPAddr{IP: net.IPv4(127, 0, 0, 1)})
	if err != nil {
		return 0
	}
	defer c.Close()
	return c.LocalAddr().(*net.UDPAddr).Port
}

// one listen session on a port: start, send the datagrams (from `senders` sockets, in the given global order), wait for
// one callback per datagram, stop.  Returns the callbacks and a list of protocol failures observed directly.
func listenSession(port int, datagrams [][]byte, senders int, burst bool) (cbs []string, fails []string) {
	bind := types.BindAddrFrom(netip.IPv4Unspecified(), 0)
	listen := types.ListenAddrFrom(netip.AddrFrom4([4]byte{127, 0, 0, 1}), uint16(port))
	u := uhppote.NewUHPPOTE(bind, types.BroadcastAddr{}, listen, 500*time.Millisecond, nil, false)
	l := &netListener{n: make(chan struct{}, len(datagrams)+4)}
	q := make(chan os.Signal, 1)
	done := make(chan error, 1)
	go func() { done <- u.Listen(l, q) }()
	// wait for OnConnected
	deadline := time.Now().Add(2 * time.Second)
	for {
		l.mu.Lock()
		c := l.connected
		l.mu.Unlock()
		if c > 0 {
			break
		}
		select {
		case err := <-done:
			return nil, []string{fmt.Sprintf("Listen returned before connecting: %v", err)}
		default:
		}
		if time.Now().After(deadline) {
			return nil, []string{"OnConnected was not called within 2 s"}
		}
		time.Sleep(time.Millisecond)
	}
	socks := []*net.UDPConn{}
	for i := 0; i < senders; i++ {
		c, err := net.DialUDP("udp4", nil, &net.UDPAddr{IP: net.IPv4(127, 0, 0, 1), Port: port})
		if err != nil {
			return nil, []string{"harness: cannot open sender socket"}
		}
		defer c.Close()
		socks = append(socks, c)
	}
	if burst {
		// back to back: the datagrams queue up in the socket while earlier ones are still being decoded and delivered
		for i, d := range datagrams {
			socks[i%senders].Write(d)
		}
		for i := range datagrams {
			select {
			case <-l.n:
			case <-time.After(2 * time.Second):
				fails = append(fails, fmt.Sprintf("burst: no callback within 2 s for datagram %d of %d", i, len(datagrams)))
			}
			if len(fails) > 0 {
				break
			}
		}
	} else {
		for i, d := range datagrams {
			socks[i%senders].Write(d)
			// one datagram in flight at a time keeps the arrival order equal to the send order across sender sockets
			select {
			case <-l.n:
			case <-time.After(2 * time.Second):
				fails = append(fails, fmt.Sprintf("no callback within 2 s for datagram %d (%d bytes)", i, len(d)))
			}
		}
	}
	// nothing else may arrive
	select {
	case <-l.n:
		fails = append(fails, "more callbacks than datagrams")
	case <-time.After(30 * time.Millisecond):
	}
	q <- syscall.SIGINT
	select {
	case err := <-done:
		if err != nil {
			fails = append(fails, fmt.Sprintf("Listen returned an error after the stop signal: %v", err))
		}
	case <-time.After(2 * time.Second):
		fails = append(fails, "Listen did not return within 2 s of the stop signal")
	}
	l.mu.Lock()
	defer l.mu.Unlock()
	if l.connected != 1 || len(l.order) == 0 || l.order[0] != "connected" {
		fails = append(fails, fmt.Sprintf("OnConnected called %d times / not first", l.connected))
	}
	for i, s := range l.statuses { // a delivered status does not change afterwards
		if now := fmt.Sprintf("%v", *s); now != l.rendered[i] {
			fails = append(fails, "a delivered status changed after the callback")
		}
	}
	return l.callbacks, fails
}

func runC10(o Opts) error {
	s := NewSink("C10", o.Out, hdr10, "case10", "model_ok10", "spec_ok10")
	s.ShardSize = 40
	if o.Replay != "" {
		if err := s.LoadReplay(o.Replay, []string{"datagrams"}); err != nil {
			return err
		}
	}
	r := NewRand(o.Seed, "C10")
	sessions := 24
	if o.Tier == "thorough" {
		sessions = 400
	}
	port := freeUDPPort()
	probe := genOp(r, 8, 1, false)
	total := 0
	bursts := 0
	for k := 0; k < sessions; k++ {
		n := 5 + r.Intn(40)
		if o.Tier == "thorough" {
			n = 50 + r.Intn(450)
		}
		var ds [][]byte
		hx := []string{}
		for i := 0; i < n; i++ {
			id := genID(r)
			d := genReply(r, "GetStatusResponse", id, i%2, map[string]uint64{"SequenceId": uint64(i + 1)})
			switch r.Intn(12) {
			case 0:
				d[0] = 0x19 // v6.62 events
			case 1:
				d = makeDgram(r, dgramClasses[1+r.Intn(len(dgramClasses)-1)], probe, id)
			case 2:
				d = d[:r.Intn(64)]
			case 3:
				d = append(d, r.Bytes(1+r.Intn(3000))...)
			case 4:
				d[4], d[5], d[6], d[7] = 0, 0, 0, 0
			case 5:
				d[8+r.Intn(56)] = r.Byte()
			case 6:
				d[1] = byte(0x20 + 2*(1+r.Intn(20)))
			}
			if len(d) > 2048 {
				d = d[:2048+r.Intn(2)] // the read buffer is 2048 bytes: longer datagrams are truncated by the kernel read
			}
			if i == n/2 { // every session carries one empty datagram and one of a single byte
				d = []byte{}
			} else if i == n/2+1 {
				d = []byte{0x17}
			}
			ds = append(ds, d)
			hx = append(hx, hexs(d))
		}
		// every third session is a burst from one socket (arrival order = send order); bursts carry no oversized datagrams
		burst := k%3 == 2
		if burst {
			for i := range ds {
				if len(ds[i]) > 256 {
					ds[i] = ds[i][:256]
					hx[i] = hexs(ds[i])
				}
			}
			if len(ds) > 120 {
				ds, hx = ds[:120], hx[:120]
			}
		}
		senders := 1 + r.Intn(3)
		if burst {
			senders = 1
		}
		cbs, fails := listenSession(port, ds, senders, burst)
		if burst && len(fails) == 0 {
			// the same datagrams again as a burst from three sockets: the order across sockets is the kernel's, so the
			// callbacks are compared as a multiset (and per socket in order) with those of the one-socket burst
			cbs3, fails3 := listenSession(port, ds, 3, true)
			fails = append(fails, fails3...)
			if len(fails3) == 0 {
				if why := sameDeliveries(cbs, cbs3, 3); why != "" {
					fails = append(fails, "burst from three sockets: "+why)
				}
			}
			total += len(ds)
			bursts++
		}
		total += len(ds)
		for _, f := range fails {
			s.Fail(map[string]any{"op": "listen", "datagrams": strings.Join(hx, ","), "session": k}, f)
		}
		// a datagram longer than the 2048-byte read buffer reaches the handler truncated: model it as its first 2048 bytes
		terms := []string{}
		for _, d := range ds {
			if len(d) > 2048 {
				d = d[:2048]
			}
			terms = append(terms, coqBytes(d))
		}
		s.Add([]string{"CListen ", "CListenBurst "}[b2i(burst)]+coqList(terms)+" "+coqList(cbs), map[string]any{"op": "listen", "datagrams": strings.Join(hx, ","), "callbacks": len(cbs)},
			[]string{"session/same-port-rebind", "session/first", "session/burst", "session/burst"}[b2i(k == 0)+2*b2i(burst)], true)
	}
	s.Extra["datagrams_sent"] = total
	s.Extra["sessions_on_one_port"] = sessions + bursts
	s.Extra["burst_sessions"] = 2 * bursts
	if s.ReplayWants("listen-shutdown") {
		listenStopChild(s, "crash", "hang", "dropped", "noerror")
	}
	return s.Close()
}

// callbacks of the same datagrams sent round-robin from n sockets: same multiset, and for each socket its datagrams'
// callbacks in send order (a = callbacks in send order from one socket)
func sameDeliveries(a, b []string, n int) string {
	if len(a) != len(b) {
		return fmt.Sprintf("%d callbacks instead of %d", len(b), len(a))
	}
	count := map[string]int{}
	for _, x := range a {
		count[x]++
	}
	for _, x := range b {
		count[x]--
		if count[x] < 0 {
			return "a callback that corresponds to none of the datagrams sent (or one delivered twice): " + x
		}
	}
	return ""
}
