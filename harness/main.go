package main

import (
	"flag"
	"fmt"
	"os"
	"strconv"
)

type Opts struct {
	Tier   string
	Seed   uint64
	Out    string
	Replay string
}

var commands = map[string]func(o Opts) error{}

// tier of this run (for helpers that start child processes)
var runTier = "quick"

func main() {
	if len(os.Args) < 2 {
		fmt.Fprintln(os.Stderr, "usage: harness <property> [-tier quick|thorough] [-seed N] [-out DIR] [-replay FILE]")
		os.Exit(2)
	}
	cmd := os.Args[1]
	fs := flag.NewFlagSet(cmd, flag.ExitOnError)
	var o Opts
	var seed string
	fs.StringVar(&o.Tier, "tier", "quick", "quick|thorough")
	fs.StringVar(&seed, "seed", "1", "seed")
	fs.StringVar(&o.Out, "out", "", "output directory")
	fs.StringVar(&o.Replay, "replay", "", "replay file (one case)")
	fs.Parse(os.Args[2:])
	if v, err := strconv.ParseUint(seed, 10, 64); err == nil {
		o.Seed = v
	} else {
		o.Seed = 1
	}
	runTier = o.Tier
	f, ok := commands[cmd]
	if !ok {
		fmt.Fprintf(os.Stderr, "unknown command %q\n", cmd)
		os.Exit(2)
	}
	if err := f(o); err != nil {
		fmt.Fprintf(os.Stderr, "harness %s: %v\n", cmd, err)
		os.Exit(3)
	}
}
