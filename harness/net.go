package main

import (
	"encoding/binary"
	"fmt"
	"net"
	"net/netip"
	"os"
	"runtime"
	"strings"
	"sync"
	"time"

	"github.com/uhppoted/uhppote-core/types"
	"github.com/uhppoted/uhppote-core/uhppote"
)

// ---- loopback controller farm: one UDP "controller" port and one TCP port; the reply is a function of the request ----

type Behaviour struct {
	Delay    time.Duration
	NoReply  bool
	Strays   int // junk datagrams (other serial number) sent before the reply, 2 ms apart (or StrayGap)
	StrayGap time.Duration
	Flood    bool // junk datagrams every 2 ms for FloodFor
	FloodFor time.Duration
	Stall    bool          // TCP: accept, read, never answer (until the client gives up)
	HoldOpen time.Duration // TCP: keep the controller's side of the connection open this long after the client closed
	Mangle   int           // 0 = proper reply; otherwise one of mangleNames (a reply that must not be accepted)
}

var mangleNames = []string{"", "63-bytes", "65-bytes", "128-bytes", "1024-bytes", "other-serial", "other-function", "som-0x18", "som-0x19", "empty", "split-40+24"}

func mangle(r []byte, m int) []byte {
	switch m {
	case 1:
		return r[:63]
	case 2:
		return append(r, 0)
	case 3:
		return append(r, make([]byte, 64)...)
	case 4:
		return append(r, make([]byte, 960)...)
	case 5:
		r[5] ^= 0x01
	case 6:
		r[1] ^= 0x02
	case 7:
		r[0] = 0x18
	case 8:
		r[0] = 0x19
	case 9:
		return []byte{}
	}
	return r
}

type FarmEvent struct {
	At    time.Time
	Index uint32
	From  string
	Proto string
	Req   []byte // the request as it arrived
}

type Farm struct {
	udp   *net.UDPConn
	tcp   *net.TCPListener
	Port  int
	TPort int
	mu    sync.Mutex
	log   []FarmEvent
	plan  map[uint32]Behaviour // by request index (bytes 8..11 of the request)
	quit  chan struct{}
	wg    sync.WaitGroup

	DiscoveryNoise  bool
	NoiseBurst      int
	BlankController bool
}

func NewFarm() (*Farm, error) {
	u, err := net.ListenUDP("udp4", &net.UDPAddr{IP: net.IPv4(127, 0, 0, 1)})
	if err != nil {
		return nil, err
	}
	t, err := net.ListenTCP("tcp4", &net.TCPAddr{IP: net.IPv4(127, 0, 0, 1)})
	if err != nil {
		return nil, err
	}
	f := &Farm{udp: u, tcp: t, Port: u.LocalAddr().(*net.UDPAddr).Port, TPort: t.Addr().(*net.TCPAddr).Port, plan: map[uint32]Behaviour{}, quit: make(chan struct{})}
	f.wg.Add(2)
	go f.serveUDP()
	go f.serveTCP()
	return f, nil
}

func (f *Farm) Plan(index uint32, b Behaviour) {
	f.mu.Lock()
	f.plan[index] = b
	f.mu.Unlock()
}

func (f *Farm) behaviour(index uint32) Behaviour {
	f.mu.Lock()
	defer f.mu.Unlock()
	return f.plan[index]
}

func (f *Farm) record(e FarmEvent) {
	f.mu.Lock()
	f.log = append(f.log, e)
	f.mu.Unlock()
}

func (f *Farm) Log() []FarmEvent {
	f.mu.Lock()
	defer f.mu.Unlock()
	return append([]FarmEvent{}, f.log...)
}

func (f *Farm) ResetLog() {
	f.mu.Lock()
	f.log = nil
	f.mu.Unlock()
}

// the reply to a request: same function code and serial number; the request's bytes 8..11 echoed at 8..11
func farmReply(req []byte) []byte {
	r := make([]byte, 64)
	r[0], r[1] = 0x17, req[1]
	copy(r[4:8], req[4:8])
	copy(r[8:12], req[8:12])
	switch req[1] {
	case 0xb0: // get-event: index echoed, a valid swipe record
		r[12], r[13], r[14], r[15] = 1, 1, 1, 1
		copy(r[16:20], []byte{0x78, 0x56, 0x34, 0x12})
		copy(r[20:27], []byte{0x20, 0x24, 0x05, 0x06, 0x07, 0x08, 0x09})
		r[27] = 6
	case 0x94: // get-device
		copy(r[8:12], []byte{192, 168, 1, byte(req[4])})
		copy(r[12:16], []byte{255, 255, 255, 0})
		copy(r[16:20], []byte{192, 168, 1, 1})
		copy(r[20:26], []byte{0, 0x12, 0x23, 0x34, 0x45, byte(req[4])})
		copy(r[26:28], []byte{0x08, 0x92})
		copy(r[28:32], []byte{0x20, 0x18, 0x11, 0x05})
	}
	return r
}

func junk(req []byte) []byte {
	r := farmReply(req)
	r[4] ^= 0x55 // another controller's serial number
	r[8] ^= 0xff
	return r
}

func (f *Farm) serveUDP() {
	defer f.wg.Done()
	buf := make([]byte, 2048)
	for {
		n, from, err := f.udp.ReadFromUDP(buf)
		if err != nil {
			return
		}
		if n != 64 {
			continue
		}
		req := append([]byte{}, buf[:n]...)
		idx := binary.LittleEndian.Uint32(req[8:12])
		f.record(FarmEvent{time.Now(), idx, from.String(), "udp", req})
		if req[1] == 0x94 && binary.LittleEndian.Uint32(req[4:8]) == 0 { // discovery: several controllers answer
			go func() {
				for k := 0; k < f.NoiseBurst; k++ { // a burst of datagrams that are not replies at all, before the replies
					f.udp.WriteToUDP([]byte{0x17, 0x94, 0, 0, byte(k), byte(k >> 8), 0, 0}, from)
					if k%25 == 24 { // paced: the receiver's socket buffer is never more than a few dozen datagrams deep
						time.Sleep(time.Millisecond)
					}
				}
				if f.BlankController { // a controller with factory-blank settings: its reply is byte for byte the request
					f.udp.WriteToUDP(append([]byte{}, req...), from)
				}
				for k := 0; k < 6; k++ {
					r := farmReply(req)
					binary.LittleEndian.PutUint32(r[4:8], uint32(405419896+k))
					r[11] = byte(k + 1)
					f.udp.WriteToUDP(r, from)
					if f.DiscoveryNoise { // datagrams that are not discovery replies, between the replies
						f.udp.WriteToUDP(r[:63], from)
						x := append([]byte{}, r...)
						x[1] = 0x92
						f.udp.WriteToUDP(x, from)
						f.udp.WriteToUDP(append(append([]byte{}, r...), 0), from)
						y := append([]byte{}, r...)
						y[28], y[29], y[30], y[31] = 0x20, 0x1a, 0x13, 0x45 // non-decimal BCD nibble in the date
						f.udp.WriteToUDP(y, from)
					}
					time.Sleep(15 * time.Millisecond)
				}
			}()
			continue
		}
		b := f.behaviour(idx)
		go func() {
			start := time.Now()
			if b.Flood {
				for time.Since(start) < b.FloodFor {
					f.udp.WriteToUDP(junk(req), from)
					time.Sleep(2 * time.Millisecond)
				}
			}
			for k := 0; k < b.Strays; k++ {
				f.udp.WriteToUDP(junk(req), from)
				if b.StrayGap > 0 {
					if k%25 == 24 {
						time.Sleep(25 * b.StrayGap)
					}
				} else {
					time.Sleep(2 * time.Millisecond)
				}
			}
			if b.NoReply {
				return
			}
			if d := b.Delay - time.Since(start); d > 0 {
				time.Sleep(d)
			}
			if b.Mangle == 10 { // two wrong-length datagrams whose concatenation would be a valid reply
				r := farmReply(req)
				f.udp.WriteToUDP(r[:40], from)
				time.Sleep(60 * time.Millisecond)
				f.udp.WriteToUDP(r[40:], from)
				return
			}
			f.udp.WriteToUDP(mangle(farmReply(req), b.Mangle), from)
		}()
	}
}

func (f *Farm) serveTCP() {
	defer f.wg.Done()
	for {
		c, err := f.tcp.AcceptTCP()
		if err != nil {
			return
		}
		go func() {
			defer c.Close()
			req := make([]byte, 64)
			c.SetReadDeadline(time.Now().Add(2 * time.Second))
			if _, err := readFull(c, req); err != nil {
				return
			}
			idx := binary.LittleEndian.Uint32(req[8:12])
			f.record(FarmEvent{time.Now(), idx, c.RemoteAddr().String(), "tcp", append([]byte{}, req...)})
			b := f.behaviour(idx)
			if b.Stall || b.NoReply {
				tmp := make([]byte, 1)
				c.SetReadDeadline(time.Now().Add(3 * time.Second))
				c.Read(tmp) // until the client closes
				return
			}
			time.Sleep(b.Delay)
			if b.Mangle == 10 {
				r := farmReply(req)
				c.Write(r[:40])
				time.Sleep(60 * time.Millisecond)
				c.Write(r[40:])
			} else {
				c.Write(mangle(farmReply(req), b.Mangle))
			}
			tmp := make([]byte, 1)
			c.SetReadDeadline(time.Now().Add(time.Second))
			c.Read(tmp) // let the client close first
			time.Sleep(b.HoldOpen)
		}()
	}
}

func readFull(c net.Conn, b []byte) (int, error) {
	n := 0
	for n < len(b) {
		k, err := c.Read(b[n:])
		n += k
		if err != nil {
			return n, err
		}
	}
	return n, nil
}

func (f *Farm) Close() {
	f.udp.Close()
	f.tcp.Close()
	f.wg.Wait()
}

// ---- clients against the farm ----

const (
	pathBroadcast = 0
	pathUDP       = 1
	pathTCP       = 2
)

func farmClient(f *Farm, bindPort int, T time.Duration, udpIDs, tcpIDs []uint32) uhppote.IUHPPOTE {
	return farmClientBind(f, netip.AddrPortFrom(netip.AddrFrom4([4]byte{127, 0, 0, 1}), uint16(bindPort)), T, udpIDs, tcpIDs)
}

// the listen port clients of the farm are configured with
var farmListenPort uint16 = 60001

func farmClientBind(f *Farm, bindAP netip.AddrPort, T time.Duration, udpIDs, tcpIDs []uint32) uhppote.IUHPPOTE {
	devs := []uhppote.Device{}
	for _, id := range udpIDs {
		devs = append(devs, uhppote.Device{DeviceID: id, Address: types.ControllerAddr{AddrPort: netip.AddrPortFrom(netip.AddrFrom4([4]byte{127, 0, 0, 1}), uint16(f.Port))}, Protocol: "udp"})
	}
	for _, id := range tcpIDs {
		devs = append(devs, uhppote.Device{DeviceID: id, Address: types.ControllerAddr{AddrPort: netip.AddrPortFrom(netip.AddrFrom4([4]byte{127, 0, 0, 1}), uint16(f.TPort))}, Protocol: "tcp"})
	}
	bind := types.BindAddrFrom(bindAP.Addr(), bindAP.Port())
	bc := types.BroadcastAddrFrom(netip.AddrFrom4([4]byte{127, 0, 0, 1}), uint16(f.Port))
	return uhppote.NewUHPPOTE(bind, bc, types.ListenAddrFrom(netip.AddrFrom4([4]byte{127, 0, 0, 1}), farmListenPort), T, devs, farmDebug)
}

// ---- process resources ----

func socketFDs() int {
	ents, err := os.ReadDir("/proc/self/fd")
	if err != nil {
		return -1
	}
	n := 0
	for _, e := range ents {
		if l, err := os.Readlink("/proc/self/fd/" + e.Name()); err == nil && strings.HasPrefix(l, "socket:") {
			n++
		}
	}
	return n
}

func settle() (int, int) {
	var s, g int
	for i := 0; i < 40; i++ {
		time.Sleep(10 * time.Millisecond)
		s2, g2 := socketFDs(), runtime.NumGoroutine()
		if i > 3 && s2 == s && g2 == g {
			break
		}
		s, g = s2, g2
	}
	return s, g
}

func ms(d time.Duration) int64 { return d.Milliseconds() }

var _ = fmt.Sprintf

// real-driver clients in debug mode (hex dumps of every request and reply go to the discarded stdout)
var farmDebug bool
