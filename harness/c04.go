package main

import (
	"fmt"
	"os"
	"reflect"
	"sort"
	"strings"
	"sync"
	"syscall"
	"time"

	codec "github.com/uhppoted/uhppote-core/encoding/UTO311-L0x"
	"github.com/uhppoted/uhppote-core/messages"
	"github.com/uhppoted/uhppote-core/types"
)

// C04: nothing the network or the caller supplies can crash the library.
// Volume streams are judged on the Go side (recover); a sample of every stream goes through the Gallina model, whose
// outcome class (ok / error / panic) must agree.

func init() { commands["C04"] = runC04 }

const hdr04 = "From Coq Require Import String.\nFrom UV Require Import Base.Bytes Model.WireTypes Model.Codec Model.Interp Model.Cases18 Model.Messages Model.Cases05 Model.Ops Model.CasesApi Model.Cases04.\nOpen Scope string_scope.\nOpen Scope N_scope."

func fuzzBytes(r *Rand, dist int, n int) []byte {
	b := make([]byte, n)
	switch dist {
	case 0: // uniform
		for i := range b {
			b[i] = r.Byte()
		}
	case 1: // sparse
		for k := 0; k < 1+n/16; k++ {
			if n > 0 {
				b[r.Intn(n)] = r.Byte()
			}
		}
	case 2: // small values
		for i := range b {
			b[i] = byte(r.Intn(4))
		}
	case 3: // BCD-ish
		for i := range b {
			b[i] = byte(r.Intn(10))<<4 | byte(r.Intn(11))
		}
	}
	return b
}

func fuzzLen(r *Rand) int {
	switch r.Intn(6) {
	case 0:
		return r.Intn(64)
	case 1:
		return 65 + r.Intn(1984)
	case 2:
		return []int{0, 1, 2, 7, 8, 63, 65, 2048}[r.Intn(8)]
	}
	return 64
}

type recListener struct {
	mu        sync.Mutex
	connected chan struct{}
	events    []string
	errors    int
	got       chan struct{}
}

func (l *recListener) OnConnected() { close(l.connected) }
func (l *recListener) OnEvent(s *types.Status) {
	v := rvals(statusVals(*s)...)
	_ = fmt.Sprintf("%v", s)
	l.mu.Lock()
	l.events = append(l.events, v)
	l.mu.Unlock()
	l.got <- struct{}{}
}
func (l *recListener) OnError(err error) bool {
	l.mu.Lock()
	l.errors++
	l.mu.Unlock()
	l.got <- struct{}{}
	return true
}

// run the library's event handler (uhppote.listen + Listen's dispatcher) over a sequence of datagrams through the
// recording driver; returns per datagram "event <status>" / "error", or panics
func listenRun(datagrams [][]byte) (out []string, panicked bool) {
	cl := newClient(Cfg{})
	l := &recListener{connected: make(chan struct{}), got: make(chan struct{}, len(datagrams)+1)}
	q := make(chan os.Signal, 1)
	done := make(chan error, 1)
	go func() { done <- cl.u.Listen(l, q) }()
	select {
	case <-l.connected:
	case <-time.After(2 * time.Second):
		return nil, false
	}
	for _, d := range datagrams {
		before := len(l.events)
		var p any
		func() {
			defer func() { p = recover() }()
			cl.f.listenCB(append([]byte{}, d...))
		}()
		if p != nil {
			panicked = true
			break
		}
		select {
		case <-l.got:
		case <-time.After(2 * time.Second):
		}
		l.mu.Lock()
		if len(l.events) > before {
			out = append(out, l.events[len(l.events)-1])
		} else {
			out = append(out, "error")
		}
		l.mu.Unlock()
	}
	q <- syscall.SIGINT
	select {
	case <-done:
	case <-time.After(2 * time.Second):
	}
	return out, panicked
}

func runC04(o Opts) error {
	s := NewSink("C04", o.Out, hdr04, "case04", "model_ok04", "spec_ok04")
	s.ShardSize = 250
	if o.Replay != "" {
		if err := s.LoadReplay(o.Replay, []string{"op", "type", "buf_hex", "opcoq", "cfgcoq", "script", "request"}); err != nil {
			return err
		}
	}
	r := NewRand(o.Seed, "C04")
	thorough := o.Tier == "thorough"
	renderOn = true
	defer func() { renderOn = false }()
	debugClients = true
	restore := discardStdout()
	defer func() { debugClients = false; restore() }()

	names := make([]string, 0, len(msgTypes))
	for n := range msgTypes {
		names = append(names, n)
	}
	sort.Strings(names)

	// 1. decoding entry points: volume on the Go side, a sample through the model
	nDecode, sampleEvery := 40000, 40
	if thorough {
		nDecode, sampleEvery = 2000000, 400
	}
	decodes := 0
	for i := 0; i < nDecode; i++ {
		n := names[r.Intn(len(names))]
		t := msgTypes[n]
		buf := fuzzBytes(r, r.Intn(4), fuzzLen(r))
		if len(buf) >= 2 && r.Intn(3) != 0 {
			buf[0] = 0x17
			if r.Intn(2) == 0 {
				buf[1] = byte(0x20 + 2*r.Intn(85))
			}
		}
		entry := r.Intn(4)
		sampled := i%sampleEvery == 0
		switch entry {
		case 0, 1: // Unmarshal into new(T) / UnmarshalAs(T{})
			p := reflect.New(t)
			var cl string
			if entry == 0 {
				cl, _ = safeUnmarshal(buf, p.Interface())
			} else {
				func() {
					defer func() {
						if rec := recover(); rec != nil {
							cl = "panic"
						}
					}()
					if v, err := codec.UnmarshalAs(buf, reflect.Zero(t).Interface()); err != nil {
						cl = "err"
					} else {
						cl = "ok"
						p.Elem().Set(reflect.ValueOf(v))
					}
				}()
			}
			decodes++
			if cl == "panic" {
				s.Fail(map[string]any{"op": "decode", "type": n, "buf_hex": hexs(buf)}, "Unmarshal panicked")
			}
			if sampled || cl == "panic" {
				vals := "[]"
				if cl == "ok" {
					vals = valsOf(p.Elem(), layoutOfType(t), true)
				}
				s.Add(fmt.Sprintf("C4Msg (CM (CMsgUnmarshal %s %s %s))", coqString(n), coqBytes(buf), coqOutcome(cl, vals)),
					map[string]any{"op": "decode", "type": n, "buf_hex": hexs(buf), "outcome": cl}, "decode/"+[]string{"Unmarshal", "UnmarshalAs"}[entry], len(buf) == 64)
			}
		default: // dispatchers
			request := entry == 2
			var cl string
			func() {
				defer func() {
					if rec := recover(); rec != nil {
						cl = "panic"
					}
				}()
				var err error
				if request {
					_, err = messages.UnmarshalRequest(buf)
				} else {
					_, err = messages.UnmarshalResponse(buf)
				}
				cl = "ok"
				if err != nil {
					cl = "err"
				}
			}()
			decodes++
			if cl == "panic" {
				s.Fail(map[string]any{"op": "dispatch", "request": request, "buf_hex": hexs(buf)}, "message dispatcher panicked")
			}
		}
	}
	s.Extra["decode_calls_with_recover"] = decodes

	// 1b. the hex dump the driver formats for every request and every received datagram (before it looks at the debug
	// flag): every length 0..300, then random lengths up to the 2048-byte read buffer
	dumps := 0
	for i := 0; i < 300+256+nDecode/20; i++ {
		n := i
		if i > 300 {
			n = r.Intn(2049)
		}
		buf := r.Bytes(n)
		if i > 300 && i <= 300+256 { // a 64-byte message of every function code, all other bytes non-zero
			n = 64
			buf = r.Bytes(64)
			for k := range buf {
				buf[k] |= 1
			}
			buf[0], buf[1] = 0x17, byte(i-301)
		}
		before := append([]byte{}, buf...)
		func() {
			defer func() {
				if string(before) != string(buf) {
					s.Fail(map[string]any{"op": "dump", "buf_hex": hexs(before), "length": n}, "codec.Dump modified the message it was given to print")
				}
			}()
			defer func() {
				if rec := recover(); rec != nil {
					s.Fail(map[string]any{"op": "dump", "buf_hex": hexs(buf), "length": n}, fmt.Sprintf("codec.Dump panicked on a %d-byte datagram: %v", n, rec))
				}
			}()
			out := codec.Dump(buf, " ... ")
			if n > 0 && len(out) < 2*n {
				s.Fail(map[string]any{"op": "dump", "buf_hex": hexs(buf), "length": n}, "codec.Dump lost bytes")
			}
			if i <= 80 || i%50 == 0 || (i > 300 && i <= 300+256) { // a sample through the model: the bytes printed on each row
				rows := []string{}
				for _, line := range strings.Split(strings.TrimRight(out, "\n"), "\n") {
					if line == "" {
						continue
					}
					f := strings.Fields(strings.TrimPrefix(line, " ... "))
					bs := []byte{}
					for _, tok := range f[1:] {
						var v int
						fmt.Sscanf(tok, "%02x", &v)
						bs = append(bs, byte(v))
					}
					rows = append(rows, coqBytes(bs))
				}
				s.Add("C4Dump "+coqBytes(buf)+" "+coqList(rows), map[string]any{"op": "dump", "buf_hex": hexs(buf), "length": n}, "dump", n > 0)
			}
		}()
		dumps++
	}
	s.Extra["dump_calls_with_recover"] = dumps

	// 2. replies to every operation, every returned value rendered with %v and JSON
	nAPI := 6000
	if thorough {
		nAPI = 300000
	}
	apiCalls := 0
	for i := 0; i < nAPI; i++ {
		w := r.Intn(nOps)
		id := genID(r)
		if r.Intn(30) == 0 {
			id = 0
		}
		cfg := Cfg{}
		if r.Intn(3) == 0 {
			cfg = genCfg(r, []uint32{id, genID(r)})
		}
		oc := genOp(r, w, id, r.Intn(3) == 0)
		var reply []byte
		switch r.Intn(5) {
		case 0:
			reply = fuzzBytes(r, r.Intn(4), fuzzLen(r))
		case 1: // correct header, fuzzed payload
			reply = genReply(r, oc.Resp, id, 0, nil)
			copy(reply[8:], fuzzBytes(r, r.Intn(4), 56))
		case 2: // valid reply with a few bytes replaced
			reply = genReply(r, oc.Resp, id, 1, nil)
			for k := 0; k < 1+r.Intn(3); k++ {
				reply[8+r.Intn(56)] = r.Byte()
			}
		default:
			reply = genReply(r, oc.Resp, id, i%2, nil)
		}
		sc := scriptFor(r, reply)
		cl := newClient(cfg)
		cl.f.script = sc
		res := safeCall(func() string { return oc.Run(cl.u) })
		apiCalls++
		if res == "RPanic" {
			s.Fail(map[string]any{"op": oc.Name, "opcoq": oc.Coq, "cfgcoq": cfg.coq(), "script": sc.coq()}, "API call (or rendering its result) panicked")
		}
		if i%12 == 0 || res == "RPanic" {
			term := "C4Api (CApi " + cfg.coq() + " (" + oc.Coq + ") " + sc.coq() + " " + res + " " + callsCoq(cl.f.calls) + ")"
			s.Add(term, map[string]any{"op": oc.Name, "opcoq": oc.Coq, "cfgcoq": cfg.coq(), "script": sc.coq(), "result": res}, "api/"+oc.Name, true)
		}
	}
	// 2a. discovery: any list of replies - valid, repeated (A A B B, A B A B ...), serial number 0, truncated, fuzzed
	gd := getDevicesCase()
	nDisc := 150
	if thorough {
		nDisc = 6000
	}
	for i := 0; i < nDisc; i++ {
		pool := []uint32{405419896, 303986753, 0, genID(r)}
		cfg := Cfg{}
		if r.Intn(2) == 0 {
			cfg = genCfg(r, pool)
		}
		pats := [][]int{{0, 0, 1, 1}, {0, 1, 0, 1}, {0, 0, 0}, {2, 0, 2}, {0, 1, 1, 0, 3, 3, 0}, {3, 2, 2, 3, 1, 1}, {0, 0, 1, 1, 2, 2, 3, 3}}
		pat := pats[i%len(pats)]
		if i%3 == 2 {
			pat = nil
			for k := r.Intn(10); k > 0; k-- {
				pat = append(pat, r.Intn(4))
			}
		}
		ds := [][]byte{}
		for _, k := range pat {
			d := genReply(r, "GetDeviceResponse", pool[k], i%2, nil)
			switch r.Intn(9) {
			case 0:
				d = d[:r.Intn(64)]
			case 1:
				d = fuzzBytes(r, r.Intn(4), fuzzLen(r))
			}
			ds = append(ds, d)
		}
		sc := Script{Kind: "datagrams", Datagrams: ds}
		cl := newClient(cfg)
		cl.f.script = sc
		res := safeCall(func() string { return gd.Run(cl.u) })
		apiCalls++
		if res == "RPanic" {
			s.Fail(map[string]any{"op": gd.Name, "opcoq": gd.Coq, "cfgcoq": cfg.coq(), "script": sc.coq()}, "GetDevices (or rendering its result) panicked")
		}
		if i%6 == 0 || res == "RPanic" {
			term := "C4Api (CApi " + cfg.coq() + " (" + gd.Coq + ") " + sc.coq() + " " + res + " " + callsCoq(cl.f.calls) + ")"
			s.Add(term, map[string]any{"op": gd.Name, "opcoq": gd.Coq, "cfgcoq": cfg.coq(), "script": sc.coq(), "result": res}, "api/"+gd.Name, true)
		}
	}
	// 2b. every reply-bearing operation on its VALUE path (echoed card / profile ids as requested, non-zero indices) with
	// exactly one field replaced by an out-of-domain pattern of its type, and with pairs of adjacent fields so replaced
	oneBad := 0
	for round := 0; round < map[bool]int{false: 2, true: 20}[thorough]; round++ {
		for w := 0; w < nOps; w++ {
			id := genID(r)
			oc := genOp(r, w, id, false)
			if oc.Resp == "" {
				continue
			}
			set := map[string]uint64{}
			var a, b uint64
			switch oc.Name {
			case "GetCardByID":
				fmt.Sscanf(oc.Coq, "GetCardByID %d %d", &a, &b)
				set["CardNumber"] = b
			case "GetTimeProfile":
				fmt.Sscanf(oc.Coq, "GetTimeProfile %d %d", &a, &b)
				set["ProfileID"] = b
			}
			base := genReply(r, oc.Resp, id, 0, set)
			fields := replyFields(oc.Resp)
			try := func(reply []byte, what string) {
				cl := newClient(Cfg{})
				sc := Script{Kind: "datagrams", Datagrams: [][]byte{reply}}
				cl.f.script = sc
				res := safeCall(func() string { return oc.Run(cl.u) })
				oneBad++
				if res == "RPanic" {
					s.Fail(map[string]any{"op": oc.Name, "opcoq": oc.Coq, "cfgcoq": Cfg{}.coq(), "script": sc.coq(), "what": what}, "API call (or rendering its result) panicked on a reply with "+what)
					s.Add("C4Api (CApi "+Cfg{}.coq()+" ("+oc.Coq+") "+sc.coq()+" "+res+" "+callsCoq(cl.f.calls)+")",
						map[string]any{"op": oc.Name, "opcoq": oc.Coq, "cfgcoq": Cfg{}.coq(), "script": sc.coq(), "result": res}, "api-one-bad-field/"+oc.Name, true)
				}
			}
			if round == 0 { // every single-byte field over the small values and the extremes (table lookups live here)
				for _, f := range fields {
					if f.Off < 8 || f.Width != 1 {
						continue
					}
					for _, v := range []byte{0, 1, 2, 3, 4, 5, 6, 7, 8, 9, 10, 15, 16, 31, 32, 63, 64, 127, 128, 254, 255} {
						m := append([]byte{}, base...)
						m[f.Off] = v
						try(m, fmt.Sprintf("field %s = %d", f.Name, v))
					}
				}
			}
			for i, f := range fields {
				if f.Off < 8 {
					continue
				}
				for _, p := range badPatterns(f.Text, f.Width) {
					m := append([]byte{}, base...)
					copy(m[f.Off:], p)
					try(m, "field "+f.Name+" out of its domain")
					if i+1 < len(fields) {
						g := fields[i+1]
						for _, q := range badPatterns(g.Text, g.Width) {
							m2 := append([]byte{}, m...)
							copy(m2[g.Off:], q)
							try(m2, "fields "+f.Name+" and "+g.Name+" out of their domains")
						}
					}
				}
			}
		}
	}
	s.Extra["api_calls_one_field_out_of_domain"] = oneBad
	s.Extra["api_calls_with_recover"] = apiCalls

	// 3. the event listener's handler
	nListen := 60
	if thorough {
		nListen = 3000
	}
	delivered := 0
	for i := 0; i < nListen; i++ {
		var ds [][]byte
		for k := 0; k < 1+r.Intn(12); k++ {
			d := fuzzBytes(r, r.Intn(4), fuzzLen(r))
			if r.Intn(2) == 0 {
				d = genReply(r, "GetStatusResponse", genID(r), r.Intn(2), nil)
				if r.Intn(3) == 0 {
					d[8+r.Intn(56)] = r.Byte()
				}
				if r.Intn(4) == 0 {
					d[0] = 0x19
				}
			}
			ds = append(ds, d)
		}
		out, panicked := listenRun(ds)
		delivered += len(out)
		if panicked {
			hx := []string{}
			for _, d := range ds {
				hx = append(hx, hexs(d))
			}
			s.Fail(map[string]any{"op": "listen", "datagrams": hx}, "event handler panicked")
		}
	}
	s.Extra["listener_datagrams_with_recover"] = delivered
	if s.ReplayWants("listen-shutdown") {
		listenStopChild(s, "crash")
	}
	return s.Close()
}

// byte patterns outside the domain of a reply field of the given Go type
func badPatterns(text string, width int) [][]byte {
	switch text {
	case "bool":
		return [][]byte{{2}, {0xff}}
	case "types.HHmm", "*types.HHmm":
		return [][]byte{{0x24, 0x30}, {0x25, 0x00}, {0x1a, 0x00}, {0x10, 0x60}}
	case "types.Date", "*types.Date":
		return [][]byte{{0x20, 0x23, 0x02, 0x30}, {0x2a, 0x24, 0x01, 0x01}, {0x20, 0x24, 0x13, 0x01}}
	case "types.DateTime", "*types.DateTime":
		return [][]byte{{0x20, 0x23, 0x02, 0x30, 0x12, 0, 0}, {0x20, 0x24, 0x01, 0x01, 0x24, 0, 0}, {0x20, 0x24, 0x01, 0x01, 0x12, 0x6a, 0}, {0x20, 0x23, 0x12, 0x31, 0x23, 0x59, 0x60}}
	case "types.SystemDate":
		return [][]byte{{0x24, 0x13, 0x01}, {0x2a, 0x01, 0x01}}
	case "types.SystemTime":
		return [][]byte{{0x24, 0, 0}, {0x12, 0xa0, 0}, {0x23, 0x59, 0x60}, {0x00, 0x60, 0x00}}
	case "uint8", "byte":
		return [][]byte{{0xff}, {0x07}}
	}
	ff := make([]byte, width)
	for i := range ff {
		ff[i] = 0xff
	}
	return [][]byte{ff}
}

// one datagram through the library's event handler (recording driver): the status handed to OnEvent, or nil
type statusListener struct {
	connected chan struct{}
	got       chan *types.Status
}

func (l *statusListener) OnConnected()            { close(l.connected) }
func (l *statusListener) OnEvent(s *types.Status) { l.got <- s }
func (l *statusListener) OnError(err error) bool  { l.got <- nil; return true }

func listenStatus(d []byte) *types.Status {
	cl := newClient(Cfg{})
	l := &statusListener{connected: make(chan struct{}), got: make(chan *types.Status, 2)}
	q := make(chan os.Signal, 1)
	done := make(chan error, 1)
	go func() { done <- cl.u.Listen(l, q) }()
	select {
	case <-l.connected:
	case <-time.After(2 * time.Second):
		return nil
	}
	var st *types.Status
	func() {
		defer func() { recover() }()
		cl.f.listenCB(append([]byte{}, d...))
	}()
	select {
	case st = <-l.got:
	case <-time.After(2 * time.Second):
	}
	q <- syscall.SIGINT
	select {
	case <-done:
	case <-time.After(2 * time.Second):
	}
	return st
}
