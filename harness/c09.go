package main

import (
	"fmt"
	"runtime/debug"
	"time"
)

// C09: every call ends within its timeout and releases its socket and goroutines - the real driver against the farm's
// fault behaviours, with wall-clock durations and /proc/self/fd + goroutine accounting.

func init() { commands["C09"] = runC09 }

type fault struct {
	name  string
	kind  int // 0 no reply, 1 late reply, 2 stray flood, 3 tcp stall, 4 tcp refused, 5 udp refused, 6 reply in time, 7 reply just before the deadline
	path  int
	delay time.Duration
}

func runC09(o Opts) error {
	s := NewSink("C09", o.Out, hdr08, "case08", "model_ok08", "spec_ok08")
	s.ShardSize = 200
	if o.Replay != "" {
		if err := s.LoadReplay(o.Replay, []string{"fault", "path"}); err != nil {
			return err
		}
	}
	r := NewRand(o.Seed, "C09")
	farm, err := NewFarm()
	if err != nil {
		return err
	}
	defer farm.Close()
	debug.SetGCPercent(-1) // no finalizers closing forgotten sockets behind the accounting's back
	defer debug.SetGCPercent(100)

	T := netT
	faults := []fault{
		{"no-reply", 0, pathBroadcast, 0}, {"no-reply", 0, pathUDP, 0}, {"tcp-accept-and-stall", 3, pathTCP, 0},
		{"late-reply", 1, pathBroadcast, T + 120*time.Millisecond}, {"late-reply", 1, pathUDP, T + 120*time.Millisecond},
		{"stray-flood-until-deadline", 2, pathBroadcast, 0},
		{"tcp-refused", 4, pathTCP, 0}, {"udp-icmp-refused", 5, pathUDP, 0},
		{"reply-in-time", 6, pathBroadcast, 60 * time.Millisecond}, {"reply-in-time", 6, pathUDP, 60 * time.Millisecond}, {"reply-in-time", 6, pathTCP, 60 * time.Millisecond},
		{"reply-just-before-deadline", 7, pathBroadcast, T - 70*time.Millisecond}, {"reply-just-before-deadline", 7, pathUDP, T - 70*time.Millisecond},
	}
	rounds := 2
	if o.Tier == "thorough" {
		rounds = 30
	}
	fixedPort := freeUDPPort()
	deadUDP := freeUDPPort() // nobody listens here
	socks0, gos0 := settle()
	calls := 0
	for round := 0; round < rounds; round++ {
		for fi, ft := range faults {
			nextIndex++
			idx := nextIndex
			id := uint32(800000000 + fi)
			b := Behaviour{Delay: ft.delay}
			switch ft.kind {
			case 0:
				b.NoReply = true
			case 2:
				b.Flood, b.FloodFor, b.NoReply = true, T+100*time.Millisecond, true
			case 3:
				b.Stall = true
			}
			farm.Plan(idx, b)
			bp := 0
			if round%2 == 1 && ft.path != pathTCP {
				bp = fixedPort
			}
			var udpIDs, tcpIDs []uint32
			switch ft.path {
			case pathUDP:
				udpIDs = []uint32{id}
			case pathTCP:
				tcpIDs = []uint32{id}
			}
			fm := farm
			if ft.kind == 4 || ft.kind == 5 { // point the controller address at a closed port
				fm = &Farm{Port: deadUDP, TPort: deadUDP}
			}
			u := farmClient(fm, bp, T, udpIDs, tcpIDs)
			var res string
			var dur time.Duration
			drain := func(st time.Time) {
				// on a shared fixed port a reply that arrives after its call has returned would be delivered to the next
				// call (cross-talk outside what C08/C09 quantify over): wait until everything the farm scheduled has gone
				until := st.Add(ft.delay + 40*time.Millisecond)
				if ft.kind == 2 {
					until = st.Add(T + 140*time.Millisecond)
				}
				if d := time.Until(until); d > 0 {
					time.Sleep(d)
				}
			}
			for attempt := 0; attempt < 3; attempt++ {
				st := time.Now()
				e, err := u.GetEvent(id, idx)
				dur = time.Since(st)
				drain(st)
				res = "Timeout"
				if err == nil && e != nil && e.Index == idx {
					res = "(Reply 0%nat)"
				} else if err == nil && e != nil {
					res = fmt.Sprintf("(Reply %d%%nat)", e.Index)
				}
				within := dur <= T+150*time.Millisecond
				expectReply := ft.kind >= 6
				if within && (expectReply == (res == "(Reply 0%nat)")) {
					break
				}
				time.Sleep(40 * time.Millisecond)
				nextIndex++
				idx = nextIndex
				farm.Plan(idx, b)
			}
			calls++
			d := "None"
			if ft.kind == 1 || ft.kind >= 6 {
				d = fmt.Sprintf("(Some %d)", ms(ft.delay))
			}
			kind := ft.kind
			if kind == 4 || kind == 5 {
				kind = 9 // fails fast: no lower bound on the duration
			}
			s.Add(fmt.Sprintf("CTimed %d %d%%nat %s %s %d", ms(T), kind, d, res, ms(dur)),
				map[string]any{"op": "timed", "fault": ft.name, "path": []string{"broadcast", "udp", "tcp"}[ft.path], "fixed_port": bp != 0, "result": res, "dur_ms": ms(dur)},
				"fault/"+ft.name, true)
		}
		// a batch of mixed concurrent calls, then the accounting
		specs, udpIDs, tcpIDs := genScenario(r, farm, 6, false)
		u := farmClient(farm, 0, T, udpIDs, tcpIDs)
		runCalls(u, specs, time.Millisecond)
		u.GetDevices()
		calls += len(specs) + 1
	}
	time.Sleep(T + 150*time.Millisecond) // flood / late-reply goroutines of the FARM end
	socks1, gos1 := settle()
	s.Extra["calls"] = calls
	s.Extra["sockets_before_after"] = []int{socks0, socks1}
	s.Extra["goroutines_before_after"] = []int{gos0, gos1}
	if socks1 > socks0 {
		s.Fail(map[string]any{"op": "resources", "fault": "sockets", "before": socks0, "after": socks1}, fmt.Sprintf("the process holds %d more sockets after %d calls than before", socks1-socks0, calls))
	}
	if gos1 > gos0 {
		s.Fail(map[string]any{"op": "resources", "fault": "goroutines", "before": gos0, "after": gos1}, fmt.Sprintf("the process holds %d more goroutines after %d calls than before", gos1-gos0, calls))
	}
	return s.Close()
}
