package main

import (
	"fmt"
	"github.com/uhppoted/uhppote-core/types"
	"github.com/uhppoted/uhppote-core/uhppote"
	"net"
	"net/netip"
	"os"
	"runtime/debug"
	"strings"
	"sync"
	"syscall"
	"time"
)

// C09: every call ends within its timeout and releases its socket and goroutines - the real driver against the farm's
// fault behaviours, with wall-clock durations and /proc/self/fd + goroutine accounting.

func init() { commands["C09"] = runC09 }

type fault struct {
	name  string
	kind  int // 0 no reply, 1 late reply, 2 stray flood, 3 tcp stall, 4 tcp refused, 5 udp refused, 6 reply in time, 7 reply just before the deadline
	path  int
	delay time.Duration
}

func runC09(o Opts) error {
	s := NewSink("C09", o.Out, hdr08, "case08", "model_ok08", "spec_ok08")
	s.ShardSize = 200
	if o.Replay != "" {
		if err := s.LoadReplay(o.Replay, []string{"fault", "path"}); err != nil {
			return err
		}
	}
	r := NewRand(o.Seed, "C09")
	farm, err := NewFarm()
	if err != nil {
		return err
	}
	defer farm.Close()
	debug.SetGCPercent(-1) // no finalizers closing forgotten sockets behind the accounting's back
	defer debug.SetGCPercent(100)

	T := netT
	faults := []fault{
		{"no-reply", 0, pathBroadcast, 0}, {"no-reply", 0, pathUDP, 0}, {"tcp-accept-and-stall", 3, pathTCP, 0},
		{"late-reply", 1, pathBroadcast, T + 120*time.Millisecond}, {"late-reply", 1, pathUDP, T + 120*time.Millisecond},
		{"stray-flood-until-deadline", 2, pathBroadcast, 0},
		{"tcp-refused", 4, pathTCP, 0}, {"udp-icmp-refused", 5, pathUDP, 0},
		{"reply-in-time", 6, pathBroadcast, 60 * time.Millisecond}, {"reply-in-time", 6, pathUDP, 60 * time.Millisecond}, {"reply-in-time", 6, pathTCP, 60 * time.Millisecond},
		{"reply-just-before-deadline", 7, pathBroadcast, T - 70*time.Millisecond}, {"reply-just-before-deadline", 7, pathUDP, T - 70*time.Millisecond},
	}
	rounds := 2
	if o.Tier == "thorough" {
		rounds = 30
	}
	fixedPort := freeUDPPort()
	deadUDP := freeUDPPort() // nobody listens here
	socks0, gos0 := settle()
	calls := 0
	for round := 0; round < rounds; round++ {
		for fi, ft := range faults {
			nextIndex++
			idx := nextIndex
			id := uint32(800000000 + fi)
			b := Behaviour{Delay: ft.delay}
			switch ft.kind {
			case 0:
				b.NoReply = true
			case 2:
				b.Flood, b.FloodFor, b.NoReply = true, T+100*time.Millisecond, true
			case 3:
				b.Stall = true
			}
			farm.Plan(idx, b)
			bp := 0
			if round%2 == 1 && ft.path != pathTCP {
				bp = fixedPort
			}
			var udpIDs, tcpIDs []uint32
			switch ft.path {
			case pathUDP:
				udpIDs = []uint32{id}
			case pathTCP:
				tcpIDs = []uint32{id}
			}
			fm := farm
			if ft.kind == 4 || ft.kind == 5 { // point the controller address at a closed port
				fm = &Farm{Port: deadUDP, TPort: deadUDP}
			}
			u := farmClient(fm, bp, T, udpIDs, tcpIDs)
			var res string
			var dur time.Duration
			drain := func(st time.Time) {
				// on a shared fixed port a reply that arrives after its call has returned would be delivered to the next
				// call (cross-talk outside what C08/C09 quantify over): wait until everything the farm scheduled has gone
				until := st.Add(ft.delay + 40*time.Millisecond)
				if ft.kind == 2 {
					until = st.Add(T + 140*time.Millisecond)
				}
				if d := time.Until(until); d > 0 {
					time.Sleep(d)
				}
			}
			for attempt := 0; attempt < 3; attempt++ {
				st := time.Now()
				e, err := u.GetEvent(id, idx)
				dur = time.Since(st)
				drain(st)
				res = "Timeout"
				if err == nil && e != nil && e.Index == idx {
					res = "(Reply 0%nat)"
				} else if err == nil && e != nil {
					res = fmt.Sprintf("(Reply %d%%nat)", e.Index)
				}
				within := dur <= T+150*time.Millisecond
				expectReply := ft.kind >= 6
				if within && (expectReply == (res == "(Reply 0%nat)")) {
					break
				}
				time.Sleep(40 * time.Millisecond)
				nextIndex++
				idx = nextIndex
				farm.Plan(idx, b)
			}
			calls++
			d := "None"
			if ft.kind == 1 || ft.kind >= 6 {
				d = fmt.Sprintf("(Some %d)", ms(ft.delay))
			}
			kind := ft.kind
			if kind == 4 || kind == 5 {
				kind = 9 // fails fast: no lower bound on the duration
			}
			s.Add(fmt.Sprintf("CTimed %d %d%%nat %s %s %d", ms(T), kind, d, res, ms(dur)),
				map[string]any{"op": "timed", "fault": ft.name, "path": []string{"broadcast", "udp", "tcp"}[ft.path], "fixed_port": bp != 0, "result": res, "dur_ms": ms(dur)},
				"fault/"+ft.name, true)
		}
		// TCP controller that is slow to accept (full accept queue: the connection completes on the SYN retransmission,
		// about 1 s into the call) and then never answers: the timeout still runs from the start of the call
		if round == 0 || o.Tier == "thorough" && round%10 == 0 {
			Ts := 1600 * time.Millisecond
			for attempt := 0; attempt < 2; attempt++ {
				dur, ok, connectedAfter := slowAcceptCall(Ts)
				if !ok {
					s.Extra["tcp_slow_accept"] = "skipped: the accept queue of the fake controller could not be filled"
					break
				}
				s.Extra["tcp_slow_accept_connected_after_ms"] = ms(connectedAfter)
				if dur <= Ts+150*time.Millisecond || attempt == 1 {
					calls++
					s.Add(fmt.Sprintf("CTimed %d 3%%nat None Timeout %d", ms(Ts), ms(dur)),
						map[string]any{"op": "timed", "fault": "tcp-slow-accept-then-stall", "path": "tcp", "fixed_port": false, "result": "Timeout", "dur_ms": ms(dur)},
						"fault/tcp-slow-accept-then-stall", true)
					break
				}
			}
		}
		// discovery queued behind another call on a fixed bind port: it is served in its turn and then collects replies for
		// the whole timeout (six controllers answer 0..75 ms after its request) - it neither gives up early nor overruns
		for attempt := 0; attempt < 3; attempt++ {
			nextIndex++
			idx := nextIndex
			farm.Plan(idx, Behaviour{NoReply: true})
			silent := uint32(800000077)
			u := farmClient(farm, fixedPort, T, []uint32{silent}, nil)
			var wg sync.WaitGroup
			wg.Add(1)
			farm.ResetLog()
			go func() { defer wg.Done(); u.GetEvent(silent, idx) }()
			// the first call holds the port from the moment its request is on the wire: wait until the farm has seen it
			t0 := time.Time{}
			for w := 0; w < 400 && t0.IsZero(); w++ {
				for _, ev := range farm.Log() {
					if ev.Index == idx {
						t0 = ev.At
					}
				}
				if t0.IsZero() {
					time.Sleep(time.Millisecond)
				}
			}
			if t0.IsZero() {
				wg.Wait()
				continue
			}
			time.Sleep(40 * time.Millisecond)
			st := time.Now()
			devs, derr := u.GetDevices()
			dur := time.Since(st)
			wg.Wait()
			calls += 2
			queued := T - st.Sub(t0) // time it had to wait for the port
			js := map[string]any{"op": "queued-discovery", "fault": "queued-discovery", "path": "broadcast", "devices": len(devs), "dur_ms": ms(dur), "waited_ms": ms(queued)}
			ok := derr == nil && len(devs) == 6 && dur >= queued+T-40*time.Millisecond && dur <= queued+T+150*time.Millisecond
			if ok || attempt == 2 {
				if !ok {
					s.Fail(js, fmt.Sprintf("discovery queued behind another call on the fixed bind port returned %d of 6 controllers after %d ms (waited about %d ms for the port, timeout %d ms): %v", len(devs), ms(dur), ms(queued), ms(T), derr))
				}
				s.Extra["queued_discovery"] = js
				break
			}
			time.Sleep(T)
		}
		// the fixed bind port is shared by every client of the process: a second client (its own NewUHPPOTE, same bind
		// address) that calls while the first holds the port waits its turn and then gets its controller's reply - it
		// does not fail at once because the port is busy
		for attempt := 0; attempt < 3; attempt++ {
			nextIndex += 2
			ia, ib := nextIndex-1, nextIndex
			farm.Plan(ia, Behaviour{NoReply: true})
			farm.Plan(ib, Behaviour{Delay: 20 * time.Millisecond})
			uA := farmClient(farm, fixedPort, T, nil, nil)
			uB := farmClient(farm, fixedPort, T, nil, nil)
			var wg sync.WaitGroup
			wg.Add(1)
			go func() { defer wg.Done(); uA.GetEvent(800000078, ia) }()
			time.Sleep(50 * time.Millisecond)
			st := time.Now()
			e, err := uB.GetEvent(800000079, ib)
			dur := time.Since(st)
			wg.Wait()
			calls += 2
			ok := err == nil && e != nil && e.Index == ib && dur <= 2*T+150*time.Millisecond
			if ok || attempt == 2 {
				if !ok {
					s.Fail(map[string]any{"op": "two-clients-one-port", "fault": "two-clients-one-port", "path": "broadcast", "dur_ms": ms(dur)},
						fmt.Sprintf("a second client calling while another client of the process held the fixed bind port returned after %d ms with %v (its controller answers 20 ms after the request; timeout %d ms)", ms(dur), err, ms(T)))
				}
				break
			}
			time.Sleep(T)
		}
		// 900 datagrams from other controllers in the first 0.2 s, then the addressed controller's reply, timeout 1.5 s: the
		// reply is accepted (the call does not give up on a count of discarded datagrams)
		{
			nextIndex++
			idx := nextIndex
			farm.Plan(idx, Behaviour{Strays: 900, StrayGap: 150 * time.Microsecond})
			u := farmClient(farm, 0, 1500*time.Millisecond, nil, nil)
			st := time.Now()
			e, err := u.GetEvent(800000080, idx)
			calls++
			if err != nil || e == nil || e.Index != idx {
				s.Fail(map[string]any{"op": "many-strays", "fault": "many-strays", "path": "broadcast", "dur_ms": ms(time.Since(st))},
					fmt.Sprintf("the call gave up after %d ms (timeout 1500 ms) although the addressed controller's reply followed 900 stray datagrams well before the deadline: %v", ms(time.Since(st)), err))
			}
		}
		// a discovery whose broadcast cannot be sent (bound to loopback, broadcast address elsewhere) fails - and releases the
		// fixed bind port: the next call on that port works
		failedDiscoveryProbe(s, farm, T)
		// the controller answers from the same PORT NUMBER as the client's fixed bind port (on another address): its reply
		// is a reply like any other and is accepted when it arrives
		samePortReply(s, T)
		// a batch of mixed concurrent calls, then the accounting
		specs, udpIDs, tcpIDs := genScenario(r, farm, 6, false)
		u := farmClient(farm, 0, T, udpIDs, tcpIDs)
		runCalls(u, specs, time.Millisecond)
		u.GetDevices()
		calls += len(specs) + 1
	}
	time.Sleep(T + 150*time.Millisecond) // flood / late-reply goroutines of the FARM end
	socks1, gos1 := settle()
	s.Extra["calls"] = calls
	s.Extra["sockets_before_after"] = []int{socks0, socks1}
	s.Extra["goroutines_before_after"] = []int{gos0, gos1}
	if socks1 > socks0 {
		s.Fail(map[string]any{"op": "resources", "fault": "sockets", "before": socks0, "after": socks1}, fmt.Sprintf("the process holds %d more sockets after %d calls than before", socks1-socks0, calls))
	}
	if gos1 > gos0 {
		s.Fail(map[string]any{"op": "resources", "fault": "goroutines", "before": gos0, "after": gos1}, fmt.Sprintf("the process holds %d more goroutines after %d calls than before", gos1-gos0, calls))
	}
	if s.ReplayWants("listen-shutdown") {
		listenStopChild(s, "hang", "leak")
	}
	// LAST (a lock that is never released would block every later fixed-port call of this process): a TCP connect that
	// is refused on a fixed bind port, then an ordinary call on the same port - it must be served, not wait forever
	{
		dead := freeUDPPort()
		nextIndex++
		idx := nextIndex
		farm.Plan(idx, Behaviour{Delay: 20 * time.Millisecond})
		ok1 := uint32(800000055)
		u := farmClient(&Farm{Port: farm.Port, TPort: dead}, fixedPort, T, []uint32{ok1}, []uint32{800000056})
		u.GetEvent(800000056, idx+1000000) // refused: fails at once
		res := make(chan error, 1)
		st := time.Now()
		go func() {
			e, err := u.GetEvent(ok1, idx)
			if err == nil && (e == nil || e.Index != idx) {
				err = fmt.Errorf("wrong reply")
			}
			res <- err
		}()
		js := map[string]any{"op": "timed", "fault": "call-after-refused-tcp-on-fixed-port", "path": "udp", "fixed_port": true}
		select {
		case err := <-res:
			if err != nil || time.Since(st) > T+150*time.Millisecond {
				s.Fail(js, fmt.Sprintf("a call on the fixed bind port after a refused TCP connect returned %v after %d ms", err, ms(time.Since(st))))
			}
		case <-time.After(T + 2*time.Second):
			s.Fail(js, fmt.Sprintf("a call on the fixed bind port after a refused TCP connect had not returned %d ms after its timeout of %d ms (the port lock was not released)", 2000, ms(T)))
		}
		s.Extra["call_after_refused_tcp_on_fixed_port"] = "ran"
	}
	return s.Close()
}

// one GetEvent over TCP against a listener with backlog 0 whose accept queue is full until 300 ms into the call
func slowAcceptCall(T time.Duration) (dur time.Duration, ok bool, connectedAfter time.Duration) {
	fd, err := syscall.Socket(syscall.AF_INET, syscall.SOCK_STREAM, 0)
	if err != nil {
		return 0, false, 0
	}
	syscall.SetsockoptInt(fd, syscall.SOL_SOCKET, syscall.SO_REUSEADDR, 1)
	if err := syscall.Bind(fd, &syscall.SockaddrInet4{Port: 0, Addr: [4]byte{127, 0, 0, 1}}); err != nil {
		syscall.Close(fd)
		return 0, false, 0
	}
	if err := syscall.Listen(fd, 0); err != nil {
		syscall.Close(fd)
		return 0, false, 0
	}
	f := os.NewFile(uintptr(fd), "slow-controller")
	l, err := net.FileListener(f)
	f.Close()
	if err != nil {
		return 0, false, 0
	}
	port := l.Addr().(*net.TCPAddr).Port
	fillers := []net.Conn{}
	full := false
	for i := 0; i < 16; i++ {
		c, err := net.DialTimeout("tcp4", fmt.Sprintf("127.0.0.1:%d", port), 300*time.Millisecond)
		if err != nil {
			full = true
			break
		}
		fillers = append(fillers, c)
	}
	accepted := make(chan net.Conn, 64)
	start := time.Now()
	var firstAccept time.Duration
	go func() {
		time.Sleep(300 * time.Millisecond)
		n := 0
		for {
			c, err := l.Accept()
			if err != nil {
				close(accepted)
				return
			}
			n++
			if n == len(fillers)+1 {
				firstAccept = time.Since(start)
			}
			accepted <- c
		}
	}()
	if full {
		u := farmClient(&Farm{Port: port, TPort: port}, 0, T, nil, []uint32{800000099})
		start = time.Now()
		u.GetEvent(800000099, 1)
		dur = time.Since(start)
	}
	l.Close()
	for c := range accepted {
		c.Close()
	}
	for _, c := range fillers {
		c.Close()
	}
	return dur, full, firstAccept
}

func samePortReply(s *Sink, T time.Duration) {
	for attempt := 0; attempt < 3; attempt++ {
		p := freeUDPPort()
		ctl, err := net.ListenUDP("udp4", &net.UDPAddr{IP: net.IPv4(127, 0, 0, 2), Port: p})
		if err != nil {
			continue
		}
		go func() {
			buf := make([]byte, 2048)
			for {
				n, from, err := ctl.ReadFromUDP(buf)
				if err != nil {
					return
				}
				if n == 64 {
					req := append([]byte{}, buf[:n]...)
					go func() { time.Sleep(40 * time.Millisecond); ctl.WriteToUDP(farmReply(req), from) }()
				}
			}
		}()
		bind := types.BindAddrFrom(netip.AddrFrom4([4]byte{127, 0, 0, 1}), uint16(p))
		bc := types.BroadcastAddrFrom(netip.AddrFrom4([4]byte{127, 0, 0, 2}), uint16(p))
		u := uhppote.NewUHPPOTE(bind, bc, types.ListenAddrFrom(netip.AddrFrom4([4]byte{127, 0, 0, 1}), 60001), T, nil, false)
		st := time.Now()
		e, cerr := u.GetEvent(800000081, 77)
		dur := time.Since(st)
		defer ctl.Close()
		if cerr != nil && strings.Contains(cerr.Error(), "address already in use") {
			continue // the port was taken in the meantime
		}
		if cerr == nil { // set-door-control-state: the controller's reply is byte for byte the request
			if dcs, derr := u.SetDoorControlState(800000081, 3, types.NormallyClosed, 7); derr != nil || dcs == nil {
				s.Fail(map[string]any{"op": "same-port-reply", "fault": "same-port-reply", "path": "broadcast"},
					fmt.Sprintf("a reply identical to its request (set-door-control-state), from a controller whose port number equals the client's bind port, was not accepted: %v", derr))
			}
		}
		if cerr != nil || e == nil || e.Index != 77 {
			s.Fail(map[string]any{"op": "same-port-reply", "fault": "same-port-reply", "path": "broadcast", "dur_ms": ms(dur)},
				fmt.Sprintf("a reply sent 40 ms after the request from a controller whose port number equals the client's bind port was not accepted (%v after %d ms, timeout %d ms)", cerr, ms(dur), ms(T)))
		}
		return
	}
}

func failedDiscoveryProbe(s *Sink, farm *Farm, T time.Duration) {
	for attempt := 0; attempt < 2; attempt++ {
		p := freeUDPPort()
		bind := types.BindAddrFrom(netip.AddrFrom4([4]byte{127, 0, 0, 1}), uint16(p))
		bad := uhppote.NewUHPPOTE(bind, types.BroadcastAddrFrom(netip.AddrFrom4([4]byte{192, 0, 2, 255}), 60000), types.ListenAddrFrom(netip.AddrFrom4([4]byte{127, 0, 0, 1}), 60001), T, nil, false)
		if _, err := bad.GetDevices(); err == nil {
			return // this host can send from loopback to that address: the scenario does not apply
		}
		nextIndex++
		idx := nextIndex
		farm.Plan(idx, Behaviour{})
		good := farmClient(farm, p, T, nil, nil)
		e, err := good.GetEvent(800000082, idx)
		if err != nil && strings.Contains(err.Error(), "address already in use") && attempt == 0 {
			time.Sleep(T)
			continue // (another process may have taken the port: once more on a new port)
		}
		if err != nil || e == nil || e.Index != idx {
			s.Fail(map[string]any{"op": "failed-discovery", "fault": "failed-discovery", "path": "broadcast"},
				fmt.Sprintf("after a discovery that could not be sent, the next call on the same fixed bind port failed: %v", err))
		}
		return
	}
}
