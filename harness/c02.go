package main

import (
	"fmt"
	"github.com/uhppoted/uhppote-core/uhppote"
	"reflect"
	"time"
)

// C02: replies with a correct 8-byte header and every payload class, through the recording driver

func init() { commands["C02"] = runC02 }

type fieldPos struct {
	Name  string
	Text  string
	Off   int
	Width int
}

func replyFields(resp string) []fieldPos {
	var out []fieldPos
	if resp == "" {
		return out
	}
	for _, l := range leaves(layoutOfType(msgTypes[resp])) {
		if m := reOffset.FindStringSubmatch(l.F.Tag); m != nil {
			var off int
			fmt.Sscanf(m[1], "%d", &off)
			if k := kindByText(l.F.Text); k != nil {
				out = append(out, fieldPos{l.F.Name, l.F.Text, off, k.Width})
			}
		}
	}
	return out
}

var bytePool = []byte{0, 1, 2, 3, 4, 9, 0x0a, 0x10, 0x23, 0x24, 0x25, 0x59, 0x60, 0x61, 0x99, 0x9a, 0xa0, 0xfe, 0xff}

var datePatterns = [][]byte{
	{0x20, 0x23, 0x12, 0x01}, {0x20, 0x24, 0x02, 0x01}, {0x20, 0x23, 0x11, 0x15}, {0x20, 0x24, 0x01, 0x15}, {0x20, 0x24, 0x02, 0x17}, {0x20, 0x24, 0x03, 0x01}, // pairs a coarse cache key would confuse
	{0, 0, 0, 0}, {0x00, 0x01, 0x01, 0x01}, {0x00, 0x01, 0x01, 0x02}, {0x20, 0x24, 0x02, 0x29}, {0x20, 0x23, 0x02, 0x29}, {0x20, 0x00, 0x02, 0x29}, {0x19, 0x00, 0x02, 0x29},
	{0x20, 0x24, 0x00, 0x10}, {0x20, 0x24, 0x13, 0x10}, {0x20, 0x24, 0x12, 0x00}, {0x20, 0x24, 0x12, 0x32}, {0x20, 0x24, 0x04, 0x31}, {0x20, 0x24, 0x12, 0x31},
	{0x2a, 0x24, 0x01, 0x01}, {0x20, 0xb4, 0x01, 0x01}, {0x20, 0x24, 0x1f, 0x01}, {0x20, 0x24, 0x01, 0xc1}, {0xa0, 0x24, 0x01, 0x01}, {0x99, 0x99, 0x12, 0x31}, {0x00, 0x00, 0x01, 0x01},
}

func runC02(o Opts) error {
	s := NewSink("C02", o.Out, hdrApi+"\nFrom UV Require Import Spec.ReplySpec.", "caseapi", "model_okA", "spec_ok02")
	s.ShardSize = 250
	if o.Replay != "" {
		if err := s.LoadReplay(o.Replay, apiReplayKeys); err != nil {
			return err
		}
	}
	r := NewRand(o.Seed, "C02")
	thorough := o.Tier == "thorough"
	rounds := 3
	if thorough {
		rounds = 12
	}
	for round := 0; round < rounds; round++ {
		for w := 0; w < nOps; w++ {
			id := genID(r)
			cfg := Cfg{}
			if r.Intn(3) == 0 {
				cfg = genCfg(r, []uint32{id, genID(r)})
			}
			oc := genOp(r, w, id, false)
			if oc.Resp == "" {
				continue
			}
			// operations whose result depends on an echoed argument: make sure the value path is reached
			if oc.Name == "GetTimeProfile" || oc.Name == "GetCardByID" {
				for try := 0; try < 20; try++ {
					var x, y uint64
					fmt.Sscanf(oc.Coq, oc.Name+" %d %d", &x, &y)
					if y != 0 && !(oc.Name == "GetCardByID" && y == 0xffffffff) {
						break
					}
					oc = genOp(r, w, id, false)
				}
			}
			fields := replyFields(oc.Resp)
			// echo / sentinel fields: reply with the requested card / profile, zero, 0xffffffff, another value
			set := map[string]uint64{}
			var a, b uint64
			switch oc.Name {
			case "GetCardByID":
				fmt.Sscanf(oc.Coq, "GetCardByID %d %d", &a, &b)
				set["CardNumber"] = []uint64{b, b, b, 0, 0xffffffff, b + 1}[[]int{0, 3, 4, 5, 1, 2}[round%6]]
			case "GetCardByIndex":
				if r.Intn(3) == 0 {
					set["CardNumber"] = []uint64{0, 0xffffffff, 1}[r.Intn(3)]
				}
			case "GetTimeProfile":
				fmt.Sscanf(oc.Coq, "GetTimeProfile %d %d", &a, &b)
				set["ProfileID"] = []uint64{b, b, b, b, 0, (b + 1) % 256}[[]int{0, 4, 5, 1, 2, 3}[round%6]]
			case "GetEvent":
				if r.Intn(3) == 0 {
					set["Type"] = 0xff
				}
				if r.Intn(4) == 0 {
					set["Index"] = 0
				}
			case "GetStatus":
				if r.Intn(3) == 0 {
					set["EventIndex"] = 0
				}
			}
			base := genReply(r, oc.Resp, id, 0, set)
			send := func(reply []byte, class string) {
				apiCase(s, cfg, oc, Script{Kind: "datagrams", Datagrams: [][]byte{reply}}, "reply/"+class, nil, true)
			}
			send(base, "valid")
			if oc.Name == "GetStatus" {
				v := append([]byte{}, base...)
				v[0] = 0x19
				send(v, "valid-0x19")
			}
			for _, f := range fields {
				if f.Off < 8 {
					continue
				}
				mut := func(bs []byte, class string) {
					m := append([]byte{}, base...)
					copy(m[f.Off:], bs)
					send(m, class)
				}
				if f.Width >= 2 { // byte strings the source itself names, where they fit a field
					for _, p := range dictBytesOf(f.Width) {
						mut(p, "source-dictionary")
					}
				}
				switch f.Text {
				case "bool", "uint8", "byte":
					pool := bytePool
					if thorough && round == 0 {
						pool = make([]byte, 256)
						for i := range pool {
							pool[i] = byte(i)
						}
					}
					for _, v := range pool {
						if !thorough && f.Text != "bool" && r.Intn(3) != 0 {
							continue
						}
						mut([]byte{v}, "byte-field-sweep")
					}
				case "types.HHmm", "*types.HHmm":
					n := 12
					if thorough {
						n = 400
					}
					for i := 0; i < n; i++ {
						mut([]byte{bytePool[r.Intn(len(bytePool))], bytePool[r.Intn(len(bytePool))]}, "hhmm-pairs")
					}
					for _, p := range [][]byte{{0x24, 0x00}, {0x24, 0x01}, {0x23, 0x59}, {0x23, 0x60}, {0x10, 0x60}, {0x25, 0x00}, {0x00, 0x00}, {0x1a, 0x00}, {0x10, 0x5a}} {
						mut(p, "hhmm-boundary")
					}
				case "types.Date", "*types.Date":
					for _, p := range datePatterns {
						mut(p, "date-patterns")
					}
					for i := 0; i < 4; i++ {
						if ft, ok := fewDigitDateTime(r); ok {
							mut(bcdOfDigits(ft.Format("20060102")), "date-few-digits")
						}
					}
				case "types.DateTime", "*types.DateTime":
					for _, p := range datePatterns {
						for _, t := range [][]byte{{0, 0, 0}, {0x23, 0x59, 0x59}, {0x24, 0, 0}, {0x12, 0x60, 0}, {0x12, 0, 0x60}, {0x1a, 0, 0}, {0x12, 0x34, 0x56}, {0x23, 0x59, 0x60}} {
							if thorough || r.Intn(4) == 0 {
								mut(append(append([]byte{}, p...), t...), "datetime-patterns")
							}
						}
					}
					mut([]byte{0x20, 0, 0, 0, 0, 0, 0}, "datetime-patterns")
					for i := 0; i < 6; i++ { // valid date-times written with two or three distinct digits
						if ft, ok := fewDigitDateTime(r); ok {
							mut(bcdOfDigits(ft.Format("20060102150405")), "datetime-few-digits")
						}
					}
					// the uninitialised-clock date prefix with other times of day, valid and not
					for _, t := range [][]byte{{0, 0, 1}, {0x12, 0x34, 0x56}, {0x0a, 0xbc, 0xde}, {0x12, 0x3f, 0}, {0x24, 0, 0}} {
						mut(append([]byte{0x20, 0, 0, 0}, t...), "datetime-patterns")
					}
				case "types.SystemDate":
					for _, p := range [][]byte{{0, 0, 0}, {0x24, 0x02, 0x29}, {0x23, 0x02, 0x29}, {0x00, 0x02, 0x29}, {0x00, 0x02, 0x30}, {0x68, 0x02, 0x29}, {0x69, 0x02, 0x29}, {0x72, 0x02, 0x29}, {0x69, 0x01, 0x01}, {0x68, 0x12, 0x31}, {0x99, 0x12, 0x31}, {0x00, 0x01, 0x01}, {0x24, 0x13, 0x01}, {0x24, 0x00, 0x01}, {0x24, 0x01, 0x00}, {0x2a, 0x01, 0x01}, {0x24, 0x01, 0x32}} {
						mut(p, "sysdate-patterns")
					}
				case "types.SystemTime":
					for _, p := range [][]byte{{0, 0, 0}, {0x23, 0x59, 0x59}, {0x24, 0, 0}, {0x23, 0x60, 0}, {0x23, 0, 0x60}, {0xa0, 0, 0}, {0x12, 0x3b, 0}, {0x23, 0x59, 0x60}, {0x00, 0x00, 0x60}, {0x23, 0x59, 0x61}, {0x12, 0x59, 0x60}, {0x23, 0x59, 0x99}} {
						mut(p, "systime-patterns")
					}
				case "uint32", "types.PIN", "uint16", "types.Version", "net.IP", "netip.AddrPort", "types.MacAddress":
					for bit := 0; bit < 8*f.Width; bit += 1 + r.Intn(4) {
						bs := make([]byte, f.Width)
						bs[bit/8] = 1 << uint(bit%8)
						mut(bs, "int-bit-walk")
					}
					mut(make([]byte, f.Width), "int-zero")
					ff := make([]byte, f.Width)
					for i := range ff {
						ff[i] = 0xff
					}
					mut(ff, "int-all-ones")
				}
			}
			// every date field of the reply at once: all zero (the 'no date' sentinel), all impossible, all non-decimal
			for ci, pat := range [][]byte{{0, 0, 0, 0}, {0x20, 0x23, 0x02, 0x30}, {0x2a, 0x24, 0x01, 0x01}} {
				m := append([]byte{}, base...)
				n := 0
				for _, f := range fields {
					if f.Off >= 8 && (f.Text == "types.Date" || f.Text == "*types.Date") {
						copy(m[f.Off:], pat)
						n++
					}
				}
				if n >= 2 {
					send(m, []string{"all-dates-zero", "all-dates-impossible", "all-dates-non-decimal"}[ci])
				}
			}
			// random payloads after the correct header
			nrand := 4
			if thorough {
				nrand = 40
			}
			for i := 0; i < nrand; i++ {
				m := append([]byte{}, base[:8]...)
				m = append(m, r.Bytes(56)...)
				if i%2 == 0 { // sparse: mostly the valid reply with a few random bytes
					m = append([]byte{}, base...)
					for k := 0; k < 3; k++ {
						m[8+r.Intn(56)] = r.Byte()
					}
				}
				send(m, "random-payload")
			}
			_ = reflect.TypeOf
		}
	}
	// the sentinels requested and echoed: GetCardByID(0) answered with card 0, GetCardByID(0xffffffff) with 0xffffffff
	for _, cn := range []uint32{0, 0xffffffff, 0x00ffffff, 1} {
		for _, echo := range []uint32{cn, 0, 0xffffffff} {
			id := genID(r)
			var oc OpCase
			for k := 0; k < nOps; k++ {
				if c := genOp(r, k, id, false); c.Name == "GetCardByID" {
					oc = c
					break
				}
			}
			if oc.Name == "" {
				continue
			}
			cnn := cn
			oc.Coq = fmt.Sprintf("GetCardByID %d %d", id, cnn)
			oc.JS = map[string]any{"op": "GetCardByID", "id": id, "coq": oc.Coq}
			oc.Run = func(u uhppote.IUHPPOTE) string {
				card, err := u.GetCardByID(id, cnn)
				if err != nil {
					return "RErr"
				}
				if card == nil {
					return "RNone"
				}
				return rvals(cardVals(*card)...)
			}
			reply := genReply(r, oc.Resp, id, 0, map[string]uint64{"CardNumber": uint64(echo)})
			apiCase(s, Cfg{}, oc, Script{Kind: "datagrams", Datagrams: [][]byte{reply}}, "reply/sentinel-requested", nil, true)
		}
	}
	// pairs of single-byte fields of one reply over the small constants the source itself names (plus 0..6), with every
	// boolean of the reply set: special cases that couple two fields (and then override a third) show here
	{
		small := []byte{0, 1, 2, 3, 4, 5, 6}
		seen := map[byte]bool{0: true, 1: true, 2: true, 3: true, 4: true, 5: true, 6: true}
		for _, v := range dictIntsOf(8) {
			if !seen[byte(v)] && len(small) < 26 {
				seen[byte(v)] = true
				small = append(small, byte(v))
			}
		}
		perOp := 700
		if thorough {
			perOp = 8000
		}
		for w := 0; w < nOps; w++ {
			budget := perOp
			id := genID(r)
			oc := genOp(r, w, id, false)
			if oc.Resp == "" || oc.Name == "GetTimeProfile" || oc.Name == "GetCardByID" {
				continue
			}
			var bytesF, boolsF []fieldPos
			for _, f := range replyFields(oc.Resp) {
				if f.Off >= 8 && (f.Text == "uint8" || f.Text == "byte") {
					bytesF = append(bytesF, f)
				}
				if f.Off >= 8 && f.Text == "bool" {
					boolsF = append(boolsF, f)
				}
			}
			if len(bytesF) < 2 {
				continue
			}
			if len(bytesF) > 4 {
				bytesF = bytesF[:4]
			}
			for i := 0; i < len(bytesF); i++ {
				for j := i + 1; j < len(bytesF); j++ {
					for _, a := range small {
						for _, b := range small {
							if budget <= 0 {
								break
							}
							budget--
							reply := genReply(r, oc.Resp, id, 0, map[string]uint64{"EventIndex": 77})
							for _, bf := range boolsF {
								reply[bf.Off] = 1
							}
							for k, of := range bytesF { // the other single-byte fields small and valid-looking
								reply[of.Off] = byte(1 + (k+int(a)+int(b))%4)
							}
							reply[bytesF[i].Off], reply[bytesF[j].Off] = a, b
							apiCase(s, Cfg{}, oc, Script{Kind: "datagrams", Datagrams: [][]byte{reply}}, "reply/byte-field-pairs", nil, true)
						}
					}
				}
			}
		}
	}
	// the event block of a status / event reply over the whole product of its small domains (type x reason x door x
	// direction), every boolean of the reply set: a special case keyed on several of them at once shows as a changed field
	for w := 0; w < nOps; w++ {
		id := genID(r)
		oc := genOp(r, w, id, false)
		if oc.Resp == "" {
			continue
		}
		pos := map[string]fieldPos{}
		var boolsF []fieldPos
		for _, f := range replyFields(oc.Resp) {
			pos[f.Name] = f
			if f.Off >= 8 && f.Text == "bool" {
				boolsF = append(boolsF, f)
			}
		}
		et, ok1 := pos["EventType"]
		rs, ok2 := pos["Reason"]
		dr, ok3 := pos["Door"]
		di, ok4 := pos["Direction"]
		if !(ok1 && ok2 && ok3 && ok4) {
			continue
		}
		for _, t := range []byte{0, 1, 2, 3, 0xff} {
			for reason := 0; reason <= 46; reason++ {
				if !thorough && (int(t)+reason)%2 == 1 && reason > 6 && reason != 24 && reason != 44 {
					continue // quick: half of the product (all of it in the thorough tier)
				}
				for door := byte(1); door <= 4; door++ {
					reply := genReply(r, oc.Resp, id, 0, map[string]uint64{"EventIndex": 78})
					for _, bf := range boolsF {
						reply[bf.Off] = 1
					}
					reply[et.Off], reply[rs.Off], reply[dr.Off], reply[di.Off] = t, byte(reason), door, 1+door%2
					apiCase(s, Cfg{}, oc, Script{Kind: "datagrams", Datagrams: [][]byte{reply}}, "reply/event-block-product", nil, true)
				}
			}
		}
	}
	if o.Replay == "" {
		dstC02(s, r)
		latencyProbe(s, r)
	}
	return s.Close()
}

// replies carrying date-times on the days a daylight-saving change happens, decoded with the process zone set to a zone
// that observes it (times of day that exist on that day): the result is still exactly the transmitted fields
func dstC02(s *Sink, r *Rand) {
	defer func() { time.Local = time.UTC }()
	bcd := func(v int) byte { return byte(v/10<<4 | v%10) }
	n := 0
	for _, z := range []string{"Europe/London", "America/Santiago", "Australia/Lord_Howe", "America/St_Johns"} {
		loc, err := time.LoadLocation(z)
		if err != nil {
			continue
		}
		// days of 2021..2022 on which the offset at noon differs from the offset at noon the day before
		days := []time.Time{}
		prev := 0
		for d := time.Date(2021, 1, 1, 12, 0, 0, 0, time.UTC); d.Year() < 2023; d = d.AddDate(0, 0, 1) {
			_, off := d.In(loc).Zone()
			if d.YearDay() != 1 || d.Year() != 2021 {
				if off != prev {
					days = append(days, d, d.AddDate(0, 0, -1))
				}
			}
			prev = off
		}
		time.Local = loc
		type stampT struct {
			d   time.Time
			tod [3]int
			ops []string
		}
		stamps := []stampT{}
		for _, d := range days {
			for _, tod := range [][3]int{{4, 0, 0}, {12, 34, 56}, {23, 59, 59}} {
				stamps = append(stamps, stampT{d, tod, []string{"GetStatus", "GetTime", "GetEvent"}})
			}
		}
		// the wall-clock times within 100 minutes of each change (as the zone's own clock shows them, so they all exist)
		for i := 0; i+1 < len(days); i += 2 {
			from := days[i].AddDate(0, 0, -1)
			_, o0 := from.In(loc).Zone()
			for t := from; t.Before(days[i]); t = t.Add(15 * time.Minute) {
				if _, o := t.In(loc).Zone(); o != o0 {
					for k := -7; k <= 6; k++ {
						w := t.Add(time.Duration(k)*15*time.Minute + 7*time.Minute + 30*time.Second).In(loc)
						civ := time.Date(w.Year(), w.Month(), w.Day(), 12, 0, 0, 0, time.UTC)
						stamps = append(stamps, stampT{civ, [3]int{w.Hour(), w.Minute(), w.Second()}, []string{[]string{"GetTime", "GetEvent", "GetStatus"}[(k+7)%3]}})
					}
					break
				}
			}
		}
		for _, st := range stamps {
			d := st.d
			{
				tod := st.tod
				id := genID(r)
				for _, name := range st.ops {
					w := map[string]int{"GetStatus": 8, "GetTime": 4, "GetEvent": 0}[name]
					var oc OpCase
					found := false
					for k := 0; k < nOps; k++ {
						if c := genOp(r, k, id, false); c.Name == name {
							oc, found, w = c, true, k
							break
						}
					}
					_ = w
					if !found {
						continue
					}
					reply := genReply(r, oc.Resp, id, 0, nil)
					stamp := []byte{0x20, bcd(d.Year() % 100), bcd(int(d.Month())), bcd(d.Day()), bcd(tod[0]), bcd(tod[1]), bcd(tod[2])}
					switch name {
					case "GetStatus":
						copy(reply[20:27], stamp)
						copy(reply[37:40], stamp[4:7])
						copy(reply[51:54], stamp[1:4])
					case "GetTime":
						copy(reply[8:15], stamp)
					case "GetEvent":
						copy(reply[20:27], stamp)
					}
					apiCase(s, Cfg{}, oc, Script{Kind: "datagrams", Datagrams: [][]byte{reply}}, "dst-day/"+z+"/"+name, nil, true)
					n++
				}
			}
		}
	}
	// the controller is CONFIGURED with a zone that skips an hour while the process runs under UTC: a timestamp inside that
	// zone's skipped hour is still reported with the civil fields that were transmitted
	time.Local = time.UTC
	for _, z := range []string{"America/New_York", "Europe/London", "Australia/Lord_Howe", "America/Santiago"} {
		loc, err := time.LoadLocation(z)
		if err != nil {
			continue
		}
		_, prev := time.Date(2021, 1, 1, 0, 0, 0, 0, time.UTC).In(loc).Zone()
		for t := time.Date(2021, 1, 1, 0, 0, 0, 0, time.UTC); t.Year() < 2022; t = t.Add(30 * time.Minute) {
			_, off := t.In(loc).Zone()
			if off > prev { // clocks went forward at t: the wall clock readings [t+prev, t+off) do not exist in loc
				for _, frac := range []int{0, 1, 2} {
					w := t.Add(time.Duration(prev)*time.Second + time.Duration(frac)*time.Duration(off-prev)*time.Second/3)
					stamp := []byte{0x20, bcd(w.Year() % 100), bcd(int(w.Month())), bcd(w.Day()), bcd(w.Hour()), bcd(w.Minute()), bcd(w.Second())}
					for _, name := range []string{"GetStatus", "GetTime", "GetEvent"} {
						id := genID(r)
						var oc OpCase
						for k := 0; k < nOps; k++ {
							if c := genOp(r, k, id, false); c.Name == name {
								oc = c
								break
							}
						}
						if oc.Name == "" {
							continue
						}
						reply := genReply(r, oc.Resp, id, 0, nil)
						switch name {
						case "GetStatus":
							copy(reply[20:27], stamp)
							copy(reply[37:40], stamp[4:7])
							copy(reply[51:54], stamp[1:4])
						case "GetTime":
							copy(reply[8:15], stamp)
						case "GetEvent":
							copy(reply[20:27], stamp)
						}
						cfg := Cfg{Devices: []DevCfg{{ID: id, Name: "z", Proto: "udp", TZ: loc}}}
						apiCase(s, cfg, oc, Script{Kind: "datagrams", Datagrams: [][]byte{reply}}, "device-zone-gap/"+z+"/"+name, nil, true)
						n++
					}
				}
			}
			prev = off
		}
	}
	s.Extra["dst_day_replies"] = n
}
