package main

import (
	"fmt"
	"net/netip"
	"strings"
	"time"
)

// C03 (a): datagram sequences through the recording driver on the three delivery paths.
// C11 (a): discovery with reply multisets and malformed datagrams interleaved.

func init() {
	commands["C03"] = runC03
	commands["C11"] = runC11
}

var dgramClasses = []string{"valid", "short", "empty", "long", "wrong-serial", "serial-0", "wrong-function", "wrong-id", "id-0x19", "malformed-field", "event-shaped"}

func makeDgram(r *Rand, class string, oc OpCase, id uint32) []byte {
	base := genReply(r, oc.Resp, id, 0, nil)
	switch class {
	case "short":
		return base[:1+r.Intn(63)]
	case "empty":
		return []byte{}
	case "long":
		return append(base, r.Bytes(1+r.Intn(200))...)
	case "wrong-serial":
		w := id ^ (1 << uint(r.Intn(32)))
		base[4], base[5], base[6], base[7] = byte(w), byte(w>>8), byte(w>>16), byte(w>>24)
	case "serial-0":
		base[4], base[5], base[6], base[7] = 0, 0, 0, 0
	case "wrong-function":
		base[1] ^= byte(1 + r.Intn(255))
	case "wrong-id":
		base[0] = []byte{0x18, 0x16, 0x00, 0xff}[r.Intn(4)]
	case "event-shaped": // what a v6.62 controller's event looks like: protocol id 0x19 AND function code 0x20
		base[0], base[1] = 0x19, 0x20
	case "id-0x19":
		base[0] = 0x19
	case "malformed-field":
		// one field with a domain (bool, BCD date / time / HH:mm), chosen at random, replaced by a pattern outside it -
		// incl. the uninitialised-clock date prefix 20 00 00 00 followed by non-decimal nibbles; falls back to a payload byte
		fs := replyFields(oc.Resp)
		cands := []fieldPos{}
		for _, f := range fs {
			if f.Off >= 8 && (f.Text == "bool" || strings.Contains(f.Text, "Date") || strings.Contains(f.Text, "Time") || strings.Contains(f.Text, "HHmm")) {
				cands = append(cands, f)
			}
		}
		if len(cands) > 0 {
			f := cands[r.Intn(len(cands))]
			ps := badPatterns(f.Text, f.Width)
			if strings.Contains(f.Text, "DateTime") {
				ps = append(ps, []byte{0x20, 0, 0, 0, 0x0a, 0xbc, 0xde}, []byte{0x20, 0, 0, 0, 0x12, 0x3f, 0x00}, []byte{0x20, 0x24, 0x01, 0x01, 0x12, 0x00, 0xa0})
			}
			ps = append(ps, append([]byte{0xfa}, make([]byte, f.Width-1)...))
			copy(base[f.Off:], ps[r.Intn(len(ps))])
		} else {
			base[8+r.Intn(56)] ^= 0xff
		}
	}
	return base
}

func pathCfg(path int, id uint32) Cfg {
	switch path {
	case 1:
		return Cfg{Devices: []DevCfg{{ID: id, Name: "udp", Addr: netip.MustParseAddrPort("192.168.1.100:60000"), Proto: "udp"}}}
	case 2:
		return Cfg{Devices: []DevCfg{{ID: id, Name: "tcp", Addr: netip.MustParseAddrPort("192.168.1.100:60000"), Proto: "tcp"}}}
	}
	return Cfg{}
}

func runC03(o Opts) error {
	s := NewSink("C03", o.Out, hdrApi+"\nFrom UV Require Import Spec.ReplySpec Spec.RecvSpec.", "caseapi", "model_okA", "spec_ok03")
	s.ShardSize = 250
	if o.Replay != "" {
		if err := s.LoadReplay(o.Replay, apiReplayKeys); err != nil {
			return err
		}
	}
	r := NewRand(o.Seed, "C03")
	thorough := o.Tier == "thorough"
	maxLen := 2
	opsPerRound := 3
	if thorough {
		maxLen, opsPerRound = 3, 10
	}
	pathNames := []string{"broadcast", "udp", "tcp"}
	for k := 0; k < opsPerRound; k++ {
		w := r.Intn(nOps)
		if k == 0 {
			w = 8 // GetStatus: the only function for which protocol id 0x19 is legitimate
		}
		if w == 1 {
			w = 0
		}
		for path := 0; path < 3; path++ {
			id := genID(r)
			cfg := pathCfg(path, id)
			oc := genOp(r, w, id, false)
			var rec func(prefix []string)
			rec = func(prefix []string) {
				ds := [][]byte{}
				for _, c := range prefix {
					ds = append(ds, makeDgram(r, c, oc, id))
				}
				class := "silence"
				if len(prefix) > 0 {
					class = prefix[len(prefix)-1]
				}
				apiCase(s, cfg, oc, Script{Kind: "datagrams", Datagrams: ds}, "seq/"+pathNames[path]+"/last="+class, nil, len(prefix) > 0)
				if len(prefix) == maxLen {
					return
				}
				for _, c := range dgramClasses {
					rec(append(append([]string{}, prefix...), c))
				}
			}
			rec(nil)
			// random longer sequences
			n := 6
			if thorough {
				n = 60
			}
			for i := 0; i < n; i++ {
				ln := 3 + r.Intn(10)
				ds := [][]byte{}
				for j := 0; j < ln; j++ {
					c := dgramClasses[r.Intn(len(dgramClasses))]
					if r.Intn(3) != 0 && j < ln-1 {
						c = []string{"short", "long", "wrong-serial", "serial-0"}[r.Intn(4)]
					}
					ds = append(ds, makeDgram(r, c, oc, id))
				}
				apiCase(s, cfg, oc, Script{Kind: "datagrams", Datagrams: ds}, "seq/"+pathNames[path]+"/random-long", nil, true)
			}
			apiCase(s, cfg, oc, Script{Kind: "error"}, "seq/"+pathNames[path]+"/driver-error", nil, true)
		}
	}
	if s.ReplayWants("net-") {
		netC03(s, o.Tier)
	}
	return s.Close()
}

func runC11(o Opts) error {
	s := NewSink("C11", o.Out, hdrApi+"\nFrom UV Require Import Spec.ReplySpec Spec.RecvSpec.", "caseapi", "model_okA", "spec_ok11")
	s.ShardSize = 200
	if o.Replay != "" {
		if err := s.LoadReplay(o.Replay, apiReplayKeys); err != nil {
			return err
		}
	}
	r := NewRand(o.Seed, "C11")
	n := 150
	if o.Tier == "thorough" {
		n = 3000
	}
	gd := getDevicesCase()
	probe := genOp(r, 0, 1, false)
	for i := 0; i < n; i++ {
		ids := []uint32{genID(r), genID(r), genID(r), 405419896}
		if i%5 == 4 { // a controller that has no serial number yet (0) is configured, named and answers like any other
			ids[0] = 0
		}
		cfg := genCfg(r, ids)
		if i%5 == 4 {
			cfg.Devices = append(cfg.Devices, DevCfg{ID: 0, Name: "unassigned"})
		}
		k := r.Intn(13)
		ds := [][]byte{}
		nbad := 0
		for j := 0; j < k; j++ {
			id := ids[r.Intn(len(ids))] // duplicates on purpose
			d := genReply(r, "GetDeviceResponse", id, i%2, nil)
			if r.Intn(3) == 0 {
				nbad++
				switch r.Intn(6) {
				case 0:
					d = d[:r.Intn(64)]
				case 1:
					d = append(d, r.Bytes(1+r.Intn(40))...)
				case 2:
					d[0] = []byte{0x18, 0x19, 0x00}[r.Intn(3)]
				case 3:
					d[1] ^= byte(1 + r.Intn(255))
				case 4:
					d[28+r.Intn(4)] = 0xa0 | byte(r.Intn(16)) // bad BCD date
				case 5:
					d = makeDgram(r, "malformed-field", probe, id)
				}
			} else if r.Intn(8) == 0 {
				copy(d[28:32], [][]byte{{0, 0, 0, 0}, {0x20, 0x23, 0x02, 0x30}, {0x00, 0x01, 0x01, 0x01}, {0x20, 0x24, 0x13, 0x01}}[r.Intn(4)])
			}
			ds = append(ds, d)
		}
		class := "discovery/clean"
		if nbad > 0 {
			class = "discovery/with-noise"
		}
		if k == 0 {
			class = "discovery/no-replies"
		}
		apiCase(s, cfg, gd, Script{Kind: "datagrams", Datagrams: ds}, class, nil, k > 0)
		if len(ds) > 1 && r.Intn(3) == 0 { // a permutation of the same multiset
			p := append([][]byte{}, ds...)
			for a := len(p) - 1; a > 0; a-- {
				b := r.Intn(a + 1)
				p[a], p[b] = p[b], p[a]
			}
			apiCase(s, cfg, gd, Script{Kind: "datagrams", Datagrams: p}, class+"/permuted", nil, true)
		}
	}
	apiCase(s, Cfg{}, gd, Script{Kind: "error"}, "discovery/driver-error", nil, false)
	if s.ReplayWants("net-") {
		netC11(s, o.Tier)
	}
	return s.Close()
}

// socket-level half of C03: the REAL driver on loopback; the controller answers with a datagram that is not a well-formed
// reply from the addressed controller - on no path may the call return it as a result
func netC03(s *Sink, tier string) {
	farm, err := NewFarm()
	if err != nil {
		s.Extra["net_stream"] = "skipped: " + err.Error()
		return
	}
	defer farm.Close()
	T := 150 * time.Millisecond
	rounds := 1
	if tier == "thorough" {
		rounds = 10
	}
	calls, accepted := 0, 0
	restore := discardStdout()
	defer func() { farmDebug = false; restore() }()
	for round := 0; round < 2*rounds; round++ {
		farmDebug = round%2 == 1 // every second pass with the client in debug mode
		for path := 0; path < 3; path++ {
			for m := 0; m < len(mangleNames); m++ {
				nextIndex++
				idx := nextIndex
				id := uint32(700000000 + 10*path + m)
				farm.Plan(idx, Behaviour{Mangle: m})
				var udpIDs, tcpIDs []uint32
				switch path {
				case pathUDP:
					udpIDs = []uint32{id}
				case pathTCP:
					tcpIDs = []uint32{id}
				}
				u := farmClient(farm, 0, T, udpIDs, tcpIDs)
				e, err := u.GetEvent(id, idx)
				calls++
				pn := []string{"broadcast", "udp", "tcp"}[path]
				js := map[string]any{"op": "net-reply", "path": pn, "mangle": mangleNames[m]}
				switch {
				case m == 0 && (err != nil || e == nil || e.Index != idx):
					s.Fail(js, fmt.Sprintf("a well-formed reply from the addressed controller was not accepted (%v)", err))
				case m == 8 && err == nil:
					// 0x19 is only legal for function 0x20 (events): any other function with SOM 0x19 must be refused
					s.Fail(js, "a reply with protocol id 0x19 and a function other than 0x20 was accepted")
				case m != 0 && m != 8 && err == nil: // also a "no event" answer is a result - there was no acceptable reply to base it on
					accepted++
					s.Fail(js, fmt.Sprintf("a datagram that is not a well-formed reply from the addressed controller (%s) was returned as the result over %s", mangleNames[m], pn))
				}
			}
		}
	}
	// broadcast path: hundreds of replies from other controllers, then S's own reply well inside the deadline - the call
	// keeps waiting for S however many strays it has discarded
	for _, n := range []int{300, 900} {
		nextIndex++
		idx := nextIndex
		id := uint32(700000900)
		farm.Plan(idx, Behaviour{Strays: n, StrayGap: 150 * time.Microsecond})
		u := farmClient(farm, 0, 1500*time.Millisecond, nil, nil)
		t0 := time.Now()
		e, err := u.GetEvent(id, idx)
		calls++
		if err != nil || e == nil || e.Index != idx {
			s.Fail(map[string]any{"op": "net-reply", "path": "broadcast", "strays": n}, fmt.Sprintf("after %d datagrams from other controllers the call did not wait for the addressed controller's reply, which came %d ms into a 1500 ms timeout (%v)", n, time.Since(t0).Milliseconds(), err))
		}
	}
	// broadcast path: other controllers keep answering until after the deadline and the addressed controller's reply comes
	// later still - the call ends at its deadline with an error; discarded datagrams do not extend the wait
	{
		nextIndex++
		idx := nextIndex
		farm.Plan(idx, Behaviour{Flood: true, FloodFor: 6 * T / 5, Delay: 7 * T / 5})
		u := farmClient(farm, 0, T, nil, nil)
		t0 := time.Now()
		e, err := u.GetEvent(700000901, idx)
		dur := time.Since(t0)
		calls++
		if err == nil || dur > T+120*time.Millisecond {
			s.Fail(map[string]any{"op": "net-reply", "path": "broadcast", "mangle": "strays-past-the-deadline", "dur_ms": dur.Milliseconds()},
				fmt.Sprintf("with stray replies arriving until after the deadline the call returned after %d ms (timeout %d ms) with result %v / error %v: a reply that came after the deadline was waited for", dur.Milliseconds(), T.Milliseconds(), e != nil, err))
		}
		time.Sleep(T) // let the farm finish
	}
	samePortReply(s, 300*time.Millisecond)
	s.Extra["net_calls"] = calls
	s.Extra["net_malformed_accepted"] = accepted
}

// socket-level half of C11: the REAL driver's Broadcast on loopback - six controllers answer 15 ms apart, optionally with
// datagrams that are not discovery replies in between; the result lists exactly the six, in arrival order, each with the
// address of its reply completed with the broadcast port
func netC11(s *Sink, tier string) {
	farm, err := NewFarm()
	if err != nil {
		s.Extra["net_stream"] = "skipped: " + err.Error()
		return
	}
	defer farm.Close()
	rounds := 2
	if tier == "thorough" {
		rounds = 20
	}
	for round := 0; round < rounds; round++ {
		farm.DiscoveryNoise = round%2 == 1
		farm.BlankController = true
		u := farmClient(farm, 0, 250*time.Millisecond, nil, nil)
		devs, err := u.GetDevices()
		js := map[string]any{"op": "net-discovery", "noise": farm.DiscoveryNoise}
		if err != nil {
			s.Fail(js, fmt.Sprintf("GetDevices failed although controllers answered: %v", err))
			continue
		}
		got := []string{}
		for _, d := range devs {
			got = append(got, fmt.Sprintf("%d@%v/%v", d.SerialNumber, d.IpAddress, d.Address))
		}
		want := []string{fmt.Sprintf("0@0.0.0.0/0.0.0.0:%d", farm.Port)} // the blank controller answers first
		for k := 0; k < 6; k++ {
			want = append(want, fmt.Sprintf("%d@192.168.1.%d/192.168.1.%d:%d", 405419896+k, k+1, k+1, farm.Port))
		}
		if strings.Join(got, " ") != strings.Join(want, " ") {
			js["got"], js["want"] = got, want
			s.Fail(js, "discovery over real sockets did not return exactly the controllers that answered, in arrival order")
		}
	}
	// 1500 datagrams that are not replies at all, then the six replies: none of them is hidden
	{
		farm.DiscoveryNoise, farm.BlankController, farm.NoiseBurst = false, false, 1500
		u := farmClient(farm, 0, 1200*time.Millisecond, nil, nil)
		devs, err := u.GetDevices()
		farm.NoiseBurst = 0
		if err != nil || len(devs) != 6 {
			s.Fail(map[string]any{"op": "net-discovery-burst", "controllers": len(devs)}, fmt.Sprintf("discovery returned %d of the 6 controllers that answered after a burst of 1500 malformed datagrams (%v)", len(devs), err))
		}
	}
	// three discoveries started together on one FIXED bind port: they take turns on the port, and each of them returns
	// every controller that answered it
	{
		farm.DiscoveryNoise, farm.BlankController = false, false
		port := freeUDPPort()
		u := farmClient(farm, port, 300*time.Millisecond, nil, nil)
		type res struct {
			n   int
			err error
		}
		out := make(chan res, 3)
		for i := 0; i < 3; i++ {
			go func() {
				devs, err := u.GetDevices()
				out <- res{len(devs), err}
			}()
		}
		for i := 0; i < 3; i++ {
			select {
			case x := <-out:
				if x.err != nil || x.n != 6 {
					s.Fail(map[string]any{"op": "net-discovery-queued", "controllers": x.n}, fmt.Sprintf("one of three simultaneous discoveries on a fixed bind port returned %d of the 6 controllers that answer (%v)", x.n, x.err))
				}
			case <-time.After(5 * time.Second):
				s.Fail(map[string]any{"op": "net-discovery-queued"}, "a discovery queued on a fixed bind port did not return within 5 s (timeout 300 ms)")
			}
		}
	}
	s.Extra["net_discovery_rounds"] = rounds
}
