package main

import (
	"encoding/json"
	"fmt"
	"sort"
	"strings"
	"time"

	"github.com/uhppoted/uhppote-core/encoding/bcd"
	"github.com/uhppoted/uhppote-core/types"
)

func init() { commands["C13"] = runC13 }

const hdr13 = "From UV Require Import Base.Bytes Model.WireTypes Model.GoTime Model.Cases13.\nOpen Scope Z_scope."

var c13Zones = []string{"UTC", "Etc/GMT-14", "Etc/GMT+12", "America/Santiago", "Pacific/Apia", "Pacific/Kwajalein", "Australia/Lord_Howe", "Asia/Kathmandu",
	"Asia/Tehran", "Africa/Cairo", "America/Sao_Paulo", "America/Havana", "America/Asuncion", "Asia/Beirut", "Asia/Amman", "Asia/Damascus", "Asia/Gaza",
	"America/Nuuk", "Atlantic/Azores", "Pacific/Easter", "Europe/London", "Europe/Lisbon", "America/New_York", "America/St_Johns", "Asia/Kolkata",
	"Australia/Adelaide", "Pacific/Chatham", "Africa/Casablanca", "Africa/Monrovia", "America/Caracas", "Asia/Pyongyang", "Antarctica/Troll",
	"America/Scoresbysund", "Asia/Tokyo", "Pacific/Kiritimati", "America/Campo_Grande"}

type transition struct{ At, Off int64 }

// offset changes of a zone between 1800 and 2100, by stepping 6 h and bisecting (never ZoneBounds)
func zoneTable(loc *time.Location) (int64, []transition) {
	off := func(u int64) int64 { _, o := time.Unix(u, 0).In(loc).Zone(); return int64(o) }
	start := time.Date(1800, 1, 1, 0, 0, 0, 0, time.UTC).Unix()
	end := time.Date(2100, 1, 1, 0, 0, 0, 0, time.UTC).Unix()
	initial := off(start)
	cur := initial
	var out []transition
	for u := start; u < end; u += 6 * 3600 {
		o := off(u + 6*3600)
		if o == cur {
			continue
		}
		lo, hi := u, u+6*3600
		for hi-lo > 1 {
			mid := (lo + hi) / 2
			if off(mid) == cur {
				lo = mid
			} else {
				hi = mid
			}
		}
		// (a second change inside the same 6 h step would show as off(hi) != o; intervals are >= 95 h on the installed tzdata)
		out = append(out, transition{hi, off(hi)})
		cur = off(hi)
		if cur != o {
			cur = o
			out = append(out, transition{u + 6*3600, o})
		}
	}
	return initial, out
}

func zz(x int64) string {
	if x < 0 {
		return fmt.Sprintf("(%d)", x)
	}
	return fmt.Sprint(x)
}

func tableCoq(initial int64, ts []transition) string {
	parts := make([]string, len(ts))
	for i, t := range ts {
		parts[i] = fmt.Sprintf("(%s, %s)", zz(t.At), zz(t.Off))
	}
	return fmt.Sprintf("(%s, [%s])", zz(initial), strings.Join(parts, "; "))
}

func ymdOf(t time.Time) string { return fmt.Sprintf("(%d, %d, %d)", t.Year(), int(t.Month()), t.Day()) }
func civOf(t time.Time) string {
	return fmt.Sprintf("(%d, %d, %d, %d, %d, %d)", t.Year(), int(t.Month()), t.Day(), t.Hour(), t.Minute(), t.Second())
}

func dateCtor(ctor int, y, m, d int) (types.Date, bool) {
	switch ctor {
	case 0:
		return types.ToDate(y, time.Month(m), d), true
	case 1:
		v, err := types.ParseDate(fmt.Sprintf("%04d-%02d-%02d", y, m, d))
		return v, err == nil
	case 2:
		b, _ := bcd.Encode(fmt.Sprintf("%04d%02d%02d", y, m, d))
		var x types.Date
		p, err := x.UnmarshalUT0311L0x(*b)
		if err != nil || p == nil {
			return types.Date{}, false
		}
		return *(p.(*types.Date)), true
	default:
		var x types.Date
		err := json.Unmarshal([]byte(fmt.Sprintf(`"%04d-%02d-%02d"`, y, m, d)), &x)
		return x, err == nil
	}
}

var nListen int

func runC13(o Opts) error {
	thorough := o.Tier == "thorough"
	zones := c13Zones
	if thorough {
		zones = allZones()
	}
	r := NewRand(o.Seed, "C13")
	// zone tables first: they are part of the case file header
	type zinfo struct {
		name string
		loc  *time.Location
		init int64
		ts   []transition
	}
	var zs []zinfo
	var hdr strings.Builder
	hdr.WriteString(hdr13 + "\n")
	defs := map[string]string{}
	maxOff, minGap := int64(0), int64(1<<62)
	seenTables, aliases := map[string]bool{}, 0
	for _, name := range zones {
		loc, err := time.LoadLocation(name)
		if err != nil {
			continue
		}
		init, ts := zoneTable(loc)
		sig := tableCoq(init, ts)
		if thorough && seenTables[sig] { // a link to / copy of a zone already in the list (the tz database has many)
			aliases++
			continue
		}
		seenTables[sig] = true
		zs = append(zs, zinfo{name, loc, init, ts})
		defs[fmt.Sprintf("zt%d", len(zs)-1)] = fmt.Sprintf("Definition zt%d : ztable := %s.", len(zs)-1, tableCoq(init, ts))
		prev := int64(-1 << 62)
		for _, t := range ts {
			if a := abs64(t.Off); a > maxOff {
				maxOff = a
			}
			if prev > -1<<61 && t.At-prev < minGap {
				minGap = t.At - prev
			}
			prev = t.At
		}
	}
	s := NewSink("C13", o.Out, hdr.String(), "case13", "model_ok13", "spec_ok13")
	s.ShardSize = 400
	s.Defs = defs
	s.Extra["zones"] = len(zs)
	s.Extra["zone_aliases_skipped"] = aliases
	s.Extra["max_abs_offset_s"] = maxOff
	s.Extra["min_interval_between_offset_changes_s"] = minGap
	if o.Replay != "" {
		if err := s.LoadReplay(o.Replay, []string{"op", "tz", "civil", "ctor"}); err != nil {
			return err
		}
	}
	skippedMidnights, wholeDays := 0, 0
	for zi, z := range zs {
		time.Local = z.loc
		zt := fmt.Sprintf("zt%d", zi)
		s.CurDep = zt
		s.Add("CZoneOK "+zt, map[string]any{"op": "zone-table", "tz": z.name, "civil": "", "ctor": -1}, "zone-table-satisfies-window-hypothesis", true)
		nskip := 0
		rot := 0
		allCtors := true
		date := func(y, m, d int, class string) {
			if y < 1 || y > 9999 || (y == 1 && m == 1 && d == 1) {
				return
			}
			rot++
			for ctor := 0; ctor < 4; ctor++ {
				if !allCtors && ctor != rot%4 {
					continue
				}
				v, ok := dateCtor(ctor, y, m, d)
				if !ok {
					continue
				}
				t := time.Time(v)
				enc, _ := v.MarshalUT0311L0x()
				s.Add(fmt.Sprintf("CDateCtor %s %d%%N %d %d %d %s %s%%N", zt, ctor, y, m, d, ymdOf(t), coqBytes(enc)),
					map[string]any{"op": "date", "tz": z.name, "ctor": ctor, "civil": fmt.Sprintf("%04d-%02d-%02d", y, m, d), "reported": t.Format("2006-01-02 15:04:05 -0700"), "enc_hex": hexs(enc)},
					class, true)
			}
		}
		datetime := func(c [6]int, class string) {
			if c[0] < 1 || c[0] > 9999 {
				return
			}
			b, _ := bcd.Encode(fmt.Sprintf("%04d%02d%02d%02d%02d%02d", c[0], c[1], c[2], c[3], c[4], c[5]))
			var x types.DateTime
			p, err := x.UnmarshalUT0311L0x(*b)
			if err != nil || p == nil {
				return
			}
			t := time.Time(*(p.(*types.DateTime)))
			civ := fmt.Sprintf("(%d, %d, %d, %d, %d, %d)", c[0], c[1], c[2], c[3], c[4], c[5])
			s.Add(fmt.Sprintf("CDateTime %s %s %s", zt, civ, civOf(t)),
				map[string]any{"op": "datetime", "tz": z.name, "civil": civ, "reported": t.Format("2006-01-02 15:04:05 -0700")}, class, true)
			// the status recombination (system date yy mm dd + time of day) for two-digit-year dates
			if c[0] >= 1969 && c[0] <= 2068 {
				id := uint32(405419896)
				reply := genReply(r, "GetStatusResponse", id, 0, nil)
				sd, _ := bcd.Encode(fmt.Sprintf("%02d%02d%02d", c[0]%100, c[1], c[2]))
				st, _ := bcd.Encode(fmt.Sprintf("%02d%02d%02d", c[3], c[4], c[5]))
				copy(reply[51:54], *sd)
				copy(reply[37:40], *st)
				cl := newClient(Cfg{})
				cl.f.script = Script{Kind: "datagrams", Datagrams: [][]byte{reply}}
				if st, err := cl.u.GetStatus(id); err == nil && st != nil {
					s.Add(fmt.Sprintf("CSysDT %s %s %s", zt, civ, civOf(time.Time(st.SystemDateTime))),
						map[string]any{"op": "sysdt", "tz": z.name, "civil": civ, "reported": time.Time(st.SystemDateTime).Format("2006-01-02 15:04:05 -0700")}, class+"/status", true)
				}
				// the same bytes as an event (function 0x20) through the listener, which recombines date and time itself
				nListen++
				if nListen%4 == 0 {
					ev := append([]byte{}, reply...)
					ev[1] = 0x20
					if st := listenStatus(ev); st != nil {
						s.Add(fmt.Sprintf("CSysDT %s %s %s", zt, civ, civOf(time.Time(st.SystemDateTime))),
							map[string]any{"op": "sysdt", "tz": z.name, "civil": civ, "reported": time.Time(st.SystemDateTime).Format("2006-01-02 15:04:05 -0700")}, class+"/listen-event", true)
					}
				}
			}
		}
		// every offset change: the local days around it, and civil times on both sides of it
		for ti, tr := range z.ts {
			before := z.init
			if ti > 0 {
				before = z.ts[ti-1].Off
			}
			skips := tr.Off > before && crossesMidnight(tr.At, before, tr.Off)
			if skips {
				nskip++
			}
			if !thorough && ((!skips && len(z.ts) > 6 && ti%(len(z.ts)/6+1) != 0) || (skips && nskip > 6 && nskip%9 != 0)) {
				if skips {
					skippedMidnights++
				}
				continue
			}
			if thorough && !skips && ti%4 != 0 {
				continue
			}
			full := skips || (thorough && ti%8 == 0)
			allCtors = full
			for _, o := range []int64{before, tr.Off} {
				lt := time.Unix(tr.At+o, 0).UTC() // wall clock reading at the change
				for dd := -1; dd <= 1; dd++ {
					x := lt.AddDate(0, 0, dd)
					date(x.Year(), int(x.Month()), x.Day(), "date/around-offset-change")
				}
				dss := []int64{-3600, -1, 0, 1, 1799, 1800, 3599, 3600, 7200}
				if !full {
					dss = []int64{-1, 0, 3599}
				}
				for _, ds := range dss {
					x := time.Unix(tr.At+o+ds, 0).UTC()
					datetime([6]int{x.Year(), int(x.Month()), x.Day(), x.Hour(), x.Minute(), x.Second()}, "datetime/around-offset-change")
				}
			}
			if tr.Off > before && crossesMidnight(tr.At, before, tr.Off) {
				skippedMidnights++
				if tr.Off-before >= 86400 {
					wholeDays++
				}
			}
		}
		allCtors = !thorough // (441 distinct zone tables in the thorough tier: one constructor per date, in rotation)
		// month / year boundaries and random dates and date-times
		for _, y := range []int{1, 2, 1899, 1900, 1969, 1970, 1999, 2000, 2024, 2037, 2038, 2068, 2069, 2100, 9999} {
			date(y, 1, 1, "date/year-boundary")
			date(y, 12, 31, "date/year-boundary")
			date(y, 2, 28, "date/year-boundary")
			date(y, 3, 1, "date/year-boundary")
		}
		n := 12
		if thorough {
			n = 40
		}
		for i := 0; i < n; i++ {
			y, m, d := genYMD(r)
			date(y, m, d, "date/random")
			datetime([6]int{y, m, d, r.Intn(24), r.Intn(60), r.Intn(60)}, "datetime/random")
		}
	}
	// the civil value reported does not depend on how long the controller took to answer (under a zone with offset changes)
	if o.Replay == "" {
		if l, err := time.LoadLocation("Australia/Lord_Howe"); err == nil {
			time.Local = l
			latencyProbe(s, r)
		}
	}
	if o.Replay == "" {
		deviceZoneProbe(s, r)
	}
	time.Local = time.UTC
	s.Extra["midnight_skipping_days_found"] = skippedMidnights
	s.Extra["whole_day_skips_found"] = wholeDays
	keys := make([]string, 0)
	for _, z := range zs {
		keys = append(keys, z.name)
	}
	sort.Strings(keys)
	if len(keys) > 40 {
		keys = keys[:40]
	}
	s.Extra["zone_names_sample"] = keys
	return s.Close()
}

func abs64(x int64) int64 {
	if x < 0 {
		return -x
	}
	return x
}

// does the wall clock, jumping from at+before to at+after, pass over a local midnight?
func crossesMidnight(at, before, after int64) bool {
	a, b := at+before, at+after
	return floorDiv(b-1, 86400) > floorDiv(a-1, 86400) || (a%86400+86400)%86400 == 0
}

func floorDiv(a, b int64) int64 {
	q := a / b
	if (a%b != 0) && ((a < 0) != (b < 0)) {
		q--
	}
	return q
}
