package main

import (
	"encoding/json"
	"fmt"
	"net"
	"net/netip"
	"reflect"
	"sort"
	"strings"
	"time"
	"unsafe"

	"github.com/uhppoted/uhppote-core/types"
	"github.com/uhppoted/uhppote-core/uhppote"
)

// one generated API call: its Coq term, and how to run it on a client
type OpCase struct {
	Name string
	ID   uint32
	Coq  string
	Resp string // reply struct name ("" for SetAddress)
	Code byte   // function code
	Run  func(u uhppote.IUHPPOTE) string
	JS   map[string]any
}

func zc(i int) string {
	if i < 0 {
		return fmt.Sprintf("(%d)%%Z", i)
	}
	return fmt.Sprintf("%d%%Z", i)
}

func date3(y, m, d int) string { return fmt.Sprintf("(%s, %s, %s)", zc(y), zc(m), zc(d)) }
func hm2(h, m int) string      { return fmt.Sprintf("(%s, %s)", zc(h), zc(m)) }

func boolMapCoq(m map[uint8]bool, order []uint8) string {
	out := []string{}
	for _, k := range order {
		if v, ok := m[k]; ok {
			out = append(out, fmt.Sprintf("(%d, %s)", k, coqBool(v)))
		}
	}
	return coqList(out)
}

func errOr(err error, ok string) string {
	if err != nil {
		return "RErr"
	}
	return ok
}

var idPool = []uint32{405419896, 303986753, 1, 255, 256, 65535, 0x01000000, 0xffffffff, 0xfffffffe, 0x80000001, 201020304}

func genID(r *Rand) uint32 {
	if r.Intn(3) == 0 {
		x := r.U32()
		if x == 0 {
			x = 7
		}
		return x
	}
	return idPool[r.Intn(len(idPool))]
}

var u8pool = []uint8{0, 1, 2, 3, 4, 5, 9, 10, 29, 127, 128, 254, 255}

func genU8(r *Rand) uint8 {
	if r.Intn(2) == 0 {
		return u8pool[r.Intn(len(u8pool))]
	}
	return r.Byte()
}

type dateArg struct{ y, m, d int }

// The same calendar date can reach the library carried by time values of different zones (ToDate and ParseDate use
// the process zone, a caller may convert a time.Time of its own): arguments rotate through four carriers.
var (
	dateCarrier  int
	carrierFixed = time.FixedZone("+0545", 5*3600+45*60)
	carrierZone  = func() *time.Location {
		if l, err := time.LoadLocation("Pacific/Kiritimati"); err == nil {
			return l
		}
		return time.FixedZone("+14", 14*3600)
	}()
)

func (a dateArg) date() types.Date {
	dateCarrier++
	k := dateCarrier % 4
	if a.y == 1 && a.m == 1 && a.d == 1 { // 'no date': the zero instant, whatever zone it is expressed in
		switch k {
		case 1:
			return types.Date(time.Time{}.In(time.Local))
		case 2:
			return types.Date(time.Time{}.In(carrierFixed))
		}
		return types.Date{}
	}
	switch k {
	case 1:
		return types.Date(time.Date(a.y, time.Month(a.m), a.d, 12, 0, 0, 0, time.Local))
	case 2:
		return types.Date(time.Date(a.y, time.Month(a.m), a.d, 12, 0, 0, 0, carrierFixed))
	case 3:
		return types.Date(time.Date(a.y, time.Month(a.m), a.d, 0, 0, 0, 0, carrierZone))
	}
	return types.Date(civilDate(a.y, a.m, a.d))
}

func genDateArg(r *Rand, allowZero bool) dateArg {
	if allowZero && r.Intn(8) == 0 {
		return dateArg{1, 1, 1}
	}
	y, m, d := genYMD(r)
	return dateArg{y, m, d}
}

func genWeekdays(r *Rand) (types.Weekdays, string) {
	var w types.Weekdays
	mode := r.Intn(4)
	if mode == 0 {
		return nil, "[]"
	}
	w = types.Weekdays{}
	out := []string{}
	for _, d := range []time.Weekday{time.Monday, time.Tuesday, time.Wednesday, time.Thursday, time.Friday, time.Saturday, time.Sunday} {
		if mode == 1 && r.Intn(2) == 0 {
			continue // partial map
		}
		v := r.Bool()
		w[d] = v
		out = append(out, fmt.Sprintf("(%d, %s)", int(d), coqBool(v)))
	}
	return w, coqList(out)
}

func genHM(r *Rand, edge bool) (int, int) {
	h, m := r.Intn(24), r.Intn(60)
	switch r.Intn(8) {
	case 0:
		h, m = 24, 0
	case 1:
		h, m = 0, 0
	case 2:
		h, m = 23, 59
	}
	if edge && r.Intn(3) == 0 {
		h = []int{24, 25, 99, -1, 100}[r.Intn(5)]
		m = []int{59, 60, 61, 99, -1, 100}[r.Intn(6)]
	}
	return h, m
}

var cardPool = []uint32{0, 1, 0xffffffff, 0x00ffffff, 0x00fffffe, 0x01000000, 8165538, 10058400, 6154412, 25565535, 25565536, 25600000, 25599999, 99999999, 100000000, 100000001, 255065535, 1000000000, 4294967294, 65535, 65536, 165535, 165536}

// set by the card-number sweep: PutCard is generated with this card number
var forceCardNo *uint32

// set by the long-list cases: SetDoorPasscodes is generated with this many passcodes
var forcePasscodes int

// set by the format-list sweep: PutCard is generated with exactly this list of card formats
var forceFormats []types.CardFormat

func genCardNo(r *Rand) uint32 {
	switch r.Intn(6) {
	case 0, 1:
		return r.U32()
	case 2:
		return patternU32(r)
	case 3:
		if v, ok := dictU32(r); ok { // derived from a number the source itself names
			return v
		}
	}
	return cardPool[r.Intn(len(cardPool))]
}

var pinPool = []uint32{0, 1, 7531, 999999, 1000000, 1000001, 0xffffff, 0x1000000, 0xffffffff}

// every operation with generated arguments; valid=false additionally draws from the rejected side of each guard
func genOp(r *Rand, which int, id uint32, edge bool) OpCase {
	simple := func(name string, code byte, coq string, resp string, run func(u uhppote.IUHPPOTE) string) OpCase {
		return OpCase{Name: name, ID: id, Coq: coq, Resp: resp, Code: code, Run: run, JS: map[string]any{"op": name, "id": id, "coq": coq}}
	}
	okBool := func(b bool, err error) string { return errOr(err, rvals(vb(b))) }
	switch which {
	case 0:
		return simple("GetDevice", 0x94, fmt.Sprintf("GetDevice %d", id), "GetDeviceResponse", func(u uhppote.IUHPPOTE) string {
			d, err := u.GetDevice(id)
			render(d, err)
			if err != nil {
				return "RErr"
			}
			return rvals(deviceVals(*d)...)
		})
	case 1:
		ips := make([]net.IP, 3)
		coqs := make([]string, 3)
		for i := range ips {
			ips[i] = net.IPv4(r.Byte(), r.Byte(), r.Byte(), r.Byte())
			if r.Bool() {
				ips[i] = ips[i].To4()
			}
			if edge && r.Intn(4) == 0 {
				ips[i] = [](net.IP){nil, net.IP{}, net.IP(r.Bytes(16)), net.IP(r.Bytes(3)), net.ParseIP("::ffff:10.1.2.3")}[r.Intn(5)]
			}
			coqs[i] = coqBytes(ips[i])
		}
		return simple("SetAddress", 0x96, fmt.Sprintf("SetAddress %d %s %s %s", id, coqs[0], coqs[1], coqs[2]), "", func(u uhppote.IUHPPOTE) string {
			before := fmt.Sprintf("%v", ips)
			res, err := u.SetAddress(id, ips[0], ips[1], ips[2])
			render(res, err)
			if after := fmt.Sprintf("%v", ips); after != before {
				return "RPanic"
			}
			if err != nil {
				return "RErr"
			}
			return rvals(vn(uint64(res.SerialNumber)), vb(res.Succeeded))
		})
	case 2:
		return simple("GetListener", 0x92, fmt.Sprintf("GetListener %d", id), "GetListenerResponse", func(u uhppote.IUHPPOTE) string {
			ap, itv, err := u.GetListener(id)
			if err != nil {
				return "RErr"
			}
			return rvals(vap(ap), vn(uint64(itv)))
		})
	case 3:
		ap := netip.AddrPortFrom(netip.AddrFrom4([4]byte{r.Byte(), r.Byte(), r.Byte(), r.Byte()}), []uint16{60001, 1, 65535, 60000, 0}[r.Intn(5)])
		if r.Intn(5) == 0 {
			ap = netip.MustParseAddrPort("0.0.0.0:0")
		}
		if edge {
			switch r.Intn(6) {
			case 0:
				ap = netip.AddrPort{}
			case 1:
				ap = netip.MustParseAddrPort("[::1]:60001")
			case 2:
				ap = netip.MustParseAddrPort("[::ffff:192.168.1.100]:60001")
			case 3:
				ap = netip.MustParseAddrPort("0.0.0.0:60001")
			case 4:
				ap = netip.MustParseAddrPort("192.168.1.100:0")
			case 5:
				ap = netip.MustParseAddrPort("[fe80::1%eth0]:60001")
			}
		}
		itv := genU8(r)
		apc := "None"
		if ap.IsValid() {
			apc = fmt.Sprintf("(Some (%s, %d))", coqBytes(ap.Addr().AsSlice()), ap.Port())
		}
		return simple("SetListener", 0x90, fmt.Sprintf("SetListener %d %s %d", id, apc, itv), "SetListenerResponse", func(u uhppote.IUHPPOTE) string {
			return okBool(u.SetListener(id, ap, itv))
		})
	case 4:
		return simple("GetTime", 0x32, fmt.Sprintf("GetTime %d", id), "GetTimeResponse", func(u uhppote.IUHPPOTE) string {
			t, err := u.GetTime(id)
			render(t, err)
			if err != nil {
				return "RErr"
			}
			return rvals(vn(uint64(t.SerialNumber)), vdatetimeT(t.DateTime))
		})
	case 5:
		y, m, d := genYMD(r)
		locs := []*time.Location{time.UTC, time.FixedZone("X", 5*3600+1800), time.FixedZone("Y", -9*3600)}
		if l, err := time.LoadLocation("Australia/Lord_Howe"); err == nil {
			locs = append(locs, l)
		}
		t := time.Date(y, time.Month(m), d, r.Intn(24), r.Intn(60), r.Intn(60), r.Intn(1000)*1000000, locs[r.Intn(len(locs))])
		coq := fmt.Sprintf("SetTime %d %s %s %s %s %s %s", id, zc(t.Year()), zc(int(t.Month())), zc(t.Day()), zc(t.Hour()), zc(t.Minute()), zc(t.Second()))
		return simple("SetTime", 0x30, coq, "SetTimeResponse", func(u uhppote.IUHPPOTE) string {
			res, err := u.SetTime(id, t)
			render(res, err)
			if err != nil {
				return "RErr"
			}
			return rvals(vn(uint64(res.SerialNumber)), vdatetimeT(res.DateTime))
		})
	case 6:
		door := genU8(r)
		return simple("GetDoorControlState", 0x82, fmt.Sprintf("GetDoorControlState %d %d", id, door), "GetDoorControlStateResponse", func(u uhppote.IUHPPOTE) string {
			s, err := u.GetDoorControlState(id, door)
			render(s, err)
			if err != nil {
				return "RErr"
			}
			return rvals(vn(uint64(s.SerialNumber)), vn(uint64(s.Door)), vn(uint64(uint8(s.ControlState))), vn(uint64(s.Delay)))
		})
	case 7:
		door, delay := genU8(r), genU8(r)
		st := 1 + r.Intn(3)
		if edge {
			st = []int{0, 4, 255, 256, -1, 1000}[r.Intn(6)]
		}
		return simple("SetDoorControlState", 0x80, fmt.Sprintf("SetDoorControlState %d %d %s %d", id, door, zc(st), delay), "SetDoorControlStateResponse", func(u uhppote.IUHPPOTE) string {
			s, err := u.SetDoorControlState(id, door, types.ControlState(st), delay)
			render(s, err)
			if err != nil {
				return "RErr"
			}
			return rvals(vn(uint64(s.SerialNumber)), vn(uint64(s.Door)), vn(uint64(uint8(s.ControlState))), vn(uint64(s.Delay)))
		})
	case 8:
		return simple("GetStatus", 0x20, fmt.Sprintf("GetStatus %d", id), "GetStatusResponse", func(u uhppote.IUHPPOTE) string {
			s, err := u.GetStatus(id)
			render(s, err)
			if err != nil {
				return "RErr"
			}
			return rvals(statusVals(*s)...)
		})
	case 9:
		return simple("GetCards", 0x58, fmt.Sprintf("GetCards %d", id), "GetCardsResponse", func(u uhppote.IUHPPOTE) string {
			n, err := u.GetCards(id)
			return errOr(err, rvals(vn(uint64(n))))
		})
	case 10:
		c := genCardNo(r)
		return simple("GetCardByID", 0x5a, fmt.Sprintf("GetCardByID %d %d", id, c), "GetCardByIDResponse", func(u uhppote.IUHPPOTE) string {
			card, err := u.GetCardByID(id, c)
			render(card, err)
			if err != nil {
				return "RErr"
			}
			if card == nil {
				return "RNone"
			}
			return rvals(cardVals(*card)...)
		})
	case 11:
		ix := genU32(r)
		return simple("GetCardByIndex", 0x5c, fmt.Sprintf("GetCardByIndex %d %d", id, ix), "GetCardByIndexResponse", func(u uhppote.IUHPPOTE) string {
			card, err := u.GetCardByIndex(id, ix)
			render(card, err)
			if err != nil {
				return "RErr"
			}
			if card == nil {
				return "RNone"
			}
			return rvals(cardVals(*card)...)
		})
	case 12:
		no := genCardNo(r)
		if forceCardNo != nil {
			no = *forceCardNo
		} else if !edge {
			for no == 0 || no == 0xffffffff || no == 0x00ffffff {
				no = 1 + r.U32()%100000000
			}
		}
		from, to := genDateArg(r, true), genDateArg(r, true)
		pin := uint32(r.Intn(1000000))
		if r.Intn(3) == 0 {
			pin = pinPool[r.Intn(len(pinPool))]
		}
		if !edge && pin > 999999 {
			pin = 999999
		}
		var doors map[uint8]uint8
		doorsCoq := []string{}
		if r.Intn(5) != 0 {
			doors = map[uint8]uint8{}
			for _, k := range []uint8{1, 2, 3, 4, 5, 0} {
				if r.Intn(4) != 0 || k <= 2 {
					v := uint8(10*int(k) + r.Intn(3) + (r.Intn(2) * 100))
					if r.Intn(4) == 0 { // the permission values code tends to single out
						v = []uint8{0, 1, 2, 254, 255, 29}[r.Intn(6)]
					}
					doors[k] = v
					doorsCoq = append(doorsCoq, fmt.Sprintf("(%d, %d)", k, v))
				}
			}
		}
		formats := []types.CardFormat{}
		fcoq := []string{}
		nf := r.Intn(3)
		if edge {
			nf = r.Intn(4)
		}
		if forceFormats != nil {
			nf = 0
			for _, f := range forceFormats {
				formats = append(formats, f)
				fcoq = append(fcoq, fmt.Sprintf("%d", f))
			}
		}
		for i := 0; i < nf; i++ {
			f := types.CardFormat(r.Intn(2))
			if edge && r.Intn(6) == 0 {
				f = types.CardFormat(2 + r.Intn(3))
			}
			if !edge {
				f = types.WiegandAny
				if r.Intn(2) == 0 {
					f = types.Wiegand26
				}
			}
			formats = append(formats, f)
			fcoq = append(fcoq, fmt.Sprintf("%d", f))
		}
		card := types.Card{CardNumber: no, From: from.date(), To: to.date(), Doors: doors, PIN: types.PIN(pin)}
		coq := fmt.Sprintf("PutCard %d {| c_number := %d; c_from := %s; c_to := %s; c_doors := %s; c_pin := %d |} %s", id, no, date3(from.y, from.m, from.d), date3(to.y, to.m, to.d), coqList(doorsCoq), pin, coqList(fcoq))
		return simple("PutCard", 0x50, coq, "PutCardResponse", func(u uhppote.IUHPPOTE) string {
			before := deepSnap(card) + deepSnap(formats)
			res := okBool(u.PutCard(id, card, formats...))
			if after := deepSnap(card) + deepSnap(formats); after != before {
				return "RPanic" // argument modified (C17): never produced by the model
			}
			return res
		})
	case 13:
		c := genCardNo(r)
		return simple("DeleteCard", 0x52, fmt.Sprintf("DeleteCard %d %d", id, c), "DeleteCardResponse", func(u uhppote.IUHPPOTE) string { return okBool(u.DeleteCard(id, c)) })
	case 14:
		return simple("DeleteCards", 0x54, fmt.Sprintf("DeleteCards %d", id), "DeleteCardsResponse", func(u uhppote.IUHPPOTE) string { return okBool(u.DeleteCards(id)) })
	case 15:
		p := genU8(r)
		return simple("GetTimeProfile", 0x98, fmt.Sprintf("GetTimeProfile %d %d", id, p), "GetTimeProfileResponse", func(u uhppote.IUHPPOTE) string {
			tp, err := u.GetTimeProfile(id, p)
			render(tp, err)
			if err != nil {
				return "RErr"
			}
			if tp == nil {
				return "RNone"
			}
			w := tp.Weekdays
			s := tp.Segments
			return rvals(vn(uint64(tp.ID)), vn(uint64(tp.LinkedProfileID)), vdateT(tp.From), vdateT(tp.To),
				vb(w[time.Monday]), vb(w[time.Tuesday]), vb(w[time.Wednesday]), vb(w[time.Thursday]), vb(w[time.Friday]), vb(w[time.Saturday]), vb(w[time.Sunday]),
				vhm(s[1].Start), vhm(s[1].End), vhm(s[2].Start), vhm(s[2].End), vhm(s[3].Start), vhm(s[3].End))
		})
	case 16:
		from, to := genDateArg(r, edge), genDateArg(r, edge)
		w, wc := genWeekdays(r)
		var segs types.Segments
		sc := []string{}
		if !(edge && r.Intn(6) == 0) {
			segs = types.Segments{}
			for _, k := range []uint8{1, 2, 3, 4} {
				if k == 4 && r.Intn(3) != 0 {
					continue
				}
				if edge && k < 4 && r.Intn(8) == 0 {
					continue // missing segment
				}
				h1, m1 := genHM(r, edge)
				h2, m2 := genHM(r, edge)
				if !edge && (h2 < h1 || (h2 == h1 && m2 < m1)) {
					h1, m1, h2, m2 = h2, m2, h1, m1
				}
				if r.Intn(5) == 0 {
					h2, m2 = h1, m1
				}
				segs[k] = types.Segment{Start: types.NewHHmm(h1, m1), End: types.NewHHmm(h2, m2)}
				sc = append(sc, fmt.Sprintf("(%d, {| s_start := %s; s_end := %s |})", k, hm2(h1, m1), hm2(h2, m2)))
			}
		}
		pid, linked := genU8(r), genU8(r)
		prof := types.TimeProfile{ID: pid, LinkedProfileID: linked, From: from.date(), To: to.date(), Weekdays: w, Segments: segs}
		coq := fmt.Sprintf("SetTimeProfile %d {| p_id := %d; p_linked := %d; p_from := %s; p_to := %s; p_weekdays := %s; p_segments := %s |}", id, pid, linked, date3(from.y, from.m, from.d), date3(to.y, to.m, to.d), wc, coqList(sc))
		return simple("SetTimeProfile", 0x88, coq, "SetTimeProfileResponse", func(u uhppote.IUHPPOTE) string {
			before := deepSnap(prof)
			res := okBool(u.SetTimeProfile(id, prof))
			if after := deepSnap(prof); after != before {
				return "RPanic"
			}
			return res
		})
	case 17:
		return simple("ClearTimeProfiles", 0x8a, fmt.Sprintf("ClearTimeProfiles %d", id), "ClearTimeProfilesResponse", func(u uhppote.IUHPPOTE) string { return okBool(u.ClearTimeProfiles(id)) })
	case 18:
		return simple("ClearTaskList", 0xa6, fmt.Sprintf("ClearTaskList %d", id), "ClearTaskListResponse", func(u uhppote.IUHPPOTE) string { return okBool(u.ClearTaskList(id)) })
	case 19:
		from, to := genDateArg(r, true), genDateArg(r, true)
		if r.Intn(3) == 0 { // a task for a single day
			to = from
		}
		w, wc := genWeekdays(r)
		h, m := genHM(r, edge)
		tt := r.Intn(13)
		if edge {
			tt = []int{13, 255, 256, -1, 12}[r.Intn(5)]
		}
		door, cards := genU8(r), genU8(r)
		task := types.Task{Task: types.TaskType(tt), Door: door, From: from.date(), To: to.date(), Weekdays: w, Start: types.NewHHmm(h, m), Cards: cards}
		coq := fmt.Sprintf("AddTask %d {| t_task := %s; t_door := %d; t_from := %s; t_to := %s; t_weekdays := %s; t_start := %s; t_cards := %d |}", id, zc(tt), door, date3(from.y, from.m, from.d), date3(to.y, to.m, to.d), wc, hm2(h, m), cards)
		return simple("AddTask", 0xa8, coq, "AddTaskResponse", func(u uhppote.IUHPPOTE) string {
			before := deepSnap(task)
			res := okBool(u.AddTask(id, task))
			if after := deepSnap(task); after != before {
				return "RPanic" // argument modified (C17)
			}
			return res
		})
	case 20:
		return simple("RefreshTaskList", 0xac, fmt.Sprintf("RefreshTaskList %d", id), "RefreshTaskListResponse", func(u uhppote.IUHPPOTE) string { return okBool(u.RefreshTaskList(id)) })
	case 21:
		b := r.Bool()
		return simple("RecordSpecialEvents", 0x8e, fmt.Sprintf("RecordSpecialEvents %d %s", id, coqBool(b)), "RecordSpecialEventsResponse", func(u uhppote.IUHPPOTE) string { return okBool(u.RecordSpecialEvents(id, b)) })
	case 22:
		ix := genU32(r)
		return simple("GetEvent", 0xb0, fmt.Sprintf("GetEvent %d %d", id, ix), "GetEventResponse", func(u uhppote.IUHPPOTE) string {
			e, err := u.GetEvent(id, ix)
			render(e, err)
			if err != nil {
				return "RErr"
			}
			if e == nil {
				return "RNone"
			}
			return rvals(vn(uint64(e.SerialNumber)), vn(uint64(e.Index)), vn(uint64(e.Type)), vb(e.Granted), vn(uint64(e.Door)), vn(uint64(e.Direction)), vn(uint64(e.CardNumber)), vdatetimeT(e.Timestamp), vn(uint64(e.Reason)))
		})
	case 23:
		return simple("GetEventIndex", 0xb4, fmt.Sprintf("GetEventIndex %d", id), "GetEventIndexResponse", func(u uhppote.IUHPPOTE) string {
			e, err := u.GetEventIndex(id)
			render(e, err)
			if err != nil {
				return "RErr"
			}
			return rvals(vn(uint64(e.SerialNumber)), vn(uint64(e.Index)))
		})
	case 24:
		ix := genU32(r)
		return simple("SetEventIndex", 0xb2, fmt.Sprintf("SetEventIndex %d %d", id, ix), "SetEventIndexResponse", func(u uhppote.IUHPPOTE) string {
			e, err := u.SetEventIndex(id, ix)
			render(e, err)
			if err != nil {
				return "RErr"
			}
			return rvals(vn(uint64(e.SerialNumber)), vn(uint64(e.Index)), vb(e.Changed))
		})
	case 25:
		door := uint8(1 + r.Intn(4))
		if edge {
			door = []uint8{0, 5, 255, 4, 1}[r.Intn(5)]
		}
		n := r.Intn(6)
		if forcePasscodes > 0 {
			n = forcePasscodes
		} else if r.Intn(12) == 0 { // very long lists: everything beyond the fourth passcode is ignored, however far beyond
			n = []int{255, 256, 257, 260, 300, 515}[r.Intn(6)]
		}
		codes := []uint32{}
		cc := []string{}
		for i := 0; i < n; i++ {
			c := pinPool[r.Intn(len(pinPool))]
			if r.Bool() {
				c = uint32(r.Intn(1000000))
			}
			codes = append(codes, c)
			cc = append(cc, fmt.Sprintf("%d", c))
		}
		// the passcodes are a window of a larger table of the caller (spare capacity behind the slice): the table is intact afterwards
		table := append(append([]uint32{}, codes...), 111111, 222222, 333333, 444444, 555555)
		window := table[:len(codes)]
		return simple("SetDoorPasscodes", 0x8c, fmt.Sprintf("SetDoorPasscodes %d %d %s", id, door, coqList(cc)), "SetDoorPasscodesResponse", func(u uhppote.IUHPPOTE) string {
			before := deepSnap(table)
			res := okBool(u.SetDoorPasscodes(id, door, window...))
			if deepSnap(table) != before {
				return "RPanic" // the caller's data was modified (C07 / C17)
			}
			return res
		})
	case 26:
		door := genU8(r)
		return simple("OpenDoor", 0x40, fmt.Sprintf("OpenDoor %d %d", id, door), "OpenDoorResponse", func(u uhppote.IUHPPOTE) string {
			res, err := u.OpenDoor(id, door)
			render(res, err)
			if err != nil {
				return "RErr"
			}
			return rvals(vn(uint64(res.SerialNumber)), vb(res.Succeeded))
		})
	case 27:
		b := r.Bool()
		return simple("SetPCControl", 0xa0, fmt.Sprintf("SetPCControl %d %s", id, coqBool(b)), "SetPCControlResponse", func(u uhppote.IUHPPOTE) string { return okBool(u.SetPCControl(id, b)) })
	case 28:
		m := []uint8{0, 1, 2, 3, 4, 8}[r.Intn(6)]
		if edge {
			m = genU8(r)
		}
		return simple("SetInterlock", 0xa2, fmt.Sprintf("SetInterlock %d %d", id, m), "SetInterlockResponse", func(u uhppote.IUHPPOTE) string { return okBool(u.SetInterlock(id, types.Interlock(m))) })
	case 29:
		var readers map[uint8]bool
		if r.Intn(5) != 0 {
			readers = map[uint8]bool{}
			for _, k := range []uint8{1, 2, 3, 4, 0, 5} {
				if r.Intn(3) != 0 {
					readers[k] = r.Bool()
				}
			}
		}
		return simple("ActivateKeypads", 0xa4, fmt.Sprintf("ActivateKeypads %d %s", id, boolMapCoq(readers, []uint8{1, 2, 3, 4, 0, 5})), "ActivateAccessKeypadsResponse", func(u uhppote.IUHPPOTE) string {
			before := deepSnap(readers)
			res := okBool(u.ActivateKeypads(id, readers))
			if after := deepSnap(readers); after != before {
				return "RPanic"
			}
			return res
		})
	default:
		return simple("RestoreDefaultParameters", 0xc8, fmt.Sprintf("RestoreDefaultParameters %d", id), "RestoreDefaultParametersResponse", func(u uhppote.IUHPPOTE) string { return okBool(u.RestoreDefaultParameters(id)) })
	}
}

const nOps = 31

// C04: every value the API returns is rendered with %v and with encoding/json (a panic there is recovered by safeCall)
var renderOn = false
var lastValue any

var noLastValue bool

func render(v any, err error) {
	if noLastValue {
		return
	}
	lastValue = v
	if !renderOn || err != nil {
		return
	}
	rv := reflect.ValueOf(v)
	if rv.Kind() == reflect.Ptr && rv.IsNil() {
		return
	}
	_ = fmt.Sprintf("%v", v)
	_, _ = json.Marshal(v)
	if rv.Kind() == reflect.Ptr {
		_ = fmt.Sprintf("%v", rv.Elem().Interface())
	}
}

func getDevicesCase() OpCase {
	return OpCase{Name: "GetDevices", ID: 0, Coq: "GetDevices", Resp: "GetDeviceResponse", Code: 0x94, JS: map[string]any{"op": "GetDevices"},
		Run: func(u uhppote.IUHPPOTE) string {
			ds, err := u.GetDevices()
			render(ds, err)
			if err != nil {
				return "RErr"
			}
			out := []string{}
			for _, d := range ds {
				out = append(out, "["+strings.Join(deviceVals(d), "; ")+"]")
			}
			return "(RList " + coqList(out) + ")"
		}}
}

// deepSnap renders a value structurally (no String methods): struct fields, map entries in key order with nil-ness and
// length, slices with nil-ness, time.Time by its instant - for before/after comparisons of arguments (C17)
func deepSnap(x any) string {
	var b strings.Builder
	var walk func(v reflect.Value)
	walk = func(v reflect.Value) {
		if v.IsValid() && v.Type() == reflect.TypeOf(time.Time{}) {
			t := v.Interface().(time.Time)
			fmt.Fprintf(&b, "T%d.%d@%s", t.Unix(), t.Nanosecond(), t.Location())
			return
		}
		switch v.Kind() {
		case reflect.Struct:
			if v.Type().ConvertibleTo(reflect.TypeOf(time.Time{})) {
				walk(v.Convert(reflect.TypeOf(time.Time{})))
				return
			}
			b.WriteString("{")
			for i := 0; i < v.NumField(); i++ {
				f := v.Field(i)
				if !f.CanInterface() { // unexported: read through an addressable copy
					c := reflect.New(v.Type()).Elem()
					c.Set(v)
					f = reflect.NewAt(f.Type(), unsafe.Pointer(c.Field(i).UnsafeAddr())).Elem()
				}
				walk(f)
				b.WriteString(";")
			}
			b.WriteString("}")
		case reflect.Map:
			fmt.Fprintf(&b, "map(nil=%v,len=%d)[", v.IsNil(), v.Len())
			keys := v.MapKeys()
			sort.Slice(keys, func(i, j int) bool { return fmt.Sprint(keys[i].Interface()) < fmt.Sprint(keys[j].Interface()) })
			for _, k := range keys {
				fmt.Fprintf(&b, "%v:", k.Interface())
				walk(v.MapIndex(k))
				b.WriteString(",")
			}
			b.WriteString("]")
		case reflect.Slice:
			fmt.Fprintf(&b, "slice(nil=%v)[", v.IsNil())
			for i := 0; i < v.Len(); i++ {
				walk(v.Index(i))
				b.WriteString(",")
			}
			b.WriteString("]")
		case reflect.Array:
			b.WriteString("[")
			for i := 0; i < v.Len(); i++ {
				walk(v.Index(i))
				b.WriteString(",")
			}
			b.WriteString("]")
		case reflect.Pointer, reflect.Interface:
			if v.IsNil() {
				b.WriteString("nil")
			} else {
				b.WriteString("&")
				walk(v.Elem())
			}
		case reflect.Bool:
			fmt.Fprintf(&b, "%v", v.Bool())
		case reflect.Int, reflect.Int8, reflect.Int16, reflect.Int32, reflect.Int64:
			fmt.Fprintf(&b, "%d", v.Int())
		case reflect.Uint, reflect.Uint8, reflect.Uint16, reflect.Uint32, reflect.Uint64:
			fmt.Fprintf(&b, "%d", v.Uint())
		case reflect.String:
			fmt.Fprintf(&b, "%q", v.String())
		default:
			fmt.Fprintf(&b, "?%v", v.Kind())
		}
	}
	walk(reflect.ValueOf(x))
	return b.String()
}
