package main

import (
	"bytes"
	"fmt"
	"github.com/uhppoted/uhppote-core/types"
	"net"
	"net/netip"
	"os"
	"os/exec"
	"regexp"
	"sort"
	"strings"
	"sync"
	"syscall"
	"time"

	"github.com/uhppoted/uhppote-core/uhppote"
)

// C08: concurrent calls against the loopback farm (reply content = function of the request), bind port 0 and fixed;
// the same scenarios plus discovery and listener start/stop cycles under the race detector (child process).

func init() {
	commands["C08"] = runC08
	commands["NETRACE"] = runNetRace
}

const hdr08 = "From UV Require Import Base.Bytes Model.Driver Model.Cases08.\nOpen Scope Z_scope."

const netT = 300 * time.Millisecond

type callSpec struct {
	ID      uint32
	Index   uint32
	Path    int
	Delay   time.Duration
	NoReply bool
}

type callObs struct {
	Spec   callSpec
	Start  time.Duration // since scenario start
	Dur    time.Duration
	Result string // "own" | "crossed:<n>" | "error"
}

func runCalls(u uhppote.IUHPPOTE, specs []callSpec, stagger time.Duration) []callObs {
	obs := make([]callObs, len(specs))
	var wg sync.WaitGroup
	t0 := time.Now()
	for i, sp := range specs {
		wg.Add(1)
		go func(i int, sp callSpec) {
			defer wg.Done()
			time.Sleep(time.Duration(i) * stagger)
			st := time.Now()
			e, err := u.GetEvent(sp.ID, sp.Index)
			o := callObs{Spec: sp, Start: st.Sub(t0), Dur: time.Since(st)}
			switch {
			case err != nil || e == nil:
				o.Result = "error"
			case e.Index == sp.Index && uint32(e.SerialNumber) == sp.ID:
				o.Result = "own"
			default:
				o.Result = fmt.Sprintf("crossed:%d", e.Index)
			}
			obs[i] = o
		}(i, sp)
	}
	wg.Wait()
	return obs
}

var nextIndex uint32 = 1000

func genScenario(r *Rand, f *Farm, n int, fixed bool) ([]callSpec, []uint32, []uint32) {
	delays := []time.Duration{0, 75 * time.Millisecond, 150 * time.Millisecond, 185 * time.Millisecond}
	udpIDs, tcpIDs := []uint32{}, []uint32{}
	base := uint32(900000000 + r.Intn(1000)*10)
	ids := []uint32{base + 1, base + 2, base + 3}
	udpIDs = append(udpIDs, ids[1])
	if !fixed {
		tcpIDs = append(tcpIDs, ids[2])
	}
	specs := []callSpec{}
	for i := 0; i < n; i++ {
		nextIndex++
		sp := callSpec{Index: nextIndex, Delay: delays[r.Intn(len(delays))]}
		switch r.Intn(3) {
		case 0:
			sp.ID, sp.Path = ids[0], pathBroadcast
		case 1:
			sp.ID, sp.Path = ids[1], pathUDP
		case 2:
			if fixed {
				sp.ID, sp.Path = ids[0], pathBroadcast
			} else {
				sp.ID, sp.Path = ids[2], pathTCP
			}
		}
		f.Plan(sp.Index, Behaviour{Delay: sp.Delay})
		specs = append(specs, sp)
	}
	return specs, udpIDs, tcpIDs
}

func resCoq(o callObs) string {
	if o.Result == "own" {
		return fmt.Sprintf("Reply %d%%nat", o.Spec.Index)
	}
	if strings.HasPrefix(o.Result, "crossed:") {
		return "Reply " + strings.TrimPrefix(o.Result, "crossed:") + "%nat"
	}
	return "Timeout"
}

func callCoq(o callObs) string {
	d := "None"
	if !o.Spec.NoReply {
		d = fmt.Sprintf("(Some %d)", ms(o.Spec.Delay))
	}
	return fmt.Sprintf("{| arrive := %d; delay := %s; tag := %d%%nat; key := %d%%nat |}", ms(o.Start), d, o.Spec.Index, o.Spec.ID%1000000)
}

func runC08(o Opts) error {
	s := NewSink("C08", o.Out, hdr08, "case08", "model_ok08", "spec_ok08")
	s.ShardSize = 200
	if o.Replay != "" {
		if err := s.LoadReplay(o.Replay, []string{"scenario"}); err != nil {
			return err
		}
	}
	r := NewRand(o.Seed, "C08")
	farm, err := NewFarm()
	if err != nil {
		return err
	}
	defer farm.Close()
	scenarios := 10
	if o.Tier == "thorough" {
		scenarios = 120
	}
	fixedPort := freeUDPPort()
	totalCalls := 0
	for k := 0; k < scenarios; k++ {
		fixed := k%2 == 0
		n := []int{2, 3, 4, 6, 8}[r.Intn(5)]
		if o.Tier == "thorough" && r.Intn(4) == 0 {
			n = 8 + r.Intn(17)
		}
		specs, udpIDs, tcpIDs := genScenario(r, farm, n, fixed)
		bp := 0
		if fixed {
			bp = fixedPort
		}
		var obs []callObs
		var log []FarmEvent
		attempts := []string{}
		bad := 0
		for attempt := 0; attempt < 3; attempt++ {
			farm.ResetLog()
			u := farmClient(farm, bp, netT, udpIDs, tcpIDs)
			obs = runCalls(u, specs, 3*time.Millisecond)
			log = farm.Log()
			ok := true
			for _, ob := range obs {
				if ob.Result != "own" {
					ok = false
				}
			}
			attempts = append(attempts, fmt.Sprintf("%v", resultsOf(obs)))
			if ok {
				break
			}
			bad++
			if bad >= 2 {
				break
			}
			time.Sleep(50 * time.Millisecond)
		}
		if bad == 1 && len(attempts) > 1 {
			// one failing attempt that did not reproduce: timing noise on the loopback farm, recorded but not judged
			s.Extra[fmt.Sprintf("unreproduced_scenario_%d", k)] = attempts
		}
		totalCalls += len(obs)
		desc := fmt.Sprintf("k=%d fixed=%v n=%d", k, fixed, n)
		js := map[string]any{"op": "concurrent", "scenario": desc, "attempts": attempts, "fixed_port": fixed}
		// acquisition order of the fixed-port calls = order in which the farm saw the requests
		byIndex := map[uint32]callObs{}
		for _, ob := range obs {
			byIndex[ob.Spec.Index] = ob
		}
		if fixed {
			ordered := []callObs{}
			seen := map[uint32]bool{}
			for _, e := range log {
				if ob, ok := byIndex[e.Index]; ok && !seen[e.Index] {
					seen[e.Index] = true
					ordered = append(ordered, ob)
				}
			}
			for _, ob := range obs { // calls whose request never reached the farm
				if !seen[ob.Spec.Index] {
					ordered = append(ordered, ob)
				}
			}
			cs, rs := []string{}, []string{}
			for _, ob := range ordered {
				cs = append(cs, callCoq(ob))
				rs = append(rs, resCoq(ob))
			}
			s.Add(fmt.Sprintf("CServe %d %s %s", ms(netT), coqList(cs), coqList(rs)), js, "concurrent/fixed-bind-port", true)
		} else {
			for _, ob := range obs {
				s.Add(fmt.Sprintf("CServe %d %s %s", ms(netT), coqList([]string{callCoq(ob)}), coqList([]string{resCoq(ob)})),
					map[string]any{"op": "concurrent", "scenario": desc, "index": ob.Spec.Index, "result": ob.Result, "dur_ms": ms(ob.Dur)}, "concurrent/bind-port-0", true)
			}
		}
	}
	// two clients of the process sharing one fixed bind PORT under different bind addresses (0.0.0.0 and 127.0.0.1), calls
	// overlapping in time, replies arriving in both orders: each call still gets the reply to its own request
	if s.ReplayWants("two-clients") {
		p := freeUDPPort()
		ctl := uint32(900500001)
		uA := farmClientBind(farm, netip.AddrPortFrom(netip.IPv4Unspecified(), uint16(p)), netT, []uint32{ctl}, nil)
		uB := farmClientBind(farm, netip.AddrPortFrom(netip.AddrFrom4([4]byte{127, 0, 0, 1}), uint16(p)), netT, []uint32{ctl}, nil)
		for round := 0; round < 2; round++ {
			for attempt := 0; attempt < 2; attempt++ {
				nextIndex += 2
				ia, ib := nextIndex-1, nextIndex
				da, db := 120*time.Millisecond, 30*time.Millisecond
				if round == 1 {
					da, db = db, da
				}
				farm.Plan(ia, Behaviour{Delay: da})
				farm.Plan(ib, Behaviour{Delay: db})
				var wg sync.WaitGroup
				var ra, rb string
				one := func(u uhppote.IUHPPOTE, idx uint32, out *string) {
					defer wg.Done()
					e, err := u.GetEvent(ctl, idx)
					switch {
					case err != nil || e == nil:
						*out = "error"
					case e.Index == idx:
						*out = "own"
					default:
						*out = fmt.Sprintf("crossed:%d", e.Index)
					}
				}
				wg.Add(2)
				go one(uA, ia, &ra)
				time.Sleep(10 * time.Millisecond)
				go one(uB, ib, &rb)
				wg.Wait()
				totalCalls += 2
				if ra == "own" && rb == "own" {
					break
				}
				if attempt == 1 {
					s.Fail(map[string]any{"op": "two-clients", "scenario": "same fixed bind port, bind addresses 0.0.0.0 and 127.0.0.1", "results": []string{ra, rb}},
						fmt.Sprintf("two clients sharing a fixed bind port under different bind addresses: results %s / %s (each controller answered its own request within the timeout)", ra, rb))
				}
				time.Sleep(netT)
			}
		}
		s.Extra["two_clients_one_port"] = "ran"
	}
	failedDiscoveryProbe(s, farm, netT)
	s.Extra["calls"] = totalCalls
	s.Extra["timeout_ms"] = ms(netT)

	// the same kind of load under the race detector
	if _, err := os.Stat("build/harness_race"); err == nil {
		cmd := exec.Command("build/harness_race", "NETRACE", "-tier", o.Tier, "-seed", fmt.Sprint(o.Seed))
		cmd.Env = append(os.Environ(), "GORACE=halt_on_error=0 history_size=3")
		var stderr bytes.Buffer
		cmd.Stderr = &stderr
		cmd.Stdout = &stderr
		done := make(chan error, 1)
		cmd.Start()
		go func() { done <- cmd.Wait() }()
		select {
		case <-done:
		case <-time.After(180 * time.Second):
			cmd.Process.Signal(syscall.SIGKILL)
		}
		out := stderr.String()
		races := regexp.MustCompile(`(?s)WARNING: DATA RACE.*?==================`).FindAllString(out, -1)
		sites := map[string]int{}
		for _, rc := range races {
			locs := regexp.MustCompile(`(?m)^\s+/[^\s]*?/((?:uhppote|types|messages|encoding/[\w-]+)/[\w.-]+\.go:\d+)`).FindAllStringSubmatch(rc, -1)
			key := []string{}
			for _, l := range locs {
				if len(key) < 2 && !contains(key, l[1]) {
					key = append(key, l[1])
				}
			}
			if len(key) > 0 { // only races with a frame inside the library
				sort.Strings(key)
				sites[strings.Join(key, " / ")]++
			}
		}
		s.Extra["race_detector_reports"] = len(races)
		s.Extra["race_detector_ran"] = true
		for site, n := range sites {
			s.Fail(map[string]any{"op": "race", "scenario": "race-detector", "sites": site, "reports": n}, "data race reported by the race detector inside the library: "+site)
		}
	} else {
		s.Extra["race_detector_ran"] = false
	}
	return s.Close()
}

func contains(xs []string, x string) bool {
	for _, y := range xs {
		if x == y {
			return true
		}
	}
	return false
}

func resultsOf(obs []callObs) []string {
	out := []string{}
	for _, o := range obs {
		out = append(out, fmt.Sprintf("%d:%s@%dms", o.Spec.Index, o.Result, ms(o.Dur)))
	}
	return out
}

// child process (built with -race): discovery while replies are arriving, concurrent calls with and without a fixed bind
// port, listener start/stop cycles alongside
func runNetRace(o Opts) error {
	r := NewRand(o.Seed, "NETRACE")
	farm, err := NewFarm()
	if err != nil {
		return err
	}
	defer farm.Close()
	rounds := 6
	if o.Tier == "thorough" {
		rounds = 60
	}
	fixedPort := freeUDPPort()
	lport := freeUDPPort()
	for k := 0; k < rounds; k++ {
		var wg sync.WaitGroup
		specs, udpIDs, tcpIDs := genScenario(r, farm, 4, k%2 == 0)
		bp := 0
		if k%2 == 0 {
			bp = fixedPort
		}
		u := farmClient(farm, bp, 120*time.Millisecond, udpIDs, tcpIDs)
		wg.Add(3)
		go func() { defer wg.Done(); runCalls(u, specs, time.Millisecond) }()
		go func() { defer wg.Done(); u.GetDevices() }()
		go func() {
			defer wg.Done()
			evs := [][]byte{}
			for i := 0; i < 8; i++ { // a burst of distinct events: decoding and delivery overlap with the next reads
				evs = append(evs, farmReply(append([]byte{0x17, 0x20, 0, 0, 1, 2, 3, byte(4 + i), byte(i + 1)}, make([]byte, 55)...)))
			}
			_, fails := listenSession(lport, evs, 1, true)
			_ = fails
		}()
		wg.Wait()
	}
	// any two operations may overlap: 8 goroutines x random operations of all kinds on ONE client, through a stateless
	// in-process driver (no sockets, so the only shared state is the library's own)
	{
		u := uhppote.NewWithDriver(types.BindAddrFrom(netip.IPv4Unspecified(), 0), types.BroadcastAddr{}, types.ListenAddrFrom(netip.IPv4Unspecified(), 60001),
			100*time.Millisecond, []uhppote.Device{{DeviceID: 405419896, Address: types.ControllerAddr{AddrPort: netip.MustParseAddrPort("10.0.0.1:60000")}, Protocol: "udp", Doors: []string{"a", "b", "c", "d"}},
				{DeviceID: 303986753, Address: types.ControllerAddr{AddrPort: netip.MustParseAddrPort("10.0.0.2:60000")}, Protocol: "tcp"}}, false,
			func(uhppote.Driver) uhppote.Driver { return statelessDriver{} })
		noLastValue = true // the harness's own bookkeeping global must not race
		var wg sync.WaitGroup
		per := 150
		if o.Tier == "thorough" {
			per = 3000
		}
		for g := 0; g < 8; g++ {
			wg.Add(1)
			rg := NewRand(o.Seed+uint64(g), "NETRACE-ops")
			go func() {
				defer wg.Done()
				for i := 0; i < per; i++ {
					id := []uint32{405419896, 303986753, 201020304}[rg.Intn(3)]
					oc := genOp(rg, rg.Intn(nOps), id, false)
					func() {
						defer func() { recover() }()
						oc.Run(u)
					}()
					if i%40 == 0 {
						u.GetDevices()
						u.DeviceList()
					}
				}
			}()
		}
		wg.Wait()
		// the same ARGUMENT values (cards, profiles, tasks, passcode tables) handed to several calls at once: operations only
		// read what they are given, so sharing them is race-free
		shared := []OpCase{}
		rs := NewRand(o.Seed, "NETRACE-shared")
		for w := 0; w < nOps; w++ {
			k := 4
			if w == 12 || w == 16 || w == 25 { // PutCard, SetTimeProfile, SetDoorPasscodes: many argument shapes
				k = 120
			}
			for j := 0; j < k; j++ {
				shared = append(shared, genOp(rs, w, []uint32{405419896, 303986753, 201020304}[rs.Intn(3)], false))
			}
		}
		for _, oc := range shared { // eight goroutines make the SAME call with the same argument values at the same moment
			oc := oc
			for g := 0; g < 8; g++ {
				wg.Add(1)
				go func() {
					defer wg.Done()
					defer func() { recover() }()
					oc.Run(u)
				}()
			}
			wg.Wait()
		}
	}
	return nil
}

// replies computed from the request alone: safe to call from any number of goroutines
type statelessDriver struct{}

func (statelessDriver) Broadcast(addr *net.UDPAddr, req []byte) ([][]byte, error) {
	return [][]byte{farmReply(req), farmReply(req)}, nil
}
func (statelessDriver) BroadcastTo(addr *net.UDPAddr, req []byte, cb func([]byte) bool) ([]byte, error) {
	r := farmReply(req)
	if cb(r) {
		return r, nil
	}
	return nil, fmt.Errorf("timeout")
}
func (statelessDriver) SendUDP(addr *net.UDPAddr, req []byte) ([]byte, error) {
	return farmReply(req), nil
}
func (statelessDriver) SendTCP(addr *net.TCPAddr, req []byte) ([]byte, error) {
	return farmReply(req), nil
}
func (statelessDriver) Listen(signal chan any, done chan any, cb func([]byte)) error {
	go func() { <-signal; close(done) }()
	return nil
}
