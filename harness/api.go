package main

import (
	"fmt"
	"net"
	"net/netip"
	"os"
	"strings"
	"time"

	"github.com/uhppoted/uhppote-core/types"
	"github.com/uhppoted/uhppote-core/uhppote"
)

// ---- scripted, recording driver (installed through the verif hook NewWithDriver) ----

type Call struct {
	Method string
	IP     []byte
	Port   int
	Req    []byte
}

type Script struct {
	Kind      string   // "datagrams" | "return" | "nil" | "error"
	Datagrams [][]byte // for datagrams
	Return    []byte
}

func (s Script) coq() string {
	switch s.Kind {
	case "datagrams":
		ds := []string{}
		for _, d := range s.Datagrams {
			ds = append(ds, coqBytes(d))
		}
		return "(SDatagrams " + coqList(ds) + ")"
	case "return":
		return "(SReturn " + coqBytes(s.Return) + ")"
	case "nil":
		return "SNil"
	}
	return "SError"
}

type fakeDriver struct {
	script   Script
	calls    []Call
	scribble bool     // overwrite returned buffers after the call (C17)
	returned [][]byte // buffers handed to the library
	listenCB func([]byte)
	noListen bool
	delay    time.Duration // the exchange takes this long (a slow controller / network)
}

func ipBytes(ip net.IP) []byte {
	if ip4 := ip.To4(); ip4 != nil {
		return []byte(ip4)
	}
	return []byte(ip)
}

func (f *fakeDriver) record(m string, ip net.IP, port int, req []byte) {
	if f.delay > 0 {
		defer time.Sleep(f.delay)
	}
	f.calls = append(f.calls, Call{m, append([]byte{}, ipBytes(ip)...), port, append([]byte{}, req...)})
	if f.scribble { // the driver owns what it is handed: the library must not rely on it afterwards
		for i := range ip {
			ip[i] ^= 0xa5
		}
		for i := range req {
			req[i] ^= 0x5a
		}
	}
}

func (f *fakeDriver) hand(b []byte) []byte {
	c := append([]byte{}, b...)
	f.returned = append(f.returned, c)
	return c
}

func (f *fakeDriver) Broadcast(addr *net.UDPAddr, req []byte) ([][]byte, error) {
	f.record("broadcast", addr.IP, addr.Port, req)
	switch f.script.Kind {
	case "datagrams":
		out := [][]byte{}
		for _, d := range f.script.Datagrams {
			out = append(out, f.hand(d))
		}
		return out, nil
	case "nil":
		return nil, nil
	}
	return nil, fmt.Errorf("scripted error")
}

func (f *fakeDriver) BroadcastTo(addr *net.UDPAddr, req []byte, cb func([]byte) bool) ([]byte, error) {
	f.record("broadcast-to", addr.IP, addr.Port, req)
	switch f.script.Kind {
	case "datagrams":
		for _, d := range f.script.Datagrams {
			b := f.hand(d)
			if cb(b) {
				return b, nil
			}
		}
		return nil, fmt.Errorf("scripted timeout")
	case "nil":
		return nil, nil
	}
	return nil, fmt.Errorf("scripted error")
}

func (f *fakeDriver) directed() ([]byte, error) {
	switch f.script.Kind {
	case "return":
		return f.hand(f.script.Return), nil
	case "nil":
		return nil, nil
	case "datagrams":
		if len(f.script.Datagrams) > 0 {
			return f.hand(f.script.Datagrams[0]), nil
		}
	}
	return nil, fmt.Errorf("scripted error")
}

func (f *fakeDriver) SendUDP(addr *net.UDPAddr, req []byte) ([]byte, error) {
	f.record("udp", addr.IP, addr.Port, req)
	return f.directed()
}

func (f *fakeDriver) SendTCP(addr *net.TCPAddr, req []byte) ([]byte, error) {
	f.record("tcp", addr.IP, addr.Port, req)
	return f.directed()
}

// Listen: keeps the handler so that the harness can deliver datagrams to it; ends when signalled
func (f *fakeDriver) Listen(signal chan any, done chan any, cb func([]byte)) error {
	if f.noListen {
		return fmt.Errorf("not scripted")
	}
	f.listenCB = cb
	go func() {
		<-signal
		close(done)
	}()
	return nil
}

func callsCoq(calls []Call) string {
	out := []string{}
	for _, c := range calls {
		ctor := map[string]string{"broadcast": "EBroadcast", "broadcast-to": "EBroadcastTo", "udp": "EUdp", "tcp": "ETcp"}[c.Method]
		out = append(out, fmt.Sprintf("(%s %s %d, %s)", ctor, coqBytes(c.IP), c.Port, coqBytes(c.Req)))
	}
	return coqList(out)
}

// ---- client configurations ----

type DevCfg struct {
	ID    uint32
	Name  string
	Addr  netip.AddrPort // zero = not set
	Proto string
	TZ    *time.Location // the controller's configured time zone (nil = UTC); informational: results do not depend on it
}

type Cfg struct {
	Devices []DevCfg
	Bcast   netip.AddrPort // zero = not set
}

func apCoq(ap netip.AddrPort, validNeedsPort bool) string {
	if !ap.Addr().IsValid() || (validNeedsPort && ap.Port() == 0) {
		return "None"
	}
	return fmt.Sprintf("(Some (%s, %d))", coqBytes(ap.Addr().Unmap().AsSlice()), ap.Port()) // ::ffff:a.b.c.d is a.b.c.d
}

func (c Cfg) coq() string {
	ds := []string{}
	for _, d := range c.Devices {
		ds = append(ds, fmt.Sprintf("{| d_id := %d; d_name := %s; d_addr := %s; d_proto := %s |}", d.ID, coqBytes([]byte(d.Name)), apCoq(d.Addr, true), coqBytes([]byte(d.Proto))))
	}
	return fmt.Sprintf("{| cfg_devices := %s; cfg_bcast := %s |}", coqList(ds), apCoq(c.Bcast, false))
}

func (c Cfg) client(f *fakeDriver) uhppote.IUHPPOTE {
	devs := []uhppote.Device{}
	for _, d := range c.Devices {
		tz := d.TZ
		if tz == nil {
			tz = time.UTC
		}
		devs = append(devs, uhppote.Device{Name: d.Name, DeviceID: d.ID, Address: types.ControllerAddr{AddrPort: d.Addr}, Doors: []string{"a", "b", "c", "d"}, TimeZone: tz, Protocol: d.Proto})
	}
	bind := types.BindAddrFrom(netip.IPv4Unspecified(), 0)
	bc := types.BroadcastAddr{AddrPort: c.Bcast}
	ls := types.ListenAddrFrom(netip.IPv4Unspecified(), 60001)
	clientCount++
	debug := debugClients && clientCount%4 == 0 // every fourth client in debug mode (its output goes to the discarded stdout)
	return uhppote.NewWithDriver(bind, bc, ls, 250*time.Millisecond, devs, debug, func(uhppote.Driver) uhppote.Driver { return f })
}

func (c Cfg) json() map[string]any {
	ds := []map[string]any{}
	for _, d := range c.Devices {
		ds = append(ds, map[string]any{"id": d.ID, "name": d.Name, "addr": d.Addr.String(), "proto": d.Proto})
	}
	return map[string]any{"devices": ds, "broadcast": c.Bcast.String()}
}

var protoPool = []string{"udp", "tcp", "TCP", "any", "", "tcp ", "udp4"}

func genCfg(r *Rand, ids []uint32) Cfg {
	var c Cfg
	if r.Intn(2) == 0 {
		c.Bcast = netip.AddrPortFrom(netip.AddrFrom4([4]byte{192, 168, byte(r.Intn(3)), 255}), []uint16{60000, 60005, 1, 0}[r.Intn(4)])
	}
	n := r.Intn(5)
	for i := 0; i < n; i++ {
		d := DevCfg{ID: ids[r.Intn(len(ids))], Name: []string{"alpha", "beta", "", "gamma delta"}[r.Intn(4)], Proto: protoPool[r.Intn(len(protoPool))]}
		switch r.Intn(5) {
		case 0: // no address
		case 1:
			d.Addr = netip.AddrPortFrom(netip.IPv4Unspecified(), 60000)
		case 2:
			d.Addr = netip.AddrPortFrom(netip.AddrFrom4([4]byte{10, byte(r.Intn(3)), 0, byte(1 + r.Intn(200))}), 0)
		default:
			d.Addr = netip.AddrPortFrom(netip.AddrFrom4([4]byte{10, byte(r.Intn(3)), 0, byte(1 + r.Intn(200))}), []uint16{60000, 54321, 1, 65535}[r.Intn(4)])
		}
		if d.Addr.IsValid() && !d.Addr.Addr().IsUnspecified() && r.Intn(6) == 0 {
			// the same IPv4 address held in IPv4-mapped form (what netip.AddrFromSlice(net.ParseIP(..)) and
			// net.UDPAddr.AddrPort() produce): still that controller's endpoint
			d.Addr = netip.AddrPortFrom(netip.AddrFrom16(d.Addr.Addr().As16()), d.Addr.Port())
		}
		if c.Bcast.IsValid() && c.Bcast.Port() != 0 && r.Intn(6) == 0 {
			d.Addr = c.Bcast // a controller configured at exactly the broadcast address: still its own endpoint and transport
		}
		c.Devices = append(c.Devices, d)
	}
	return c
}

// ---- result canonicalisation ----

func vn(n uint64) string { return fmt.Sprintf("(VN %d)", n) }
func vb(b bool) string   { return "(VB " + coqBool(b) + ")" }
func vdateT(d types.Date) string {
	t := time.Time(d)
	return "(VDate " + zs(t.Year(), int(t.Month()), t.Day()) + ")"
}
func vdatetimeT(d types.DateTime) string {
	t := time.Time(d)
	return "(VDateTime " + zs(t.Year(), int(t.Month()), t.Day(), t.Hour(), t.Minute(), t.Second()) + ")"
}
func vip(ip net.IP) string {
	if ip4 := ip.To4(); ip4 != nil {
		return "(VIP " + coqBytes(ip4) + ")"
	}
	return "(VIP " + coqBytes(ip) + ")"
}
func vap(ap netip.AddrPort) string {
	if !ap.IsValid() {
		return "(VAP None)"
	}
	return fmt.Sprintf("(VAP (Some (%s, %d)))", coqBytes(ap.Addr().AsSlice()), ap.Port())
}
func vhm(h types.HHmm) string {
	a, b := hhmmFields(h)
	return "(VHHmm " + zs(a, b) + ")"
}

func rvals(xs ...string) string { return "(RVals [" + strings.Join(xs, "; ") + "])" }

func deviceVals(d types.Device) []string {
	return []string{"(VMAC " + coqBytes([]byte(d.Name)) + ")", vn(uint64(d.SerialNumber)), vip(d.IpAddress), vip(d.SubnetMask), vip(d.Gateway),
		"(VMAC " + coqBytes(d.MacAddress) + ")", vn(uint64(d.Version)), vdateT(d.Date), vap(d.Address)}
}

func statusVals(s types.Status) []string {
	out := []string{vn(uint64(s.SerialNumber)), vb(s.DoorState[1]), vb(s.DoorState[2]), vb(s.DoorState[3]), vb(s.DoorState[4]),
		vb(s.DoorButton[1]), vb(s.DoorButton[2]), vb(s.DoorButton[3]), vb(s.DoorButton[4]), vn(uint64(s.SystemError)), vdatetimeT(s.SystemDateTime),
		vn(uint64(s.SequenceId)), vn(uint64(s.SpecialInfo)), vn(uint64(s.RelayState)), vn(uint64(s.InputState))}
	e := s.Event
	return append(out, vn(uint64(e.Index)), vn(uint64(e.Type)), vb(e.Granted), vn(uint64(e.Door)), vn(uint64(e.Direction)), vn(uint64(e.CardNumber)), vdatetimeT(e.Timestamp), vn(uint64(e.Reason)))
}

func cardVals(c types.Card) []string {
	return []string{vn(uint64(c.CardNumber)), vdateT(c.From), vdateT(c.To), vn(uint64(c.Doors[1])), vn(uint64(c.Doors[2])), vn(uint64(c.Doors[3])), vn(uint64(c.Doors[4])), vn(uint64(c.PIN))}
}

// run one API call with panic capture; f returns the canonical Coq result term
func safeCall(f func() string) (res string) {
	defer func() {
		if rec := recover(); rec != nil {
			res = "RPanic"
		}
	}()
	return f()
}

// debug mode is part of the client configuration: the library then prints what it sends and receives.  The harness
// discards its own stdout while such clients exist (results travel through files).
var debugClients bool
var clientCount int

func discardStdout() func() {
	old := os.Stdout
	if f, err := os.OpenFile(os.DevNull, os.O_WRONLY, 0); err == nil {
		os.Stdout = f
		return func() { os.Stdout = old; f.Close() }
	}
	return func() {}
}
