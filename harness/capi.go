package main

import (
	"fmt"
	"github.com/uhppoted/uhppote-core/types"
	"github.com/uhppoted/uhppote-core/uhppote"
	"net"
	"net/netip"
	"strings"
	"time"
)

// API engine streams: one generated call = configuration + operation + scripted network.
// C01 (requests), C06 (routing), C07 (validation) share the generator and differ in emphasis and oracle.

func init() {
	commands["API"] = func(o Opts) error { return runApiStream(o, "API", "spec_true", apiMix{}) }
	commands["C01"] = func(o Opts) error { return runApiStream(o, "C01", "spec_ok01", apiMix{histories: true}) }
	commands["C06"] = func(o Opts) error { return runApiStream(o, "C06", "spec_ok06", apiMix{configs: true, histories: true}) }
	commands["C07"] = func(o Opts) error { return runApiStream(o, "C07", "spec_ok07", apiMix{edges: true}) }
}

var apiReplayKeys = []string{"opcoq", "cfgcoq", "script"}

type apiMix struct {
	histories bool // sequences of calls on one client / two clients alternately
	configs   bool // richer configurations
	edges     bool // boundary and invalid arguments
}

func scriptFor(r *Rand, reply []byte) Script {
	switch r.Intn(8) {
	case 0:
		return Script{Kind: "return", Return: reply}
	case 1:
		return Script{Kind: "error"}
	default:
		return Script{Kind: "datagrams", Datagrams: [][]byte{reply}}
	}
}

func runApiStream(o Opts, prop, oracle string, mix apiMix) error {
	s := NewSink(prop, o.Out, hdrApi, "caseapi", "model_okA", oracle)
	s.ShardSize = 250
	if o.Replay != "" {
		if err := s.LoadReplay(o.Replay, apiReplayKeys); err != nil {
			return err
		}
	}
	r := NewRand(o.Seed, prop)
	rounds := 12
	if o.Tier == "thorough" {
		rounds = 400
	}
	one := func(cl *clientState, cfg Cfg, w int, id uint32, edge bool, class string) {
		oc := genOp(r, w, id, edge)
		reply := genReply(r, oc.Resp, id, 0, nil)
		if r.Intn(10) == 0 {
			reply[8+r.Intn(56)] = r.Byte()
		}
		apiCase(s, cfg, oc, scriptFor(r, reply), class+"/"+oc.Name, cl, id != 0)
	}
	for i := 0; i < rounds; i++ {
		for w := 0; w < nOps; w++ {
			id := genID(r)
			if (mix.edges && r.Intn(8) == 0) || r.Intn(40) == 0 {
				id = 0
			}
			var cfg Cfg
			if mix.configs || r.Intn(2) == 0 {
				cfg = genCfg(r, []uint32{id, id, genID(r), 405419896})
			}
			edge := mix.edges && i%2 == 1
			cls := "call"
			if edge {
				cls = "call-edge-args"
			}
			one(nil, cfg, w, id, edge, cls)
			if mix.edges {
				// every guard's boundary: PutCard, SetListener, SetAddress, SetDoorPasscodes, SetTimeProfile twice as often
				for _, ww := range []int{12, 3, 1, 25, 16} {
					if r.Intn(3) == 0 {
						one(nil, cfg, ww, id, true, "guard-boundary")
					}
				}
			}
		}
		cfg := genCfg(r, []uint32{405419896, 303986753})
		ds := [][]byte{}
		for k := r.Intn(4); k > 0; k-- {
			ds = append(ds, genReply(r, "GetDeviceResponse", genID(r), 0, nil))
		}
		apiCase(s, cfg, getDevicesCase(), Script{Kind: "datagrams", Datagrams: ds}, "call/GetDevices", nil, true)
		{
			// discovery replies with repeats (A A B B, A B A B, ...), a controller with serial number 0 among them, and a
			// configuration that names controller 0
			pool := []uint32{405419896, 303986753, 0, genID(r)}
			cfg2 := Cfg{Devices: []DevCfg{{ID: 0, Name: "unassigned"}, {ID: 405419896, Name: "alpha", Addr: netip.MustParseAddrPort("10.0.0.9:60000"), Proto: "udp"}}}
			if i%2 == 1 {
				cfg2 = genCfg(r, pool)
			}
			ds2 := [][]byte{}
			pat := [][]int{{0, 0, 1, 1}, {0, 1, 0, 1}, {0, 0, 0}, {2, 0, 2}, {0, 1, 1, 0, 3, 3, 0}, {3, 2, 2, 3, 1, 1}}[i%6]
			replies := map[int][]byte{}
			for _, k := range pat {
				if _, ok := replies[k]; !ok || r.Intn(3) == 0 { // the same controller may answer with the same or a changed record
					replies[k] = genReply(r, "GetDeviceResponse", pool[k], 0, nil)
				}
				ds2 = append(ds2, replies[k])
			}
			apiCase(s, cfg2, getDevicesCase(), Script{Kind: "datagrams", Datagrams: ds2}, "call/GetDevices-repeats", nil, true)
		}

		if mix.histories {
			// one client, a sequence of calls; then two clients used alternately: requests must not depend on earlier calls
			ids := []uint32{genID(r), genID(r)}
			cfgA, cfgB := genCfg(r, ids), genCfg(r, ids)
			a, b := newClient(cfgA), newClient(cfgB)
			n := 6 + r.Intn(10)
			for k := 0; k < n; k++ {
				w := r.Intn(nOps)
				if k == 1 {
					w = 1 // SetAddress early in every history: the configuration, not the controller's new address, keeps routing
				}
				id := ids[r.Intn(2)]
				if k == 3 {
					// the caller edits the map DeviceList returned (removes, re-addresses and adds controllers): the
					// client's own configuration - and so every later route - is unaffected
					for _, cl := range []*clientState{a, b} {
						m := cl.u.DeviceList()
						for key, d := range m {
							if r.Intn(2) == 0 {
								delete(m, key)
							} else {
								d.Address = types.ControllerAddr{AddrPort: netip.MustParseAddrPort("10.99.99.99:54321")}
								d.Protocol = "tcp"
								m[key] = d
							}
						}
						m[ids[0]] = uhppote.Device{DeviceID: ids[0], Address: types.ControllerAddr{AddrPort: netip.MustParseAddrPort("10.98.98.98:12345")}, Protocol: "tcp"}
					}
				}
				if k%2 == 0 {
					one(a, cfgA, w, id, false, "history/client-a")
				} else {
					one(b, cfgB, w, id, false, "history/client-b")
				}
			}
		}
	}
	if mix.edges {
		// PutCard over a sweep of card numbers with everything else as generated: all 2^n, 2^n - 1 and 2^n + 1, every byte-run
		// pattern family, numbers derived from the literals of the source, the pool
		nums := append([]uint32{}, cardPool...)
		for n := uint(0); n < 32; n++ {
			nums = append(nums, 1<<n, 1<<n-1, 1<<n+1, ^uint32(0)<<n, ^uint32(0)>>n-1)
		}
		for i := 0; i < 96; i++ {
			nums = append(nums, patternU32(r))
			if v, ok := dictU32(r); ok {
				nums = append(nums, v)
			}
		}
		for _, no := range nums {
			no := no
			forceCardNo = &no
			id := genID(r)
			oc := genOp(r, 12, id, false)
			forceCardNo = nil
			reply := genReply(r, oc.Resp, id, 0, nil)
			apiCase(s, Cfg{}, oc, Script{Kind: "datagrams", Datagrams: [][]byte{reply}}, "card-number-sweep/PutCard", nil, true)
		}
	}
	if mix.edges {
		// PutCard with every list of up to three card formats over {any, Wiegand-26, two undefined values}, for a card number
		// that is / is not a Wiegand-26 number
		fv := []types.CardFormat{types.WiegandAny, types.Wiegand26, types.CardFormat(2), types.CardFormat(7)}
		lists := [][]types.CardFormat{}
		for a := -1; a < 4; a++ {
			for b := -1; b < 4; b++ {
				for c := -1; c < 4; c++ {
					l := []types.CardFormat{}
					for _, x := range []int{a, b, c} {
						if x >= 0 {
							l = append(l, fv[x])
						}
					}
					if (a < 0 && (b >= 0 || c >= 0)) || (b < 0 && c >= 0) {
						continue
					}
					lists = append(lists, l)
				}
			}
		}
		for _, l := range lists {
			for _, no := range []uint32{10058400, 25565536, 8165538, 100000000} {
				no := no
				forceCardNo, forceFormats = &no, l
				if len(l) == 0 {
					forceFormats = []types.CardFormat{}
				}
				id := genID(r)
				oc := genOp(r, 12, id, false)
				forceCardNo, forceFormats = nil, nil
				reply := genReply(r, oc.Resp, id, 0, nil)
				apiCase(s, Cfg{}, oc, Script{Kind: "datagrams", Datagrams: [][]byte{reply}}, "format-list-sweep/PutCard", nil, true)
			}
		}
	}
	if mix.configs {
		// one configured controller: every protocol string (the pool, and every short string literal of the source) x every
		// way the exchange can end (reply, error, nothing) x directed / not addressable - one request, one transport
		protos := append([]string{}, protoPool...)
		for _, lit := range sourceDict().Strings {
			if len(lit) <= 5 && len(lit) > 0 {
				protos = append(protos, lit, strings.ToUpper(lit))
			}
		}
		for _, proto := range protos {
			for _, kind := range []string{"datagrams", "error", "return", "nil"} {
				for _, addr := range []netip.AddrPort{netip.MustParseAddrPort("10.1.2.3:60000"), netip.AddrPortFrom(netip.IPv4Unspecified(), 60000), {}} {
					id := genID(r)
					cfg := Cfg{Devices: []DevCfg{{ID: id, Name: "p", Addr: addr, Proto: proto}}}
					oc := genOp(r, []int{4, 1, r.Intn(nOps)}[r.Intn(3)], id, false)
					reply := genReply(r, oc.Resp, id, 0, nil)
					if kind == "nil" && oc.Name != "SetAddress" {
						continue // the real driver returns "no reply, no error" for set-ip requests only
					}
					sc := Script{Kind: kind}
					switch kind {
					case "datagrams":
						sc.Datagrams = [][]byte{reply}
					case "return":
						sc.Return = reply
					}
					apiCase(s, cfg, oc, sc, "protocol-x-outcome/"+oc.Name, nil, true)
				}
			}
		}
	}
	// SetDoorPasscodes with far more than four passcodes: the request carries the first four, whatever follows
	for _, n := range []int{5, 256, 257, 258, 259, 260, 515, 516} {
		forcePasscodes = n
		id := genID(r)
		oc := genOp(r, 25, id, false)
		forcePasscodes = 0
		reply := genReply(r, oc.Resp, id, 0, nil)
		apiCase(s, Cfg{}, oc, Script{Kind: "datagrams", Datagrams: [][]byte{reply}}, "long-list/SetDoorPasscodes", nil, true)
	}
	if mix.histories && o.Replay == "" {
		// a long-lived client: after hundreds and thousands of calls a request, its route and the result are what a brand-new
		// client with the same configuration produces for the same call and the same answer (nothing accumulates)
		n := 2500
		if o.Tier == "thorough" {
			n = 40000
		}
		ids := []uint32{genID(r), genID(r), 405419896}
		cfg := genCfg(r, ids)
		old := newClient(cfg)
		diffs := 0
		for k := 0; k < n && diffs < 3; k++ {
			id := ids[r.Intn(3)]
			oc := genOp(r, r.Intn(nOps), id, false)
			reply := genReply(r, oc.Resp, id, 0, nil)
			sc := scriptFor(r, reply)
			run := func(cl *clientState) (string, []Call) {
				cl.f.script = sc
				cl.f.calls = nil
				res := safeCall(func() string { return oc.Run(cl.u) })
				return res, cl.f.calls
			}
			r1, c1 := run(old)
			r2, c2 := run(newClient(cfg))
			if r1 != r2 || callsCoq(c1) != callsCoq(c2) {
				diffs++
				s.Fail(map[string]any{"op": oc.Name, "opcoq": oc.Coq, "cfgcoq": cfg.coq(), "script": sc.coq(), "call_number": k + 1,
					"long_lived": r1 + " " + callsCoq(c1), "fresh": r2 + " " + callsCoq(c2)},
					fmt.Sprintf("call %d on a long-lived client differs from the same call on a new client with the same configuration (request, route or result depends on earlier calls)", k+1))
			}
		}
		s.Extra["long_history_calls"] = n
	}
	if prop == "C01" {
		// SetTime carries the wall clock of the time it is given, whatever the HOST zone: arguments in other Locations whose
		// wall clock falls into the host zone's skipped hour (and around it), under several host zones
		defer func() { time.Local = time.UTC }()
		for _, host := range []string{"America/New_York", "Europe/Amsterdam", "America/Santiago", "Australia/Lord_Howe"} {
			loc, err := time.LoadLocation(host)
			if err != nil {
				continue
			}
			time.Local = loc
			// the instants at which the host zone changes offset in 2024: wall clocks just before / inside / after the gap
			prev := 0
			for at := time.Date(2024, 1, 1, 0, 0, 0, 0, time.UTC); at.Year() == 2024; at = at.Add(time.Hour) {
				_, off := at.In(loc).Zone()
				if prev != 0 && off != prev {
					lw := at.Add(time.Duration(prev) * time.Second) // host wall clock (old offset) at the change
					for _, dm := range []int{-30, 0, 15, 45, 75} {
						w := lw.Add(time.Duration(dm) * time.Minute)
						for _, argLoc := range []*time.Location{time.UTC, time.FixedZone("+0545", 5*3600+45*60)} {
							t := time.Date(w.Year(), w.Month(), w.Day(), w.Hour(), w.Minute(), 7, 0, argLoc)
							id := genID(r)
							coq := fmt.Sprintf("SetTime %d %s %s %s %s %s %s", id, zc(t.Year()), zc(int(t.Month())), zc(t.Day()), zc(t.Hour()), zc(t.Minute()), zc(t.Second()))
							oc := OpCase{Name: "SetTime", ID: id, Coq: coq, Resp: "SetTimeResponse", Code: 0x30, JS: map[string]any{"op": "SetTime", "id": id, "coq": coq}}
							oc.Run = func(u uhppote.IUHPPOTE) string {
								res, err := u.SetTime(id, t)
								if err != nil || res == nil {
									return "RErr"
								}
								return rvals(vn(uint64(res.SerialNumber)), vdatetimeT(res.DateTime))
							}
							reply := genReply(r, oc.Resp, id, 0, nil)
							copy(reply[8:15], []byte{0x20, 0x24, 0x06, 0x15, 0x12, 0x00, 0x00}) // an ordinary date-time in the reply
							apiCase(s, Cfg{}, oc, Script{Kind: "datagrams", Datagrams: [][]byte{reply}}, "host-zone/"+host+"/SetTime", nil, true)
						}
					}
				}
				prev = off
			}
		}
		time.Local = time.UTC
		// the first and last days the wire format can carry, given in zones whose UTC reading falls outside years 1..9999
		for _, c := range []struct {
			y, m, d, hh, mm, ss int
			off                 int
		}{{1, 1, 1, 5, 30, 15, 14 * 3600}, {1, 1, 1, 0, 0, 1, 5*3600 + 1800}, {1, 1, 2, 3, 0, 0, 14 * 3600}, {9999, 12, 31, 21, 45, 59, -5 * 3600}, {9999, 12, 31, 23, 59, 59, -11 * 3600}, {9999, 12, 31, 12, 0, 0, -12 * 3600}, {9999, 12, 30, 23, 0, 0, -9 * 3600}} {
			t := time.Date(c.y, time.Month(c.m), c.d, c.hh, c.mm, c.ss, 0, time.FixedZone("edge", c.off))
			id := genID(r)
			coq := fmt.Sprintf("SetTime %d %s %s %s %s %s %s", id, zc(t.Year()), zc(int(t.Month())), zc(t.Day()), zc(t.Hour()), zc(t.Minute()), zc(t.Second()))
			oc := OpCase{Name: "SetTime", ID: id, Coq: coq, Resp: "SetTimeResponse", Code: 0x30, JS: map[string]any{"op": "SetTime", "id": id, "coq": coq}}
			oc.Run = func(u uhppote.IUHPPOTE) string {
				res, err := u.SetTime(id, t)
				if err != nil || res == nil {
					return "RErr"
				}
				return rvals(vn(uint64(res.SerialNumber)), vdatetimeT(res.DateTime))
			}
			reply := genReply(r, oc.Resp, id, 0, nil)
			copy(reply[8:15], []byte{0x20, 0x24, 0x06, 0x15, 0x12, 0x00, 0x00})
			apiCase(s, Cfg{}, oc, Script{Kind: "datagrams", Datagrams: [][]byte{reply}}, "edge-of-range/SetTime", nil, true)
		}
	}
	if prop == "C06" && s.ReplayWants("net-") {
		netC06(s, o.Tier)
	}
	if prop == "C01" && s.ReplayWants("net-") {
		netWire(s, r, o.Tier)
	}
	return s.Close()
}

// socket-level half of C06: the REAL driver on loopback. For every delivery path and several bind addresses the controller
// farm records what arrived: exactly one request per call, over the configured transport, from the configured bind address
// (and bind port when one is set); GetDevices sends one datagram to the broadcast address.
func netC06(s *Sink, tier string) {
	farm, err := NewFarm()
	if err != nil {
		s.Extra["net_stream"] = "skipped: " + err.Error()
		return
	}
	defer farm.Close()
	T := 150 * time.Millisecond
	fixed := freeUDPPort()
	binds := []netip.AddrPort{
		netip.AddrPortFrom(netip.IPv4Unspecified(), 0),
		netip.AddrPortFrom(netip.AddrFrom4([4]byte{127, 0, 0, 1}), 0),
		netip.AddrPortFrom(netip.AddrFrom4([4]byte{127, 0, 0, 2}), 0),
		netip.AddrPortFrom(netip.AddrFrom4([4]byte{127, 0, 0, 3}), uint16(fixed)),
	}
	rounds := 1
	if tier == "thorough" {
		rounds = 10
	}
	calls := 0
	for round := 0; round < rounds; round++ {
		for bi, bind := range binds {
			for path := 0; path < 3; path++ {
				if path == pathTCP && bind.Port() != 0 && round > 0 {
					continue // a fixed local TCP port lingers in TIME_WAIT: one use per run
				}
				nextIndex++
				idx := nextIndex
				id := uint32(710000000 + 10*bi + path)
				farm.Plan(idx, Behaviour{})
				var udpIDs, tcpIDs []uint32
				switch path {
				case pathUDP:
					udpIDs = []uint32{id}
				case pathTCP:
					tcpIDs = []uint32{id}
				}
				farm.ResetLog()
				farmListenPort = 60001
				if bind.Port() != 0 && round%2 == 0 { // the event listener is configured on the same port number as the bind port
					farmListenPort = bind.Port()
				}
				u := farmClientBind(farm, bind, T, udpIDs, tcpIDs)
				farmListenPort = 60001
				e, err := u.GetEvent(id, idx)
				calls++
				pn := []string{"broadcast", "udp", "tcp"}[path]
				js := map[string]any{"op": "net-route", "path": pn, "bind": bind.String()}
				if err != nil || e == nil || e.Index != idx {
					s.Fail(js, fmt.Sprintf("call over %s from bind address %v failed: %v", pn, bind, err))
					continue
				}
				time.Sleep(5 * time.Millisecond)
				log := farm.Log()
				mine := []FarmEvent{}
				for _, ev := range log {
					if ev.Index == idx {
						mine = append(mine, ev)
					}
				}
				if len(mine) != 1 || len(log) != 1 {
					s.Fail(js, fmt.Sprintf("%d datagrams/connections reached the controller for one call (%d carrying the request)", len(log), len(mine)))
					continue
				}
				wantProto := "udp"
				if path == pathTCP {
					wantProto = "tcp"
				}
				if mine[0].Proto != wantProto {
					s.Fail(js, fmt.Sprintf("request sent over %s, configured transport is %s", mine[0].Proto, wantProto))
				}
				from, perr := netip.ParseAddrPort(mine[0].From)
				if perr != nil {
					continue
				}
				// SetAddress (function 0x96, the one request without a reply) takes the same route
				setIdx := uint32(0x0a000000) | uint32(0x10000*bi+0x100*path+round+1) // = address 10.b.p.r little-endian in bytes 8..11
				ipb := []byte{byte(setIdx), byte(setIdx >> 8), byte(setIdx >> 16), byte(setIdx >> 24)}
				farm.Plan(setIdx, Behaviour{NoReply: true})
				farm.ResetLog()
				if _, serr := u.SetAddress(id, net.IP(ipb), net.IPv4(255, 255, 255, 0), net.IPv4(10, 0, 0, 1)); serr != nil {
					s.Fail(js, fmt.Sprintf("SetAddress over %s failed: %v", pn, serr))
				} else {
					time.Sleep(30 * time.Millisecond)
					got := farm.Log()
					if len(got) != 1 || got[0].Index != setIdx || got[0].Proto != wantProto {
						desc := []string{}
						for _, ev := range got {
							desc = append(desc, fmt.Sprintf("%s from %s", ev.Proto, ev.From))
						}
						s.Fail(js, fmt.Sprintf("SetAddress for a controller reached over %s arrived as %v (expected exactly one %s request)", pn, desc, wantProto))
					}
				}
				calls++
				if !bind.Addr().IsUnspecified() && from.Addr() != bind.Addr() {
					s.Fail(js, fmt.Sprintf("request left from %v, the configured bind address is %v", from.Addr(), bind.Addr()))
				}
				if bind.Port() != 0 && from.Port() != bind.Port() {
					s.Fail(js, fmt.Sprintf("request left from port %d, the configured bind port is %d", from.Port(), bind.Port()))
				}
				// TCP from a fixed bind port, again at once (the previous connection's local port may still be lingering):
				// the call may fail, but a request never leaves from any other port than the configured one
				if path == pathTCP && bind.Port() != 0 {
					for rep := 0; rep < 3; rep++ {
						nextIndex++
						ridx := nextIndex
						farm.Plan(ridx, Behaviour{HoldOpen: 400 * time.Millisecond}) // a controller slow to close its side
						farm.ResetLog()
						u.GetEvent(id, ridx)
						calls++
						time.Sleep(5 * time.Millisecond)
						for _, ev := range farm.Log() {
							if ap, perr := netip.ParseAddrPort(ev.From); perr == nil && ap.Port() != bind.Port() {
								s.Fail(js, fmt.Sprintf("repeated TCP call: the request left from port %d, the configured bind port is %d", ap.Port(), bind.Port()))
							}
						}
					}
				}
			}
		}
	}
	// a controller configured for TCP at an address where only UDP is open (the TCP port refuses the connection): the call
	// fails, and nothing is sent over UDP instead
	{
		ctl := uint32(710000900)
		devs := []uhppote.Device{{DeviceID: ctl, Address: types.ControllerAddr{AddrPort: netip.AddrPortFrom(netip.AddrFrom4([4]byte{127, 0, 0, 1}), uint16(farm.Port))}, Protocol: "tcp"}}
		u := uhppote.NewUHPPOTE(types.BindAddrFrom(netip.AddrFrom4([4]byte{127, 0, 0, 1}), 0), types.BroadcastAddrFrom(netip.AddrFrom4([4]byte{127, 0, 0, 1}), uint16(farm.Port)), types.ListenAddrFrom(netip.AddrFrom4([4]byte{127, 0, 0, 1}), 60001), T, devs, false)
		nextIndex++
		farm.Plan(nextIndex, Behaviour{})
		farm.ResetLog()
		_, err := u.GetEvent(ctl, nextIndex)
		calls++
		time.Sleep(10 * time.Millisecond)
		for _, ev := range farm.Log() {
			s.Fail(map[string]any{"op": "net-route", "path": "tcp-refused"}, fmt.Sprintf("a controller configured for TCP whose TCP port refuses the connection was sent the request over %s (call result: %v)", ev.Proto, err))
			break
		}
	}
	// a controller configured for UDP whose port is closed when the request is sent (ICMP port unreachable) and opens 100 ms
	// later: the one request of the call was lost - no second one arrives
	closedPortProbe(s, time.Second)
	s.Extra["net_calls"] = calls
}

func closedPortProbe(s *Sink, T time.Duration) {
	p := freeUDPPort()
	ctl := uint32(710000901)
	devs := []uhppote.Device{{DeviceID: ctl, Address: types.ControllerAddr{AddrPort: netip.AddrPortFrom(netip.AddrFrom4([4]byte{127, 0, 0, 1}), uint16(p))}, Protocol: "udp"}}
	u := uhppote.NewUHPPOTE(types.BindAddrFrom(netip.AddrFrom4([4]byte{127, 0, 0, 1}), 0), types.BroadcastAddr{}, types.ListenAddrFrom(netip.AddrFrom4([4]byte{127, 0, 0, 1}), 60001), T, devs, false)
	done := make(chan struct{})
	go func() { defer close(done); u.GetEvent(ctl, 1) }()
	time.Sleep(100 * time.Millisecond)
	c, err := net.ListenUDP("udp4", &net.UDPAddr{IP: net.IPv4(127, 0, 0, 1), Port: p})
	if err != nil {
		<-done
		return
	}
	defer c.Close()
	c.SetReadDeadline(time.Now().Add(600 * time.Millisecond))
	buf := make([]byte, 2048)
	if n, from, rerr := c.ReadFromUDP(buf); rerr == nil {
		s.Fail(map[string]any{"op": "net-route", "path": "udp-closed-port"}, fmt.Sprintf("a %d-byte datagram from %v arrived at the controller's port after it opened 100 ms into the call: the call sent its request more than once", n, from))
	}
	<-done
}

// socket-level half of C01: the REAL driver on loopback. Every operation, on each delivery path, with the client in and out
// of debug mode: the 64 bytes that arrive at the controller are the bytes the same call hands to a recording driver (which
// the stream above ties to the protocol encoding) - nothing between the encoder and the socket alters them.
func netWire(s *Sink, r *Rand, tier string) {
	farm, err := NewFarm()
	if err != nil {
		s.Extra["net_stream"] = "skipped: " + err.Error()
		return
	}
	defer farm.Close()
	restore := discardStdout()
	defer func() { farmDebug = false; restore() }()
	rounds := 1
	if tier == "thorough" {
		rounds = 12
	}
	calls := 0
	for round := 0; round < rounds; round++ {
		for w := 0; w < nOps; w++ {
			for path := 0; path < 3; path++ {
				if (w+path+round)%3 != 0 && tier != "thorough" {
					continue // quick: each operation on one path per round
				}
				id := uint32(720000000 + 100*path + w)
				oc := genOp(r, w, id, false)
				stub := newClient(Cfg{})
				stub.f.script = Script{Kind: "error"}
				safeCall(func() string { return oc.Run(stub.u) })
				if len(stub.f.calls) != 1 {
					continue // rejected before sending (or not a single-request operation)
				}
				want := stub.f.calls[0].Req
				var udpIDs, tcpIDs []uint32
				switch path {
				case pathUDP:
					udpIDs = []uint32{id}
				case pathTCP:
					tcpIDs = []uint32{id}
				}
				farmDebug = (w+round)%2 == 1
				farm.ResetLog()
				u := farmClient(farm, 0, 120*time.Millisecond, udpIDs, tcpIDs)
				safeCall(func() string { return oc.Run(u) })
				calls++
				time.Sleep(3 * time.Millisecond)
				log := farm.Log()
				pn := []string{"broadcast", "udp", "tcp"}[path]
				js := map[string]any{"op": "net-wire", "path": pn, "operation": oc.Name, "opcoq": oc.Coq, "debug": farmDebug, "want": hexs(want)}
				if len(log) != 1 {
					s.Fail(js, fmt.Sprintf("%d requests reached the controller for one %s call over %s", len(log), oc.Name, pn))
					continue
				}
				if hexs(log[0].Req) != hexs(want) {
					js["got"] = hexs(log[0].Req)
					s.Fail(js, fmt.Sprintf("the %s request that arrived over %s differs from the bytes the encoder produced for the call", oc.Name, pn))
				}
			}
		}
	}
	closedPortProbe(s, time.Second)
	s.Extra["net_wire_calls"] = calls
}
