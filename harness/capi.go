package main

// API engine streams: one generated call = configuration + operation + scripted network.
// C01 (requests), C06 (routing), C07 (validation) share the generator and differ in emphasis and oracle.

func init() {
	commands["API"] = func(o Opts) error { return runApiStream(o, "API", "spec_true", apiMix{}) }
	commands["C01"] = func(o Opts) error { return runApiStream(o, "C01", "spec_ok01", apiMix{histories: true}) }
	commands["C06"] = func(o Opts) error { return runApiStream(o, "C06", "spec_ok06", apiMix{configs: true}) }
	commands["C07"] = func(o Opts) error { return runApiStream(o, "C07", "spec_ok07", apiMix{edges: true}) }
}

var apiReplayKeys = []string{"opcoq", "cfgcoq", "script"}

type apiMix struct {
	histories bool // sequences of calls on one client / two clients alternately
	configs   bool // richer configurations
	edges     bool // boundary and invalid arguments
}

func scriptFor(r *Rand, reply []byte) Script {
	switch r.Intn(8) {
	case 0:
		return Script{Kind: "return", Return: reply}
	case 1:
		return Script{Kind: "error"}
	default:
		return Script{Kind: "datagrams", Datagrams: [][]byte{reply}}
	}
}

func runApiStream(o Opts, prop, oracle string, mix apiMix) error {
	s := NewSink(prop, o.Out, hdrApi, "caseapi", "model_okA", oracle)
	s.ShardSize = 250
	if o.Replay != "" {
		if err := s.LoadReplay(o.Replay, apiReplayKeys); err != nil {
			return err
		}
	}
	r := NewRand(o.Seed, prop)
	rounds := 12
	if o.Tier == "thorough" {
		rounds = 400
	}
	one := func(cl *clientState, cfg Cfg, w int, id uint32, edge bool, class string) {
		oc := genOp(r, w, id, edge)
		reply := genReply(r, oc.Resp, id, 0, nil)
		if r.Intn(10) == 0 {
			reply[8+r.Intn(56)] = r.Byte()
		}
		apiCase(s, cfg, oc, scriptFor(r, reply), class+"/"+oc.Name, cl, id != 0)
	}
	for i := 0; i < rounds; i++ {
		for w := 0; w < nOps; w++ {
			id := genID(r)
			if (mix.edges && r.Intn(8) == 0) || r.Intn(40) == 0 {
				id = 0
			}
			var cfg Cfg
			if mix.configs || r.Intn(2) == 0 {
				cfg = genCfg(r, []uint32{id, id, genID(r), 405419896})
			}
			edge := mix.edges && i%2 == 1
			cls := "call"
			if edge {
				cls = "call-edge-args"
			}
			one(nil, cfg, w, id, edge, cls)
			if mix.edges {
				// every guard's boundary: PutCard, SetListener, SetAddress, SetDoorPasscodes, SetTimeProfile twice as often
				for _, ww := range []int{12, 3, 1, 25, 16} {
					if r.Intn(3) == 0 {
						one(nil, cfg, ww, id, true, "guard-boundary")
					}
				}
			}
		}
		cfg := genCfg(r, []uint32{405419896, 303986753})
		ds := [][]byte{}
		for k := r.Intn(4); k > 0; k-- {
			ds = append(ds, genReply(r, "GetDeviceResponse", genID(r), 0, nil))
		}
		apiCase(s, cfg, getDevicesCase(), Script{Kind: "datagrams", Datagrams: ds}, "call/GetDevices", nil, true)

		if mix.histories {
			// one client, a sequence of calls; then two clients used alternately: requests must not depend on earlier calls
			ids := []uint32{genID(r), genID(r)}
			cfgA, cfgB := genCfg(r, ids), genCfg(r, ids)
			a, b := newClient(cfgA), newClient(cfgB)
			n := 6 + r.Intn(10)
			for k := 0; k < n; k++ {
				w := r.Intn(nOps)
				id := ids[r.Intn(2)]
				if k%2 == 0 {
					one(a, cfgA, w, id, false, "history/client-a")
				} else {
					one(b, cfgB, w, id, false, "history/client-b")
				}
			}
		}
	}
	return s.Close()
}
