package main

import (
	"fmt"
	"net/netip"
	"sort"
	"strings"
	"time"

	"github.com/uhppoted/uhppote-core/types"
	"github.com/uhppoted/uhppote-core/uhppote"
)

// C17: histories of {construct, mutate caller-side data, call operations, mutate returned data, overwrite transport
// buffers}.  Every call made after a mutation is recorded against the configuration the client was BUILT with.

func init() { commands["C17"] = runC17 }

func runC17(o Opts) error {
	s := NewSink("C17", o.Out, hdrApi+"\nFrom UV Require Import Spec.ReplySpec Spec.RecvSpec Spec.AliasSpec.", "caseapi", "model_okA", "spec_ok17")
	s.ShardSize = 250
	if o.Replay != "" {
		if err := s.LoadReplay(o.Replay, apiReplayKeys); err != nil {
			return err
		}
	}
	r := NewRand(o.Seed, "C17")
	n := 40
	if o.Tier == "thorough" {
		n = 1500
	}
	mutations, scribbles := 0, 0
	for h := 0; h < n; h++ {
		ids := []uint32{genID(r), genID(r), genID(r)}
		cfg0 := genCfg(r, ids)
		for len(cfg0.Devices) == 0 {
			cfg0 = genCfg(r, ids)
		}
		if h%5 == 4 { // every fifth history: a client without any configured controller
			cfg0.Devices = nil
		}
		// the caller's own data: a device slice with door-name slices
		devs := []uhppote.Device{}
		for _, d := range cfg0.Devices {
			devs = append(devs, uhppote.Device{Name: d.Name, DeviceID: d.ID, Address: types.ControllerAddr{AddrPort: d.Addr}, Doors: []string{"front", "back", "side", "garage"}, TimeZone: time.UTC, Protocol: d.Proto})
		}
		f := &fakeDriver{scribble: true}
		bind := types.BindAddrFrom(netip.IPv4Unspecified(), 0)
		u := uhppote.NewWithDriver(bind, types.BroadcastAddr{AddrPort: cfg0.Bcast}, types.ListenAddrFrom(netip.IPv4Unspecified(), 60001), 250*time.Millisecond, devs, false, func(uhppote.Driver) uhppote.Driver { return f })
		cl := &clientState{f: f, u: u}
		var lists []map[uint32]uhppote.Device
		steps := 8 + r.Intn(12)
		for k := 0; k < steps; k++ {
			step := r.Intn(7)
			if len(devs) == 0 && step < 2 {
				step = 2
			}
			switch step {
			case 0: // change the caller's device entries
				i := r.Intn(len(devs))
				devs[i].Address = types.ControllerAddr{AddrPort: netip.AddrPortFrom(netip.AddrFrom4([4]byte{172, 16, byte(k), byte(1 + r.Intn(200))}), 4000)}
				devs[i].Protocol = []string{"tcp", "udp"}[r.Intn(2)]
				devs[i].Name = "changed"
				if r.Intn(3) == 0 {
					devs[i].DeviceID = genID(r)
				}
				mutations++
			case 1: // change door names through the caller's slices
				i := r.Intn(len(devs))
				devs[i].Doors[r.Intn(4)] = fmt.Sprintf("renamed-%d", k)
				mutations++
			case 2: // DeviceList, then modify the returned map and the values in it
				m := u.DeviceList()
				lists = append(lists, m)
				mids := []uint32{}
				for id := range m {
					mids = append(mids, id)
				}
				sort.Slice(mids, func(a, b int) bool { return mids[a] < mids[b] }) // map order must not drive the PRNG
				for _, id := range mids {
					d := m[id]
					switch r.Intn(4) {
					case 0:
						d.Address = types.ControllerAddr{AddrPort: netip.MustParseAddrPort("10.99.99.99:9")}
						d.Protocol = "tcp"
						d.Name = "hijacked"
						m[id] = d
					case 1:
						delete(m, id)
					case 2:
						if len(d.Doors) > 0 {
							d.Doors[0] = "shared-array-write"
						}
					case 3:
						m[id+1] = uhppote.Device{DeviceID: id + 1, Address: types.ControllerAddr{AddrPort: netip.MustParseAddrPort("10.1.1.1:1")}}
					}
				}
				// and insert an entry for a controller the operations below may address
				inj := ids[r.Intn(len(ids))]
				if _, present := m[inj]; !present || r.Intn(3) == 0 {
					m[inj] = uhppote.Device{DeviceID: inj, Address: types.ControllerAddr{AddrPort: netip.MustParseAddrPort("10.77.77.77:7777")}, Protocol: "tcp", Doors: []string{"x"}}
				}
				mutations++
			default: // an operation for one of the configured (or an unconfigured) controllers
				id := ids[r.Intn(len(ids))]
				if r.Intn(6) == 0 {
					id = genID(r)
				}
				oc := genOp(r, r.Intn(nOps), id, false)
				reply := genReply(r, oc.Resp, id, 0, nil)
				sc := Script{Kind: "datagrams", Datagrams: [][]byte{reply}}
				lastValue = nil
				res := apiCase(s, cfg0, oc, sc, "history/"+[]string{"fresh", "after-mutation"}[b2i(mutations > 0)], cl, true)
				// transport buffers are reused: overwrite everything the driver handed out, the result must not change
				if v := lastValue; v != nil && res != "RErr" {
					before := fmt.Sprintf("%+v", v)
					for _, b := range f.returned {
						for i := range b {
							b[i] ^= 0x5a
						}
					}
					scribbles++
					if after := fmt.Sprintf("%+v", v); after != before {
						s.Fail(map[string]any{"op": oc.Name, "opcoq": oc.Coq, "cfgcoq": cfg0.coq(), "script": sc.coq(), "before": before, "after": after},
							"returned value changed when the transport buffer was overwritten afterwards")
					}
				}
				f.returned = nil
			}
		}
	}
	// the operations whose arguments carry maps or slices (card doors - also partial and nil maps -, profile weekdays and
	// segments, task weekdays, reader map, IP slices): the argument is compared structurally before and after the call
	probes := 0
	nProbe := 60
	if o.Tier == "thorough" {
		nProbe = 2000
	}
	for i := 0; i < nProbe; i++ {
		for _, which := range []int{1, 12, 16, 19, 29} {
			id := genID(r)
			cfg := Cfg{Devices: []DevCfg{{ID: id, Addr: netip.MustParseAddrPort("10.0.0.1:60000"), Proto: "udp"}}}
			oc := genOp(r, which, id, i%3 == 0)
			reply := genReply(r, oc.Resp, id, 0, nil)
			apiCase(s, cfg, oc, Script{Kind: "datagrams", Datagrams: [][]byte{reply}}, "argument-probe/"+oc.Name, nil, true)
			probes++
		}
	}
	s.Extra["argument_probes"] = probes
	s.Extra["mutation_steps"] = mutations
	s.Extra["buffer_overwrites_checked"] = scribbles

	// results must not alias the driver's receive buffers: discovery through the REAL driver, where several replies are
	// collected before any is decoded (socket-level stream shared with C11)
	if s.ReplayWants("net-") {
		netC11(s, o.Tier)
	}

	// delivered events must not depend on the listener's receive buffer or on anything shared between deliveries: the
	// same valid events through the REAL listener one at a time and then back to back (where the next datagram is read
	// while the previous status is still being built or used) must be delivered as the same statuses
	if s.ReplayWants("net-") {
		lr := NewRand(o.Seed, "C17-listen")
		rounds := 3
		if o.Tier == "thorough" {
			rounds = 20
		}
		port := freeUDPPort()
		for k := 0; k < rounds; k++ {
			n := 30 + lr.Intn(40)
			var ds [][]byte
			for i := 0; i < n; i++ {
				ds = append(ds, genReply(lr, "GetStatusResponse", genID(lr), 0, map[string]uint64{"SequenceId": uint64(i + 1), "EventIndex": uint64(1000*k + i + 1)}))
			}
			single, f1 := listenSession(port, ds, 1, false)
			burst, f2 := listenSession(port, ds, 1, true)
			for _, f := range append(f1, f2...) {
				s.Fail(map[string]any{"op": "net-listen-buffers", "events": n}, "listener: "+f)
			}
			if len(f1)+len(f2) == 0 && strings.Join(single, "|") != strings.Join(burst, "|") {
				bad := 0
				for i := range single {
					if i >= len(burst) || single[i] != burst[i] {
						bad = i
						break
					}
				}
				s.Fail(map[string]any{"op": "net-listen-buffers", "events": n, "first_difference": bad, "datagram": hexs(ds[bad])},
					"the same events are delivered as different statuses when they arrive back to back (a delivered status depends on a later datagram)")
			}
		}
		s.Extra["listener_buffer_rounds"] = rounds
	}

	// cloning: equal value, no shared mutable storage
	for i := 0; i < 200; i++ {
		doors := map[uint8]uint8{1: r.Byte(), 2: r.Byte(), 3: r.Byte(), 4: r.Byte()}
		switch i % 5 { // also partial, empty (non-nil) and nil maps
		case 1:
			doors = map[uint8]uint8{2: r.Byte()}
		case 2:
			doors = map[uint8]uint8{}
		case 3:
			doors = nil
		}
		c := types.Card{CardNumber: genCardNo(r), From: types.Date(civilDate(2024, 1, 1)), To: types.Date(civilDate(2024, 12, 31)), Doors: doors, PIN: types.PIN(r.Intn(1000000))}
		k := c.Clone()
		if fmt.Sprintf("%v", k) != fmt.Sprintf("%v", c) {
			s.Fail(map[string]any{"op": "Card.Clone", "card": fmt.Sprintf("%v", c)}, "clone differs from the original")
		}
		before := deepSnap(k)
		if c.Doors != nil {
			c.Doors[1]++
			c.Doors[4] = 99
		}
		if deepSnap(k) != before {
			s.Fail(map[string]any{"op": "Card.Clone", "card": deepSnap(c)}, "clone shares the doors map with the original (writing to the original changed the clone)")
		}
		beforeC := deepSnap(c)
		if k.Doors != nil {
			k.Doors[2] = 77
			k.Doors[3]++
		}
		if deepSnap(c) != beforeC {
			s.Fail(map[string]any{"op": "Card.Clone", "card": deepSnap(c)}, "clone shares the doors map with the original (writing to the clone changed the original)")
		}
		if k2 := c.Clone(); fmt.Sprintf("%v", k2) != fmt.Sprintf("%v", c) { // equal as far as the permissions of doors 1..4 go
			s.Fail(map[string]any{"op": "Card.Clone", "card": deepSnap(c)}, "a second clone differs from the original")
		}
		// an empty door list with spare capacity (names[:0]): the clone and the client's copy do not share its backing array
		{
			backing := []string{"w", "x", "y", "z"}
			e := uhppote.Device{Name: "e", DeviceID: genID(r), Doors: backing[:0], TimeZone: time.UTC, Protocol: "udp"}
			ek := e.Clone()
			if cap(ek.Doors) > 0 {
				if full := ek.Doors[:1]; &full[0] == &backing[0] {
					s.Fail(map[string]any{"op": "Device.Clone"}, "clone of a device with an empty door list shares the list's backing array with the original")
				}
			}
			u := uhppote.NewUHPPOTE(types.BindAddr{}, types.BroadcastAddr{}, types.ListenAddr{}, time.Second, []uhppote.Device{e}, false)
			if held, ok := u.DeviceList()[e.DeviceID]; ok && cap(held.Doors) > 0 {
				if full := held.Doors[:1]; &full[0] == &backing[0] {
					s.Fail(map[string]any{"op": "NewUHPPOTE"}, "the client's copy of a controller with an empty door list shares the list's backing array with the caller's slice")
				}
			}
		}
		// a caller-built zone whose NAME is also the name of a database zone with other rules: the copy keeps the caller's zone
		for _, fz := range []*time.Location{time.FixedZone("EET", 2*3600), time.FixedZone("CET", 3600), time.FixedZone("UTC", 5*3600), time.FixedZone("America/New_York", -5*3600), time.FixedZone("Local", 7*3600)} {
			z := uhppote.Device{Name: "z", DeviceID: genID(r), Doors: []string{"a"}, TimeZone: fz, Protocol: "udp"}
			summer := time.Date(2024, 7, 1, 12, 0, 0, 0, time.UTC)
			_, want := summer.In(fz).Zone()
			zk := z.Clone()
			u := uhppote.NewUHPPOTE(types.BindAddr{}, types.BroadcastAddr{}, types.ListenAddr{}, time.Second, []uhppote.Device{z}, false)
			held := u.DeviceList()[z.DeviceID]
			for _, got := range []*time.Location{zk.TimeZone, held.TimeZone} {
				if got == nil {
					s.Fail(map[string]any{"op": "Device.Clone", "zone": fz.String()}, "the copy of a controller lost its time zone")
					continue
				}
				if _, off := summer.In(got).Zone(); off != want || got.String() != fz.String() {
					s.Fail(map[string]any{"op": "Device.Clone", "zone": fz.String(), "offset_of_copy": off, "offset_of_original": want}, "the copy of a controller carries a different time zone than the one it was configured with")
				}
			}
		}
		d := uhppote.Device{Name: "d", DeviceID: genID(r), Doors: []string{"a", "b", "c", "d"}, TimeZone: time.UTC, Protocol: "udp"}
		dk := d.Clone()
		before = fmt.Sprintf("%v", dk)
		d.Doors[2] = "changed"
		if fmt.Sprintf("%v", dk) != before {
			s.Fail(map[string]any{"op": "Device.Clone"}, "device clone shares the door-name slice with the original")
		}
	}
	return s.Close()
}

func b2i(b bool) int {
	if b {
		return 1
	}
	return 0
}
