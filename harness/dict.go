package main

// Source dictionary: the constants that /repo's own (non-test) source compares against or builds from — byte-slice
// literals, quoted strings and integer literals of types/, encoding/, messages/ and uhppote/ — read from the
// working tree on every run. Generators draw some of their values from it, so that a value the code singles out
// (a sentinel, a "magic" date, a special card number) is exercised whenever the code names it. The dictionary is
// a generator aid only: what is compared is still the model against the implementation.

import (
	"go/ast"
	"go/parser"
	"go/token"
	"os"
	"path/filepath"
	"sort"
	"strconv"
	"strings"
	"sync"
	"time"
)

type srcDict struct {
	Bytes     [][]byte    // []byte{...} / [N]byte{...} literals of constants, 2..16 long
	Strings   []string    // string literals, 1..40 long
	Ints      []uint64    // integer literals
	DateTimes []time.Time // civil date-times the above denote (BCD bytes, digit strings, "2006-01-02 15:04:05")
	Dates     []time.Time // civil dates, likewise
}

var (
	dictOnce sync.Once
	dict     srcDict
)

func repoRoot() string {
	if p := os.Getenv("VERIF_REPO"); p != "" {
		return p
	}
	return "/repo"
}

func bcdDigits(b []byte) (string, bool) {
	s := ""
	for _, x := range b {
		if x>>4 > 9 || x&15 > 9 {
			return "", false
		}
		s += string(rune('0'+x>>4)) + string(rune('0'+x&15))
	}
	return s, true
}

func civilOf(digits string) (time.Time, bool) {
	num := func(a, b int) int { n, _ := strconv.Atoi(digits[a:b]); return n }
	switch len(digits) {
	case 8, 14:
		y, m, d := num(0, 4), num(4, 6), num(6, 8)
		hh, mm, ss := 0, 0, 0
		if len(digits) == 14 {
			hh, mm, ss = num(8, 10), num(10, 12), num(12, 14)
		}
		if y < 1 || m < 1 || m > 12 || d < 1 || hh > 23 || mm > 59 || ss > 59 {
			return time.Time{}, false
		}
		t := time.Date(y, time.Month(m), d, hh, mm, ss, 0, time.UTC)
		if t.Day() != d {
			return time.Time{}, false
		}
		return t, true
	}
	return time.Time{}, false
}

func allDigits(s string) bool {
	for _, c := range s {
		if c < '0' || c > '9' {
			return false
		}
	}
	return s != ""
}

func sourceDict() *srcDict {
	dictOnce.Do(func() {
		root := repoRoot()
		seenB, seenS, seenI := map[string]bool{}, map[string]bool{}, map[uint64]bool{}
		for _, sub := range []string{"types", "encoding", "messages", "uhppote"} {
			filepath.Walk(filepath.Join(root, sub), func(p string, info os.FileInfo, err error) error {
				if err != nil || info.IsDir() || !strings.HasSuffix(p, ".go") || strings.HasSuffix(p, "_test.go") {
					return nil
				}
				f, err := parser.ParseFile(token.NewFileSet(), p, nil, 0)
				if err != nil {
					return nil
				}
				skip := map[*ast.BasicLit]bool{}
				ast.Inspect(f, func(n ast.Node) bool {
					switch x := n.(type) {
					case *ast.ImportSpec:
						return false
					case *ast.Field:
						if x.Tag != nil { // struct tags are layout, not data
							skip[x.Tag] = true
						}
					case *ast.CompositeLit:
						at, ok := x.Type.(*ast.ArrayType)
						if !ok {
							return true
						}
						if id, ok := at.Elt.(*ast.Ident); !ok || (id.Name != "byte" && id.Name != "uint8") {
							return true
						}
						bs := []byte{}
						for _, e := range x.Elts {
							bl, ok := e.(*ast.BasicLit)
							if !ok || bl.Kind != token.INT {
								return true
							}
							v, err := strconv.ParseUint(bl.Value, 0, 8)
							if err != nil {
								return true
							}
							bs = append(bs, byte(v))
						}
						if len(bs) >= 2 && len(bs) <= 16 && !seenB[string(bs)] {
							seenB[string(bs)] = true
							dict.Bytes = append(dict.Bytes, bs)
						}
					case *ast.BasicLit:
						if skip[x] {
							return true
						}
						switch x.Kind {
						case token.STRING:
							if s, err := strconv.Unquote(x.Value); err == nil && len(s) >= 1 && len(s) <= 40 && !seenS[s] {
								seenS[s] = true
								dict.Strings = append(dict.Strings, s)
							}
						case token.INT:
							if v, err := strconv.ParseUint(x.Value, 0, 64); err == nil && !seenI[v] {
								seenI[v] = true
								dict.Ints = append(dict.Ints, v)
							}
						}
					}
					return true
				})
				return nil
			})
		}
		sort.Slice(dict.Bytes, func(i, j int) bool { return string(dict.Bytes[i]) < string(dict.Bytes[j]) })
		sort.Strings(dict.Strings)
		sort.Slice(dict.Ints, func(i, j int) bool { return dict.Ints[i] < dict.Ints[j] })

		seenT := map[string]bool{}
		addT := func(t time.Time, full bool) {
			k := t.Format("20060102150405") + strconv.FormatBool(full)
			if seenT[k] {
				return
			}
			seenT[k] = true
			if full {
				dict.DateTimes = append(dict.DateTimes, t)
			} else {
				dict.Dates = append(dict.Dates, t)
			}
		}
		for _, b := range dict.Bytes {
			if ds, ok := bcdDigits(b); ok {
				if t, ok := civilOf(ds); ok {
					addT(t, len(ds) == 14)
					if len(ds) == 14 {
						addT(time.Date(t.Year(), t.Month(), t.Day(), 0, 0, 0, 0, time.UTC), false)
					}
				}
			}
		}
		for _, s := range dict.Strings {
			if allDigits(s) {
				if t, ok := civilOf(s); ok {
					addT(t, len(s) == 14)
				}
			}
			if t, err := time.Parse("2006-01-02 15:04:05", s); err == nil && t.Year() >= 1 && s != "2006-01-02 15:04:05" {
				addT(t, true)
			}
			if t, err := time.Parse("2006-01-02", s); err == nil && t.Year() >= 1 && s != "2006-01-02" {
				addT(t, false)
			}
		}
	})
	return &dict
}

// dictionary byte strings of exactly n bytes (and the n-byte prefixes of longer ones)
func dictBytesOf(n int) [][]byte {
	out := [][]byte{}
	seen := map[string]bool{}
	for _, b := range sourceDict().Bytes {
		if len(b) >= n && !seen[string(b[:n])] {
			seen[string(b[:n])] = true
			out = append(out, append([]byte{}, b[:n]...))
		}
	}
	return out
}

// dictionary integers that fit in the given number of bits
func dictIntsOf(bits uint) []uint64 {
	out := []uint64{}
	for _, v := range sourceDict().Ints {
		if bits >= 64 || v < 1<<bits {
			out = append(out, v)
		}
	}
	return out
}

func init() {
	commands["DICT"] = func(o Opts) error {
		d := sourceDict()
		println("bytes", len(d.Bytes), "strings", len(d.Strings), "ints", len(d.Ints), "datetimes", len(d.DateTimes), "dates", len(d.Dates))
		for _, b := range d.Bytes {
			println("  ", hexs(b))
		}
		for _, t := range d.DateTimes {
			println("  dt", t.String())
		}
		for _, t := range d.Dates {
			println("  d", t.String())
		}
		return nil
	}
}

// A valid civil date-time all of whose 14 decimal digits come from a small alphabet (two or three digits, or a short
// digit string of the source dictionary): code that treats digit strings with character sets or prefixes rather than
// field by field shows on such values and practically never on uniformly drawn ones.
func fewDigitDateTime(r *Rand) (time.Time, bool) {
	alpha := ""
	cands := []string{}
	for _, s := range sourceDict().Strings {
		if allDigits(s) && len(s) >= 2 && len(s) <= 3 {
			cands = append(cands, s)
		}
	}
	if len(cands) > 0 && r.Intn(2) == 0 {
		alpha = cands[r.Intn(len(cands))]
	} else {
		n := 2 + r.Intn(2)
		for len(alpha) < n {
			c := string(rune('0' + r.Intn(10)))
			if !strings.Contains(alpha, c) {
				alpha += c
			}
		}
	}
	within := func(lo, hi, width int) []int {
		out := []int{}
		for v := lo; v <= hi; v++ {
			s := strconv.Itoa(v)
			for len(s) < width {
				s = "0" + s
			}
			ok := true
			for _, c := range s {
				if !strings.ContainsRune(alpha, c) {
					ok = false
				}
			}
			if ok {
				out = append(out, v)
			}
		}
		return out
	}
	ys, ms, ds := within(1, 9999, 4), within(1, 12, 2), within(1, 28, 2)
	hs, ns := within(0, 23, 2), within(0, 59, 2)
	if len(ys) == 0 || len(ms) == 0 || len(ds) == 0 || len(hs) == 0 || len(ns) == 0 {
		return time.Time{}, false
	}
	pick := func(xs []int) int { return xs[r.Intn(len(xs))] }
	y := pick(ys)
	if r.Intn(2) == 0 { // prefer the years a controller can hold
		near := []int{}
		for _, v := range ys {
			if v >= 1990 && v <= 2099 {
				near = append(near, v)
			}
		}
		if len(near) > 0 {
			y = pick(near)
		}
	}
	return time.Date(y, time.Month(pick(ms)), pick(ds), pick(hs), pick(ns), pick(ns), 0, time.UTC), true
}

func bcdOfDigits(s string) []byte {
	out := make([]byte, len(s)/2)
	for i := range out {
		out[i] = (s[2*i]-'0')<<4 | (s[2*i+1] - '0')
	}
	return out
}

// a 32-bit value derived from a number the source itself names: the number, its neighbours, and - reading it as a bit
// mask - values that agree with it on the masked bits and are arbitrary elsewhere (what `x|m == ..` and `x&m == ..`
// single out)
func dictU32(r *Rand) (uint32, bool) {
	ds := dictIntsOf(32)
	if len(ds) == 0 {
		return 0, false
	}
	m := uint32(ds[r.Intn(len(ds))])
	x := r.U32()
	switch r.Intn(7) {
	case 0:
		return m, true
	case 1:
		return m + 1, true
	case 2:
		return m - 1, true
	case 3:
		return ^m | (x & m), true
	case 4:
		return m | (x &^ m), true
	case 5:
		return x & m, true
	}
	return x &^ m, true
}
