package main

import (
	"fmt"
	"time"

	"github.com/uhppoted/uhppote-core/types"
)

func init() { commands["C16"] = runC16 }

const hdr16 = "From UV Require Import Base.Bytes Model.Order Model.Cases16.\nOpen Scope Z_scope."

func z3(y, m, d int) string { return fmt.Sprintf("(%d, %d, %d)", y, m, d) }
func z2(a, b int) string {
	f := func(x int) string {
		if x < 0 {
			return fmt.Sprintf("(%d)", x)
		}
		return fmt.Sprint(x)
	}
	return "(" + f(a) + ", " + f(b) + ")"
}

func c16date(s *Sink, a, b [3]int, class string) {
	// a calendar date is carried by a time value of some zone and time of day (ToDate and ParseDate use the process zone,
	// which can change between the two, a caller may convert its own time.Time): the verdict is about the calendar
	// dates, so the carriers rotate through zones 25 hours apart and three times of day
	c16d++
	locs := []*time.Location{time.UTC, time.FixedZone("+14", 14*3600), time.FixedZone("-11", -11*3600), time.FixedZone("+0545", 5*3600+45*60)}
	hours := []int{0, 12, 23}
	la, lb := locs[c16d%4], locs[(c16d/4)%4]
	ha, hb := hours[(c16d/16)%3], hours[(c16d/48)%3]
	p := types.Date(time.Date(a[0], time.Month(a[1]), a[2], ha, 0, 0, 0, la))
	q := types.Date(time.Date(b[0], time.Month(b[1]), b[2], hb, 0, 0, 0, lb))
	bf, af, eq := p.Before(q), p.After(q), p.Equals(q)
	s.Add(fmt.Sprintf("CDate %s %s %v %v %v", z3(a[0], a[1], a[2]), z3(b[0], b[1], b[2]), bf, af, eq),
		map[string]any{"op": "date", "a": a, "b": b, "before": bf, "after": af, "equals": eq}, class, a != b)
}

func c16hm(s *Sink, a, b [2]int, class string) {
	p, q := types.NewHHmm(a[0], a[1]), types.NewHHmm(b[0], b[1])
	bf, af, eq := p.Before(q), p.After(q), p.Equals(q)
	s.Add(fmt.Sprintf("CHHmm %s %s %v %v %v", z2(a[0], a[1]), z2(b[0], b[1]), bf, af, eq),
		map[string]any{"op": "hhmm", "a": a, "b": b, "before": bf, "after": af, "equals": eq}, class, a != b)
}

var c16locs = func() []*time.Location {
	ls := []*time.Location{time.UTC, time.FixedZone("+0545", 5*3600+45*60), time.FixedZone("-0930", -(9*3600 + 30*60)), time.FixedZone("+14", 14*3600)}
	for _, n := range []string{"America/New_York", "Australia/Lord_Howe", "Europe/London"} { // zones whose clocks go back
		if l, err := time.LoadLocation(n); err == nil {
			ls = append(ls, l)
		}
	}
	return ls
}()
var c16n, c16d, c16segCount int

func c16dt(s *Sink, d, t int64, class string) {
	// the same two instants expressed in rotating Locations: the verdict is about instants, not wall clocks
	c16n++
	la, lb := c16locs[c16n%len(c16locs)], c16locs[(c16n/len(c16locs))%len(c16locs)]
	bf := types.DateTime(time.UnixMilli(d).In(la)).Before(time.UnixMilli(t).In(lb))
	zz := func(x int64) string {
		if x < 0 {
			return fmt.Sprintf("(%d)", x)
		}
		return fmt.Sprint(x)
	}
	s.Add(fmt.Sprintf("CDT %s %s %v", zz(d), zz(t), bf), map[string]any{"op": "datetime", "d": d, "t": t, "before": bf}, class, d != t)
}

// the same segment in positions 2 and 3, beside an unused, a whole-day, an ordinary and a degenerate neighbour: it is accepted
// exactly when it is accepted alone (every neighbour used here is itself acceptable)
func c16segNeighbours(s *Sink, a, b [2]int, alone bool) {
	id := uint32(405419896)
	x := types.Segment{Start: types.NewHHmm(a[0], a[1]), End: types.NewHHmm(b[0], b[1])}
	neighbours := []types.Segment{{}, {Start: types.NewHHmm(0, 0), End: types.NewHHmm(24, 0)}, {Start: types.NewHHmm(8, 30), End: types.NewHHmm(17, 0)}, {Start: types.NewHHmm(24, 0), End: types.NewHHmm(24, 0)}, {Start: types.NewHHmm(12, 0), End: types.NewHHmm(12, 0)}}
	for pos := 1; pos <= 3; pos++ {
		for ni, nb := range neighbours {
			segs := types.Segments{1: nb, 2: nb, 3: nb}
			segs[uint8(pos)] = x
			prof := types.TimeProfile{ID: 29, From: types.Date(civilDate(2024, 1, 1)), To: types.Date(civilDate(2024, 12, 31)), Segments: segs}
			cl := newClient(Cfg{})
			cl.f.script = Script{Kind: "error"}
			safeCall(func() string { cl.u.SetTimeProfile(id, prof); return "" })
			if acc := len(cl.f.calls) == 1; acc != alone {
				s.Fail(map[string]any{"op": "segment", "start": a, "end": b, "position": pos, "neighbour": ni, "accepted": acc, "accepted_alone": alone},
					"a segment is accepted in one position / beside one acceptable neighbour and refused in another")
				return
			}
		}
	}
}

func c16seg(s *Sink, a, b [2]int, class string) {
	id := uint32(405419896)
	segs := types.Segments{1: {Start: types.NewHHmm(a[0], a[1]), End: types.NewHHmm(b[0], b[1])}, 2: {}, 3: {}}
	prof := types.TimeProfile{ID: 29, From: types.Date(civilDate(2024, 1, 1)), To: types.Date(civilDate(2024, 12, 31)), Segments: segs}
	cl := newClient(Cfg{})
	cl.f.script = Script{Kind: "error"}
	safeCall(func() string { cl.u.SetTimeProfile(id, prof); return "" })
	acc := len(cl.f.calls) == 1
	c16segCount++
	if c16segCount%4 == 0 && a[0] >= 0 && a[0] <= 24 && b[0] >= 0 && b[0] <= 24 {
		c16segNeighbours(s, a, b, acc)
	}
	s.Add(fmt.Sprintf("CSeg %s %s %v", z2(a[0], a[1]), z2(b[0], b[1]), acc), map[string]any{"op": "segment", "start": a, "end": b, "accepted": acc}, class, true)
}

func runC16(o Opts) error {
	s := NewSink("C16", o.Out, hdr16, "case16", "model_ok16", "spec_ok16")
	s.ShardSize = 2000
	if o.Replay != "" {
		if err := s.LoadReplay(o.Replay, []string{"op", "a", "b", "d", "t", "start", "end"}); err != nil {
			return err
		}
	}
	r := NewRand(o.Seed, "C16")
	thorough := o.Tier == "thorough"
	// adjacent days across month and year boundaries, both directions, and the day against itself
	for _, y := range []int{1, 2, 1999, 2000, 2023, 2024, 2100, 9998, 9999} {
		for m := 1; m <= 12; m++ {
			last := civilDate(y, m+1, 0).Day()
			for _, d := range []int{1, 2, last - 1, last} {
				t := civilDate(y, m, d)
				n := t.AddDate(0, 0, 1)
				if n.Year() > 9999 {
					continue
				}
				a := [3]int{y, m, d}
				b := [3]int{n.Year(), int(n.Month()), n.Day()}
				c16date(s, a, b, "date/adjacent")
				c16date(s, b, a, "date/adjacent")
				c16date(s, a, a, "date/same")
			}
		}
	}
	n := 3000
	if thorough {
		n = 60000
	}
	for i := 0; i < n; i++ {
		y, m, d := genYMD(r)
		a := [3]int{y, m, d}
		b := a
		switch r.Intn(4) {
		case 0:
			b[r.Intn(3)] = []int{y, m, d}[0]%28 + 1 // perturb one component
			if b[1] > 12 {
				b[1] = 12
			}
		case 1:
			y2, m2, d2 := genYMD(r)
			b = [3]int{y2, m2, d2}
		case 2:
			b[0] = y + r.Intn(3) - 1
			if b[0] < 1 {
				b[0] = 1
			}
			b[1] = 1 + r.Intn(12)
		case 3:
			b[2] = 1 + r.Intn(28)
		}
		if b[2] > 28 {
			b[2] = 28
		}
		c16date(s, a, b, "date/random")
	}
	// HH:mm: all boundaries, then a sample (thorough: every pair of a coarse grid plus a large sample)
	bd := [][2]int{{0, 0}, {0, 1}, {0, 59}, {1, 0}, {11, 59}, {12, 0}, {23, 58}, {23, 59}, {24, 0}, {9, 10}, {10, 9}, {10, 10}}
	for _, a := range bd {
		for _, b := range bd {
			c16hm(s, a, b, "hhmm/boundary")
			c16seg(s, a, b, "segment/boundary")
		}
	}
	hm := func() [2]int {
		k := r.Intn(1441)
		return [2]int{k / 60, k % 60}
	}
	n = 4000
	if thorough {
		n = 150000
	}
	for i := 0; i < n; i++ {
		a, b := hm(), hm()
		if r.Intn(4) == 0 {
			b[0] = a[0]
		}
		c16hm(s, a, b, "hhmm/random")
		if i%10 == 0 {
			c16seg(s, a, b, "segment/random")
		}
	}
	for _, a := range [][2]int{{-1, 0}, {0, -1}, {25, 0}, {24, 1}, {99, 99}} {
		c16hm(s, a, [2]int{12, 0}, "hhmm/out-of-domain")
		c16hm(s, [2]int{12, 0}, a, "hhmm/out-of-domain")
	}
	// date-times around second boundaries
	base := []int64{0, 1, 999, 1000, 1001, 1700000000000, 1700000000999, 1700000001000, 253402300799000, 253402300799999}
	for _, d := range base {
		for _, t := range base {
			c16dt(s, d, t, "datetime/boundary")
		}
		for _, k := range []int64{-1001, -1000, -999, -1, 0, 1, 999, 1000, 1001} {
			if d+k >= 0 {
				c16dt(s, d, d+k, "datetime/second-straddle")
				c16dt(s, d+k, d, "datetime/second-straddle")
			}
		}
	}
	// instants on both sides of, and inside, the hour that occurs twice when clocks go back (2023, three zones)
	for _, zn := range []string{"America/New_York", "Australia/Lord_Howe", "Europe/London"} {
		loc, err := time.LoadLocation(zn)
		if err != nil {
			continue
		}
		_, prev := time.Date(2023, 1, 1, 0, 0, 0, 0, time.UTC).In(loc).Zone()
		for t := time.Date(2023, 1, 1, 0, 0, 0, 0, time.UTC); t.Year() < 2024; t = t.Add(30 * time.Minute) {
			_, off := t.In(loc).Zone()
			if off < prev {
				T := t.UnixMilli()
				pts := []int64{}
				for _, dm := range []int64{-3600000, -1800000, -900000, -100, 0, 100, 900000, 1800000, 3599900, 3600000} {
					pts = append(pts, T+dm)
				}
				for _, a := range pts {
					for _, b := range pts {
						for k := 0; k < len(c16locs); k++ { // every pair of carriers comes round
							c16dt(s, a, b, "datetime/repeated-hour")
						}
					}
				}
			}
			prev = off
		}
	}
	n = 1500
	if thorough {
		n = 30000
	}
	for i := 0; i < n; i++ {
		d := int64(r.U64() % 4102444800000)
		if i%4 == 3 { // any year up to 9999 (beyond the range of a 64-bit nanosecond count, which ends in 2262)
			d = int64(r.U64() % 253402300799000)
		}
		t := d + int64(r.Intn(4001)) - 2000
		if t < 0 {
			t = 0
		}
		c16dt(s, d, t, "datetime/random-near")
	}
	return s.Close()
}
