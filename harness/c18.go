package main

import (
	"encoding/hex"
	"encoding/json"
	"fmt"
	"os"
	"reflect"
	"regexp"
)

func init() { commands["C18"] = runC18 }

const hdr18 = "From Coq Require Import String.\nFrom UV Require Import Base.Bytes Model.WireTypes Model.Codec Model.Interp Model.Cases18 Spec.CodecSpec.\nOpen Scope string_scope.\nOpen Scope N_scope."

var reOffset = regexp.MustCompile(`offset:\s*([0-9]+)`)

func isHeader(f LField) bool { return f.Text == "types.MsgType" || f.Text == "types.SOM" }

// decoded/encoded value list in flattened order; untagged non-header fields are printed as VNil
func valsOf(s reflect.Value, fs []LField, decoded bool) string {
	var out []string
	for _, l := range leaves(fs) {
		if !isHeader(l.F) && reOffset.FindStringSubmatch(l.F.Tag) == nil {
			out = append(out, "VNil")
			continue
		}
		if decoded && l.F.Text == "types.SOM" {
			out = append(out, "(VN 0)")
			continue
		}
		out = append(out, "("+readLeaf(fieldAt(s, l.Path), l.F, decoded)+")")
	}
	return coqList(out)
}

type layoutJSON struct {
	Fields []LField `json:"fields"`
}

func c18marshal(s *Sink, fs []LField, sv reflect.Value, class string) ([]byte, bool) {
	ss, ff := layoutCoq(fs)
	vals := valsOf(sv, fs, false)
	b, cl, msg := safeMarshal(sv.Interface())
	term := fmt.Sprintf("CMarshal %s %s %s %s", ss, ff, vals, coqOutcome(cl, coqBytes(b)))
	js := map[string]any{"op": "marshal", "layout": fs, "values": vals, "outcome": cl, "msg": msg, "out_hex": hexs(b)}
	s.Add(term, js, class, len(fs) > 0)
	return b, cl == "ok"
}

func c18unmarshal(s *Sink, fs []LField, t reflect.Type, buf []byte, class string) {
	ss, ff := layoutCoq(fs)
	p := reflect.New(t)
	in := append([]byte{}, buf...)
	cl, msg := safeUnmarshal(in, p.Interface())
	vals := "[]"
	if cl == "ok" {
		vals = valsOf(p.Elem(), fs, true)
		// aliasing: scribble over the input buffer; decoded values must not change
		for i := range in {
			in[i] ^= 0xa5
		}
		if after := valsOf(p.Elem(), fs, true); after != vals {
			s.Fail(map[string]any{"op": "unmarshal-alias", "layout": fs, "buf_hex": hexs(buf), "before": vals, "after": after},
				"decoded value changed when the input buffer was overwritten afterwards")
		}
	}
	if len(fs) > 0 {
		entryProbe(s, "layout "+ff, t, fs, buf, cl, vals)
	}
	term := fmt.Sprintf("CUnmarshal %s %s %s %s", ss, ff, coqBytes(buf), coqOutcome(cl, vals))
	js := map[string]any{"op": "unmarshal", "layout": fs, "buf_hex": hexs(buf), "outcome": cl, "msg": msg, "values": vals}
	gate := len(buf) == 64 && (buf[0] == 0x17 || (buf[0] == 0x19 && buf[1] == 0x20))
	s.Add(term, js, class, gate && len(fs) > 0)
}

func fillValues(r *Rand, sv reflect.Value, fs []LField, mode int) {
	for _, l := range leaves(fs) {
		genLeaf(r, fieldAt(sv, l.Path), l.F, mode)
	}
}

// marshal a value set, then unmarshal: the output, a one-byte mutation of it, and a random payload
func c18exercise(s *Sink, r *Rand, fs []LField, class string, rounds int) {
	var t reflect.Type
	func() {
		defer func() {
			if rec := recover(); rec != nil {
				t = nil
				fmt.Fprintln(os.Stderr, "buildStruct:", rec)
			}
		}()
		t = buildStruct(fs)
	}()
	if t == nil {
		return
	}
	for i := 0; i < rounds; i++ {
		mode := 0
		cl := class
		if i%3 == 2 {
			mode = 1
			cl = class + "/edge-values"
		}
		sv := reflect.New(t).Elem()
		fillValues(r, sv, fs, mode)
		b, ok := c18marshal(s, fs, sv, cl)
		if ok {
			c18unmarshal(s, fs, t, b, cl+"/decode-of-encode")
			m := append([]byte{}, b...)
			pos := r.Intn(64)
			m[pos] = r.Byte()
			c18unmarshal(s, fs, t, m, cl+"/decode-mutated")
		}
	}
	buf := r.Bytes(64)
	buf[0] = 0x17
	for _, l := range leaves(fs) {
		if l.F.Text == "types.MsgType" {
			if v := regexp.MustCompile(`value:\s*((?:0[xX])?[0-9a-fA-F]+)`).FindStringSubmatch(l.F.Tag); v != nil {
				var x uint64
				fmt.Sscanf(v[1], "%v", &x)
				buf[1] = byte(x)
			}
		}
	}
	c18unmarshal(s, fs, t, buf, class+"/decode-random")
}

func withHeader(code byte, fs ...LField) []LField {
	return append([]LField{{Name: "MsgType", Text: "types.MsgType", Tag: fmt.Sprintf("value:0x%02x", code)}}, fs...)
}

func runC18(o Opts) error {
	s := NewSink("C18", o.Out, hdr18, "case18", "model_ok18", "spec_ok18")
	s.ShardSize = 500
	if o.Replay != "" {
		return c18replay(s, o.Replay)
	}
	r := NewRand(o.Seed, "C18")
	thorough := o.Tier == "thorough"

	// 1. every single-field layout: kind x offset (quick: boundary offsets + 4 random; thorough: all 2..63 and beyond)
	for _, k := range kinds {
		offs := map[int]bool{2: true, 3: true, 64 - k.Width: true, 64 - k.Width - 1: true, 64 - k.Width + 1: true, 63: true, 64: true, 70: true}
		if thorough {
			for o := 0; o <= 66; o++ {
				offs[o] = true
			}
		} else {
			for i := 0; i < 4; i++ {
				offs[2+r.Intn(60)] = true
			}
		}
		for off := 0; off <= 70; off++ {
			if !offs[off] {
				continue
			}
			fs := withHeader(byte(0x20+off), LField{Name: "F", Text: k.Text, Tag: fmt.Sprintf("offset:%d", off)})
			class := "single-field"
			if off+k.Width > 64 || off < 2 {
				class = "single-field/not-wf"
			}
			c18exercise(s, r, fs, class, 3)
		}
	}

	// 2. random packed layouts of 1..12 fields
	n := 60
	if thorough {
		n = 1500
	}
	for i := 0; i < n; i++ {
		fs := randomLayout(r, 1+r.Intn(12), false)
		c18exercise(s, r, withHeader(r.Byte(), fs...), "packed", 3)
	}
	// 3. one level of embedding: header and/or data fields inside the embedded struct
	for i := 0; i < n/2; i++ {
		fs := randomLayout(r, 2+r.Intn(8), false)
		cut := 1 + r.Intn(len(fs))
		inner := append([]LField{}, fs[:cut]...)
		outer := append([]LField{}, fs[cut:]...)
		if len(outer) > 0 && i%3 == 0 { // a field of the embedded struct shadowed by a field of the same name outside it
			inner[len(inner)-1].Name = outer[0].Name
		}
		var L []LField
		switch r.Intn(3) {
		case 0: // header outside, data inside
			L = withHeader(r.Byte(), append([]LField{{Text: "Inner", Embedded: true, Sub: inner}}, outer...)...)
		case 1: // header inside (like EventV6_62: SOM outside, MsgType inside)
			L = append([]LField{{Name: "SOM", Text: "types.SOM", Tag: "value:0x19"}, {Text: "Inner", Embedded: true, Sub: withHeader(0x20, inner...)}}, outer...)
		case 2:
			L = append([]LField{{Text: "Inner", Embedded: true, Sub: withHeader(r.Byte(), inner...)}}, outer...)
		}
		c18exercise(s, r, L, "embedded", 3)
	}
	// 4. tag spellings
	spell := []string{"value:0x55", "value:85", "value:0X55", "value: 0x5A", "value:0xaB", "value:0XAB", "value:171", "value:255", "value:256", "value:0x100", "value:017", "value:0", "value:00", "value:0b11", "value:0x", "value:1f", "value:ff", "value:  7", "xvalue:9", "value:0xfg"}
	for _, sp := range spell {
		c18exercise(s, r, []LField{{Name: "MsgType", Text: "types.MsgType", Tag: sp}, {Name: "A", Text: "uint32", Tag: "offset:8"}}, "tag-spelling/msgtype", 2)
		c18exercise(s, r, withHeader(0x30, LField{Name: "B", Text: "byte", Tag: "offset:9, " + sp}, LField{Name: "A", Text: "uint16", Tag: "offset:12"}), "tag-spelling/byte", 2)
		c18exercise(s, r, []LField{{Name: "SOM", Text: "types.SOM", Tag: sp}, {Name: "MsgType", Text: "types.MsgType", Tag: "value:0x20"}, {Name: "A", Text: "bool", Tag: "offset:8"}}, "tag-spelling/som", 2)
	}
	for _, tg := range []string{"offset: 8", "offset:08", "offset:\t10", "offset:", "offset:x offset:12", "xoffset:9", "", "offset:8 value:0x11"} {
		c18exercise(s, r, withHeader(0x40, LField{Name: "A", Text: "uint8", Tag: tg}), "tag-spelling/offset", 2)
	}
	// 5. unsupported type, missing header, two headers, overlapping fields (model correspondence only)
	c18exercise(s, r, withHeader(0x41, LField{Name: "S", Text: "string", Tag: "offset:8"}), "not-wf/unsupported-type", 2)
	c18exercise(s, r, withHeader(0x41, LField{Name: "S", Text: "string", Tag: ""}), "untagged-field", 2)
	c18exercise(s, r, []LField{{Name: "A", Text: "uint32", Tag: "offset:8"}}, "not-wf/no-header", 2)
	c18exercise(s, r, []LField{{Name: "M", Text: "types.MsgType", Tag: ""}, {Name: "A", Text: "uint32", Tag: "offset:8"}}, "not-wf/untagged-header", 2)
	for i := 0; i < n/4; i++ {
		c18exercise(s, r, withHeader(r.Byte(), randomLayout(r, 2+r.Intn(5), true)...), "not-wf/overlapping", 2)
	}
	// 6. wrong lengths and start-of-message bytes
	fs := withHeader(0x94, LField{Name: "A", Text: "uint32", Tag: "offset:4"}, LField{Name: "B", Text: "bool", Tag: "offset:8"})
	t := buildStruct(fs)
	for _, ln := range []int{0, 1, 2, 8, 63, 65, 128, 1024} {
		b := make([]byte, ln)
		if ln > 1 {
			b[0], b[1] = 0x17, 0x94
		}
		c18unmarshal(s, fs, t, b, "gate/length")
	}
	for _, som := range []byte{0x00, 0x16, 0x17, 0x18, 0x19, 0xff} {
		for _, fn := range []byte{0x94, 0x20} {
			b := make([]byte, 64)
			b[0], b[1] = som, fn
			c18unmarshal(s, fs, t, b, "gate/som")
		}
	}
	return s.Close()
}

// fields at non-overlapping offsets (or deliberately overlapping ones)
func randomLayout(r *Rand, n int, overlap bool) []LField {
	used := make([]bool, 64)
	var fs []LField
	for i := 0; i < n; i++ {
		k := kinds[r.Intn(len(kinds))]
		for try := 0; try < 20; try++ {
			off := 2 + r.Intn(63-k.Width)
			if try < 3 && r.Intn(4) == 0 {
				off = 64 - k.Width
			}
			free := true
			for j := off; j < off+k.Width; j++ {
				if used[j] {
					free = false
				}
			}
			if free || (overlap && try > 0) {
				for j := off; j < off+k.Width; j++ {
					used[j] = true
				}
				fs = append(fs, LField{Name: fmt.Sprintf("F%d", i), Text: k.Text, Tag: fmt.Sprintf("offset:%d", off)})
				break
			}
		}
	}
	return fs
}

func c18replay(s *Sink, path string) error {
	var rp struct {
		Case struct {
			Op     string   `json:"op"`
			Layout []LField `json:"layout"`
			BufHex string   `json:"buf_hex"`
		} `json:"case"`
	}
	b, err := os.ReadFile(path)
	if err != nil {
		return err
	}
	if err := json.Unmarshal(b, &rp); err != nil {
		return err
	}
	fs := rp.Case.Layout
	t := buildStruct(fs)
	r := NewRand(1, "C18-replay")
	if rp.Case.Op == "marshal" {
		// values are regenerated (the layout is what matters for the panic/shape findings)
		for i := 0; i < 20; i++ {
			sv := reflect.New(t).Elem()
			fillValues(r, sv, fs, i%2)
			c18marshal(s, fs, sv, "replay")
		}
	} else {
		buf, _ := hex.DecodeString(rp.Case.BufHex)
		c18unmarshal(s, fs, t, buf, "replay")
	}
	return s.Close()
}
