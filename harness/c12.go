package main

import (
	"encoding/hex"
	"encoding/json"
	"fmt"
	"os"
	"path/filepath"

	"github.com/uhppoted/uhppote-core/encoding/bcd"
)

func init() { commands["C12"] = runC12 }

const hdr12 = "From UV Require Import Base.Bytes Model.Cases12."

func c12enc(s *Sink, in []byte, class string) {
	p, err := bcd.Encode(string(in))
	ok := err == nil && p != nil
	var out []byte
	if ok {
		out = *p
	}
	js := map[string]any{"op": "enc", "in_hex": hexs(in), "ok": ok, "out_hex": hexs(out)}
	s.Add("CEnc "+coqBytes(in)+" "+coqOptBytes(out, ok), js, class, len(in) > 0)
}

func c12dec(s *Sink, in []byte, class string) {
	str, err := bcd.Decode(in)
	ok := err == nil
	js := map[string]any{"op": "dec", "in_hex": hexs(in), "ok": ok, "out_hex": hexs([]byte(str))}
	s.Add("CDec "+coqBytes(in)+" "+coqOptBytes([]byte(str), ok), js, class, len(in) > 0)
}

func c12replayCase(s *Sink, js map[string]any) {
	in, _ := hex.DecodeString(js["in_hex"].(string))
	if js["op"] == "dec" {
		c12dec(s, in, "replay")
	} else {
		c12enc(s, in, "replay")
	}
}

func runC12(o Opts) error {
	s := NewSink("C12", o.Out, hdr12, "case12", "model_ok", "spec_ok")
	s.ShardSize = 2000
	if o.Replay != "" {
		var r struct {
			Case map[string]any `json:"case"`
		}
		b, err := os.ReadFile(o.Replay)
		if err != nil {
			return err
		}
		if err := json.Unmarshal(b, &r); err != nil {
			return err
		}
		c12replayCase(s, r.Case)
		return s.Close()
	}
	// results are freshly allocated: growing or overwriting one result never shows in a later one (Go-side probe)
	for _, in := range []string{"", "12", "2024010112345678", "0"} {
		p1, err1 := bcd.Encode(in)
		if err1 != nil || p1 == nil {
			continue
		}
		want := append([]byte{}, (*p1)...)
		*p1 = append(*p1, 0x99, 0x88)
		for i := range *p1 {
			(*p1)[i] ^= 0xff
		}
		p2, err2 := bcd.Encode(in)
		if err2 != nil || p2 == nil || hexs(*p2) != hexs(want) {
			got := "error"
			if p2 != nil {
				got = hexs(*p2)
			}
			s.Fail(map[string]any{"op": "enc-alias", "in_hex": hexs([]byte(in)), "want": hexs(want), "got": got}, "bcd.Encode returns storage shared between calls: changing one result changed a later one")
		}
	}
	// corpus first
	files, _ := filepath.Glob("corpus/C12/*.json")
	for _, f := range files {
		var js map[string]any
		if b, err := os.ReadFile(f); err == nil && json.Unmarshal(b, &js) == nil {
			c12replayCase(s, js)
		}
	}
	rnd := NewRand(o.Seed, "C12")
	thorough := o.Tier == "thorough"

	// all strings up to L over a 12-symbol alphabet: ten digits, one ASCII non-digit, one byte >= 0x80
	alpha := []byte("0123456789a\xc3")
	L := 3
	if thorough {
		L = 5
	}
	var rec func(prefix []byte)
	rec = func(prefix []byte) {
		c12enc(s, prefix, "enc-exhaustive")
		if len(prefix) == L {
			return
		}
		for _, c := range alpha {
			rec(append(append([]byte{}, prefix...), c))
		}
	}
	rec(nil)
	// boundary characters around '0'..'9', multi-byte and invalid UTF-8
	for _, in := range [][]byte{{'/'}, {':'}, {'0' - 1, '5'}, {'5', '9' + 1}, []byte("12é"), []byte("١٢"), {0xff}, {0xc3}, {0xe2, 0x82}, {'1', 0x80, '2'}, []byte("１２"), {0}, {'1', 0, '2'}} {
		c12enc(s, in, "enc-boundary")
	}
	// runes whose low byte is an ASCII digit (a byte(ch) truncation would take them for digits), alone and inside digit
	// strings; a sample of all other multi-byte runes
	for k := rune(1); k <= 64; k++ {
		for d := rune(0x30); d <= 0x39; d++ {
			ch := k<<8 | d
			c12enc(s, []byte(string(ch)), "enc-rune-low-byte-digit")
			if k%8 == 1 || thorough {
				c12enc(s, []byte("12"+string(ch)+"4"), "enc-rune-low-byte-digit")
				c12enc(s, []byte(string(ch)+"7"), "enc-rune-low-byte-digit")
			}
		}
	}
	for _, ch := range []rune{0x3035, 0xff10, 0xff19, 0x1d7d8, 0x10030, 0x10ff39, 0xfffd, 0x80, 0xff, 0x100, 0x7ff, 0x800, 0xffff, 0x10000} {
		c12enc(s, []byte(string(ch)), "enc-rune-sample")
		c12enc(s, []byte("9"+string(ch)), "enc-rune-sample")
	}
	nr := 200
	if thorough {
		nr = 5000
	}
	for i := 0; i < nr; i++ {
		ch := rune(0x80 + rnd.Intn(0x10ff80))
		if ch >= 0xd800 && ch < 0xe000 {
			continue
		}
		c12enc(s, []byte("1"+string(ch)+"23"), "enc-rune-random")
	}
	// all byte slices up to 1 (2 thorough); sampled beyond
	c12dec(s, []byte{}, "dec-exhaustive")
	for a := 0; a < 256; a++ {
		c12dec(s, []byte{byte(a)}, "dec-exhaustive")
	}
	if thorough {
		for a := 0; a < 256; a++ {
			for b := 0; b < 256; b++ {
				c12dec(s, []byte{byte(a), byte(b)}, "dec-exhaustive")
			}
		}
	}
	n2, n3, nl := 1500, 1500, 300
	if thorough {
		n2, n3, nl = 0, 60000, 4000
	}
	nib := func(valid bool) byte {
		if valid {
			return byte(rnd.Intn(10))
		}
		return byte(rnd.Intn(16))
	}
	for i := 0; i < n2; i++ {
		v := rnd.Intn(4) != 0
		c12dec(s, []byte{nib(v)<<4 | nib(v), nib(v)<<4 | nib(v)}, "dec-2-sampled")
	}
	for i := 0; i < n3; i++ {
		v := rnd.Intn(4) != 0
		c12dec(s, []byte{nib(v)<<4 | nib(v), nib(v)<<4 | nib(v), nib(true)<<4 | nib(v)}, "dec-3-sampled")
	}
	// long random: digit strings with an optional single bad character at a random position
	for i := 0; i < nl; i++ {
		n := 6 + rnd.Intn(60)
		in := make([]byte, n)
		for j := range in {
			in[j] = '0' + byte(rnd.Intn(10))
		}
		class := "enc-long-valid"
		if rnd.Intn(3) == 0 {
			in[rnd.Intn(n)] = rnd.Byte()
			class = "enc-long-one-random-byte"
		}
		c12enc(s, in, class)
		m := 4 + rnd.Intn(30)
		bs := make([]byte, m)
		for j := range bs {
			bs[j] = nib(true)<<4 | nib(true)
		}
		class = "dec-long-valid"
		if rnd.Intn(3) == 0 {
			bs[rnd.Intn(m)] = rnd.Byte()
			class = "dec-long-one-random-byte"
		}
		c12dec(s, bs, class)
	}
	// constants of the library's own source: every string literal as a string to encode, alone and repeated / embedded in
	// digit strings; every byte literal as bytes to decode; few-digit strings (all characters from a 2-3 digit alphabet)
	d := sourceDict()
	for _, lit := range d.Strings {
		if len(lit) <= 24 {
			c12enc(s, []byte(lit), "enc-source-dictionary")
			if allDigits(lit) {
				c12enc(s, []byte(lit+lit+lit+lit), "enc-source-dictionary")
				c12enc(s, []byte("19"+lit+"73"), "enc-source-dictionary")
			}
		}
	}
	for _, b := range d.Bytes {
		c12dec(s, b, "dec-source-dictionary")
	}
	for i := 0; i < 200; i++ {
		alpha := []byte{'0' + byte(rnd.Intn(10)), '0' + byte(rnd.Intn(10)), '0' + byte(rnd.Intn(10))}[:2+rnd.Intn(2)]
		n := 1 + rnd.Intn(40)
		in := make([]byte, n)
		for j := range in {
			in[j] = alpha[rnd.Intn(len(alpha))]
		}
		c12enc(s, in, "enc-few-digits")
		bs := make([]byte, 1+rnd.Intn(20))
		for j := range bs {
			bs[j] = (alpha[rnd.Intn(len(alpha))]-'0')<<4 | (alpha[rnd.Intn(len(alpha))] - '0')
		}
		c12dec(s, bs, "dec-few-digits")
	}
	// very long digit strings (beyond what a case file can carry): decode(encode(s)) is s left-padded to even length,
	// which is the round-trip theorem; odd and even lengths around 10^6 and 2*10^6
	if o.Replay == "" {
		for _, n := range []int{999999, 1000000, 1000001, 2000001} {
			big := make([]byte, n)
			for j := range big {
				big[j] = '0' + byte((j*7+n)%10)
			}
			enc, err := bcd.Encode(string(big))
			want := string(big)
			if n%2 == 1 {
				want = "0" + want
			}
			if err != nil || enc == nil {
				s.Fail(map[string]any{"op": "enc-huge", "length": n}, fmt.Sprintf("Encode refused a string of %d decimal digits: %v", n, err))
				continue
			}
			if dec, derr := bcd.Decode(*enc); derr != nil || dec != want {
				s.Fail(map[string]any{"op": "enc-huge", "length": n}, fmt.Sprintf("decode(encode(s)) differs from s for a string of %d decimal digits", n))
			}
		}
	}
	return s.Close()
}
