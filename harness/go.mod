module verif/harness

go 1.23

require github.com/uhppoted/uhppote-core v0.0.0

replace github.com/uhppoted/uhppote-core => /repo
