package main

import (
	"reflect"
	"time"

	"github.com/uhppoted/uhppote-core/types"
	"github.com/uhppoted/uhppote-core/uhppote"
)

const hdrApi = "From Coq Require Import String.\nFrom UV Require Import Base.Bytes Model.WireTypes Model.Codec Model.Interp Model.Cases18 Model.Ops Model.CasesApi Spec.ApiSpec.\nOpen Scope string_scope.\nOpen Scope N_scope."

// a reply for an operation, encoded with the real codec from generated field values
// mode 0: in-domain values; mode 1: edge values.  set: fields forced to a value (serial number, echoes, sentinels)
func genReply(r *Rand, resp string, id uint32, mode int, set map[string]uint64) []byte {
	if resp == "" {
		b := make([]byte, 64)
		b[0], b[1] = 0x17, 0x96
		b[4], b[5], b[6], b[7] = byte(id), byte(id>>8), byte(id>>16), byte(id>>24)
		return b
	}
	t := msgTypes[resp]
	fs := layoutOfType(t)
	sv := reflect.New(t).Elem()
	fillValues(r, sv, fs, mode)
	sv.FieldByName("SerialNumber").Set(reflect.ValueOf(types.SerialNumber(id)))
	for k, v := range set {
		f := sv.FieldByName(k)
		if f.IsValid() && f.CanSet() {
			switch f.Kind() {
			case reflect.Uint8, reflect.Uint16, reflect.Uint32:
				f.SetUint(v)
			case reflect.Bool:
				f.SetBool(v != 0)
			}
		}
	}
	b, cl, _ := safeMarshal(sv.Interface())
	if cl != "ok" {
		b = make([]byte, 64)
		b[0] = 0x17
	}
	return b
}

// run one call on a (possibly shared) client and record the case
func apiCase(s *Sink, cfg Cfg, oc OpCase, sc Script, class string, cl *clientState, nontrivial bool) string {
	if cl == nil {
		f := &fakeDriver{}
		cl = &clientState{f: f, u: cfg.client(f)}
	}
	cl.f.script = sc
	cl.f.calls = nil
	lastValue = nil
	res := safeCall(func() string { return oc.Run(cl.u) })
	calls := cl.f.calls
	// every sixth call: the caller overwrites everything reachable from the returned value, then makes the same call
	// again - the second result is the same (no storage shared between the results of different calls)
	apiCaseCount++
	if v := lastValue; v != nil && apiCaseCount%6 == 0 && res != "RPanic" {
		func() {
			defer func() { recover() }()
			scribbleValue(reflect.ValueOf(v), 0)
		}()
		cl.f.calls = nil
		if res2 := safeCall(func() string { return oc.Run(cl.u) }); res2 != res {
			s.Fail(map[string]any{"op": oc.Name, "opcoq": oc.Coq, "cfgcoq": cfg.coq(), "script": sc.coq(), "first": res, "second": res2},
				"the same call returned a different result after the caller had overwritten the value returned by the first call (results share storage)")
		}
	}
	term := "CApi " + cfg.coq() + " (" + oc.Coq + ") " + sc.coq() + " " + res + " " + callsCoq(calls)
	js := map[string]any{"op": oc.Name, "opcoq": oc.Coq, "cfg": cfg.json(), "cfgcoq": cfg.coq(), "script": sc.coq(), "result": res, "calls": callsCoq(calls)}
	s.Add(term, js, class, nontrivial)
	return res
}

type clientState struct {
	f *fakeDriver
	u uhppote.IUHPPOTE
}

func newClient(cfg Cfg) *clientState {
	f := &fakeDriver{}
	return &clientState{f: f, u: cfg.client(f)}
}

var apiCaseCount int

// overwrite every slice element and map entry reachable from v (what a caller may legitimately do with a result)
func scribbleValue(v reflect.Value, depth int) {
	if !v.IsValid() || depth > 6 {
		return
	}
	switch v.Kind() {
	case reflect.Pointer, reflect.Interface:
		if !v.IsNil() {
			scribbleValue(v.Elem(), depth+1)
		}
	case reflect.Struct:
		if v.Type() == reflect.TypeOf(time.Time{}) {
			return
		}
		for i := 0; i < v.NumField(); i++ {
			if v.Type().Field(i).IsExported() {
				scribbleValue(v.Field(i), depth+1)
			}
		}
	case reflect.Slice, reflect.Array:
		for i := 0; i < v.Len(); i++ {
			e := v.Index(i)
			switch e.Kind() {
			case reflect.Uint8, reflect.Uint16, reflect.Uint32, reflect.Uint64, reflect.Uint:
				if e.CanSet() {
					e.SetUint(e.Uint() ^ 0x5a)
				}
			case reflect.String:
				if e.CanSet() {
					e.SetString("scribbled")
				}
			default:
				scribbleValue(e, depth+1)
			}
		}
	case reflect.Map:
		for _, k := range v.MapKeys() {
			scribbleValue(v.MapIndex(k), depth+1)
			v.SetMapIndex(k, reflect.Value{}) // delete
		}
	}
}

// What a call returns depends on the reply, not on how long the reply took: every operation once with an immediate answer and
// once (all of them concurrently, each on its own client) with the same answer arriving after 2.3 s.
func latencyProbe(s *Sink, r *Rand) {
	type job struct {
		oc    OpCase
		sc    Script
		fast  string
		slow  string
		calls string
	}
	jobs := []*job{}
	for w := 0; w < nOps; w++ {
		id := genID(r)
		oc := genOp(r, w, id, false)
		if oc.Resp == "" {
			continue
		}
		reply := genReply(r, oc.Resp, id, 0, nil)
		jobs = append(jobs, &job{oc: oc, sc: Script{Kind: "datagrams", Datagrams: [][]byte{reply}}})
	}
	for _, j := range jobs {
		cl := newClient(Cfg{})
		cl.f.script = j.sc
		j.fast = safeCall(func() string { return j.oc.Run(cl.u) })
	}
	done := make(chan struct{}, len(jobs))
	noLastValue = true // (the aliasing probe's global is not for concurrent use)
	defer func() { noLastValue = false }()
	for _, j := range jobs {
		j := j
		go func() {
			defer func() { done <- struct{}{} }()
			cl := newClient(Cfg{})
			cl.f.script = j.sc
			cl.f.delay = 2300 * time.Millisecond
			j.slow = safeCall(func() string { return j.oc.Run(cl.u) })
		}()
	}
	for range jobs {
		<-done
	}
	for _, j := range jobs {
		if j.fast != j.slow {
			s.Fail(map[string]any{"op": j.oc.Name, "opcoq": j.oc.Coq, "script": j.sc.coq(), "immediate": j.fast, "after_2300ms": j.slow},
				"the same reply gives a different result when it arrives after 2.3 s than when it arrives at once")
		}
	}
	s.Extra["latency_probe_operations"] = len(jobs)
}

// The zone a controller is CONFIGURED with does not change what a call reports: every date-time bearing operation, with the
// reply's timestamps inside the skipped hour of that zone (process zone UTC), returns what it returns for a controller
// configured with UTC.
func deviceZoneProbe(s *Sink, r *Rand) {
	old := time.Local
	time.Local = time.UTC
	defer func() { time.Local = old }()
	bcd := func(v int) byte { return byte(v/10<<4 | v%10) }
	n := 0
	for _, z := range []string{"America/New_York", "Europe/London", "Australia/Lord_Howe", "America/Santiago", "Pacific/Apia"} {
		loc, err := time.LoadLocation(z)
		if err != nil {
			continue
		}
		_, prev := time.Date(2021, 1, 1, 0, 0, 0, 0, time.UTC).In(loc).Zone()
		for t := time.Date(2021, 1, 1, 0, 0, 0, 0, time.UTC); t.Year() < 2022; t = t.Add(30 * time.Minute) {
			_, off := t.In(loc).Zone()
			if off > prev {
				w := t.Add(time.Duration(prev)*time.Second + time.Duration(off-prev)*time.Second/2)
				stamp := []byte{0x20, bcd(w.Year() % 100), bcd(int(w.Month())), bcd(w.Day()), bcd(w.Hour()), bcd(w.Minute()), bcd(w.Second())}
				for k := 0; k < nOps; k++ {
					id := genID(r)
					oc := genOp(r, k, id, false)
					if oc.Resp == "" {
						continue
					}
					reply := genReply(r, oc.Resp, id, 0, nil)
					touched := false
					for _, f := range replyFields(oc.Resp) {
						switch f.Text {
						case "types.DateTime", "*types.DateTime":
							copy(reply[f.Off:], stamp)
							touched = true
						case "types.SystemDate":
							copy(reply[f.Off:], stamp[1:4])
							touched = true
						case "types.SystemTime":
							copy(reply[f.Off:], stamp[4:7])
							touched = true
						}
					}
					if !touched {
						continue
					}
					run := func(tz *time.Location) string {
						cl := newClient(Cfg{Devices: []DevCfg{{ID: id, Name: "z", Proto: "udp", TZ: tz}}})
						cl.f.script = Script{Kind: "datagrams", Datagrams: [][]byte{reply}}
						return safeCall(func() string { return oc.Run(cl.u) })
					}
					a, b := run(time.UTC), run(loc)
					n++
					if a != b {
						s.Fail(map[string]any{"op": oc.Name, "opcoq": oc.Coq, "tz": z, "reply": hexs(reply), "configured_utc": a, "configured_zone": b},
							"the result of a call depends on the zone the controller is configured with (timestamp inside that zone's skipped hour)")
					}
				}
			}
			prev = off
		}
	}
	s.Extra["device_zone_probe_calls"] = n
}
