package main

import (
	"fmt"
	"net"
	"net/netip"
	"reflect"
	"strconv"
	"strings"
	"time"

	codec "github.com/uhppoted/uhppote-core/encoding/UTO311-L0x"
	"github.com/uhppoted/uhppote-core/types"
)

// ---- field kinds (type text as the translator prints it) ----

type kindSpec struct {
	Text  string
	Type  reflect.Type
	Width int
}

var kinds = []kindSpec{
	{"uint8", reflect.TypeOf(uint8(0)), 1},
	{"uint16", reflect.TypeOf(uint16(0)), 2},
	{"uint32", reflect.TypeOf(uint32(0)), 4},
	{"bool", reflect.TypeOf(false), 1},
	{"net.IP", reflect.TypeOf(net.IP{}), 4},
	{"netip.AddrPort", reflect.TypeOf(netip.AddrPort{}), 6},
	{"net.HardwareAddr", reflect.TypeOf(net.HardwareAddr{}), 6},
	{"types.MacAddress", reflect.TypeOf(types.MacAddress{}), 6},
	{"types.SerialNumber", reflect.TypeOf(types.SerialNumber(0)), 4},
	{"types.Date", reflect.TypeOf(types.Date{}), 4},
	{"*types.Date", reflect.TypeOf(&types.Date{}), 4},
	{"types.DateTime", reflect.TypeOf(types.DateTime{}), 7},
	{"*types.DateTime", reflect.TypeOf(&types.DateTime{}), 7},
	{"types.SystemDate", reflect.TypeOf(types.SystemDate{}), 3},
	{"types.SystemTime", reflect.TypeOf(types.SystemTime{}), 3},
	{"types.HHmm", reflect.TypeOf(types.HHmm{}), 2},
	{"*types.HHmm", reflect.TypeOf(&types.HHmm{}), 2},
	{"types.PIN", reflect.TypeOf(types.PIN(0)), 3},
	{"types.Version", reflect.TypeOf(types.Version(0)), 2},
}

var tMsgType = reflect.TypeOf(types.MsgType(0))
var tSOM = reflect.TypeOf(types.SOM(0))

func kindByText(t string) *kindSpec {
	if t == "byte" {
		t = "uint8"
	}
	for i := range kinds {
		if kinds[i].Text == t {
			return &kinds[i]
		}
	}
	return nil
}

func typeText(t reflect.Type) string {
	switch t {
	case tMsgType:
		return "types.MsgType"
	case tSOM:
		return "types.SOM"
	}
	for _, k := range kinds {
		if k.Type == t {
			return k.Text
		}
	}
	return t.String()
}

// ---- layout descriptors ----

type LField struct {
	Name     string
	Text     string // Go type text
	Tag      string // raw uhppote tag
	Embedded bool
	Sub      []LField // fields of the embedded struct
}

func (f LField) coq() string {
	return fmt.Sprintf("(%s, %s, %v, %s)", coqString(f.Name), coqString(f.Text), f.Embedded, coqString(f.Tag))
}

func coqString(s string) string { return "\"" + strings.ReplaceAll(s, "\"", "\"\"") + "\"" }

// Coq terms for (structs, fields) of a layout: embedded structs are named E<i>
func layoutCoq(fs []LField) (string, string) {
	structs := []string{}
	fields := []string{}
	for _, f := range fs {
		fields = append(fields, f.coq())
		if f.Embedded {
			sub := []string{}
			for _, g := range f.Sub {
				sub = append(sub, g.coq())
			}
			structs = append(structs, fmt.Sprintf("(%s, %s)", coqString(f.Text), coqList(sub)))
		}
	}
	return coqList(structs), coqList(fields)
}

func fieldType(f LField) reflect.Type {
	if f.Embedded {
		return buildStruct(f.Sub)
	}
	switch f.Text {
	case "types.MsgType":
		return tMsgType
	case "types.SOM":
		return tSOM
	case "string": // an unsupported type
		return reflect.TypeOf("")
	case "int64":
		return reflect.TypeOf(int64(0))
	}
	return kindByText(f.Text).Type
}

func buildStruct(fs []LField) reflect.Type {
	sf := make([]reflect.StructField, len(fs))
	for i, f := range fs {
		name := f.Name
		if f.Embedded {
			name = "Inner" + strconv.Itoa(i)
		}
		sf[i] = reflect.StructField{Name: name, Type: fieldType(f), Anonymous: f.Embedded}
		if f.Tag != "" {
			sf[i].Tag = reflect.StructTag(`uhppote:` + strconv.Quote(f.Tag))
		}
	}
	return reflect.StructOf(sf)
}

// flattened leaf fields in marshal order, with accessors
type leaf struct {
	F    LField
	Path []int
}

func leaves(fs []LField) []leaf {
	var out []leaf
	for i, f := range fs {
		if f.Embedded {
			for j, g := range f.Sub {
				out = append(out, leaf{g, []int{i, j}})
			}
		} else {
			out = append(out, leaf{f, []int{i}})
		}
	}
	return out
}

// layout of a real struct type (package messages), same shape as the translator's output
func layoutOfType(t reflect.Type) []LField {
	var fs []LField
	for i := 0; i < t.NumField(); i++ {
		sf := t.Field(i)
		f := LField{Name: sf.Name, Tag: sf.Tag.Get("uhppote"), Embedded: sf.Anonymous}
		if sf.Anonymous {
			f.Text = sf.Type.Name()
			f.Name = ""
			f.Sub = layoutOfType(sf.Type)
		} else {
			f.Text = typeText(sf.Type)
		}
		fs = append(fs, f)
	}
	return fs
}

// ---- values ----

func civilDate(y, m, d int) time.Time { return time.Date(y, time.Month(m), d, 0, 0, 0, 0, time.UTC) }

func zs(xs ...int) string {
	parts := make([]string, len(xs))
	for i, x := range xs {
		if x < 0 {
			parts[i] = fmt.Sprintf("(%d)", x)
		} else {
			parts[i] = fmt.Sprintf("%d", x)
		}
	}
	return strings.Join(parts, " ")
}

func hhmmFields(h types.HHmm) (int, int) {
	s := h.String()
	i := strings.LastIndex(s, ":")
	a, _ := strconv.Atoi(s[:i])
	b, _ := strconv.Atoi(s[i+1:])
	return a, b
}

// Coq fval of a field value as it sits in the struct (no canonicalisation except IP on the decode side)
func readLeaf(v reflect.Value, f LField, decoded bool) string {
	switch f.Text {
	case "types.MsgType", "types.SOM", "uint8", "byte", "uint16", "uint32", "types.SerialNumber", "types.PIN", "types.Version":
		return fmt.Sprintf("VN %d", v.Uint())
	case "bool":
		return "VB " + coqBool(v.Bool())
	case "net.IP":
		ip := v.Interface().(net.IP)
		if decoded {
			if ip4 := ip.To4(); ip4 != nil {
				ip = ip4
			}
		}
		return "VIP " + coqBytes(ip)
	case "netip.AddrPort":
		ap := v.Interface().(netip.AddrPort)
		if !ap.IsValid() {
			return "VAP None"
		}
		return fmt.Sprintf("VAP (Some (%s, %d))", coqBytes(ap.Addr().AsSlice()), ap.Port())
	case "net.HardwareAddr":
		return "VMAC " + coqBytes(v.Interface().(net.HardwareAddr))
	case "types.MacAddress":
		return "VMAC " + coqBytes(v.Interface().(types.MacAddress))
	case "types.Date":
		t := time.Time(v.Interface().(types.Date))
		return "VDate " + zs(t.Year(), int(t.Month()), t.Day())
	case "*types.Date":
		if v.IsNil() {
			return "VNil"
		}
		t := time.Time(*v.Interface().(*types.Date))
		return "VDate " + zs(t.Year(), int(t.Month()), t.Day())
	case "types.DateTime":
		t := time.Time(v.Interface().(types.DateTime))
		return "VDateTime " + zs(t.Year(), int(t.Month()), t.Day(), t.Hour(), t.Minute(), t.Second())
	case "*types.DateTime":
		if v.IsNil() {
			return "VNil"
		}
		t := time.Time(*v.Interface().(*types.DateTime))
		return "VDateTime " + zs(t.Year(), int(t.Month()), t.Day(), t.Hour(), t.Minute(), t.Second())
	case "types.SystemDate":
		t := time.Time(v.Interface().(types.SystemDate))
		return "VSysDate " + zs(t.Year(), int(t.Month()), t.Day())
	case "types.SystemTime":
		t := time.Time(v.Interface().(types.SystemTime))
		return "VSysTime " + zs(t.Hour(), t.Minute(), t.Second())
	case "types.HHmm":
		h, m := hhmmFields(v.Interface().(types.HHmm))
		return "VHHmm " + zs(h, m)
	case "*types.HHmm":
		if v.IsNil() {
			return "VNil"
		}
		h, m := hhmmFields(*v.Interface().(*types.HHmm))
		return "VHHmm " + zs(h, m)
	}
	return "VNil"
}

var pool32 = []uint32{0, 1, 2, 255, 256, 65535, 65536, 0xffffff, 0x1000000, 0xffffffff, 0xfffffffe, 0x01020304, 0x80000000, 999999, 1000000, 405419896, 0x55aaaa55}

// a 32-bit value built byte by byte from the bytes masks and comparisons tend to single out (so that, say, "low 24 bits
// all ones" or "top byte zero" is met with any value of the remaining bytes)
func patternU32(r *Rand) uint32 {
	var v uint32
	if r.Intn(2) == 0 { // the k low (or high) bytes all ones or all zero, the rest arbitrary
		k := uint(8 * (1 + r.Intn(3)))
		x := r.U32()
		switch r.Intn(4) {
		case 0:
			return x | (1<<k - 1)
		case 1:
			return x &^ (1<<k - 1)
		case 2:
			return x | ^uint32(0)<<(32-k)
		}
		return x &^ (^uint32(0) << (32 - k))
	}
	for i := 0; i < 4; i++ {
		b := []uint32{0x00, 0xff, 0x01, 0x7f, 0x80, 0xfe}[r.Intn(6)]
		if r.Intn(4) == 0 {
			b = uint32(r.Byte())
		}
		v |= b << uint(8*i)
	}
	return v
}

func genU32(r *Rand) uint32 {
	switch r.Intn(4) {
	case 3:
		return patternU32(r)
	}
	switch r.Intn(3) {
	case 0:
		if r.Intn(4) == 0 { // derived from a number the source itself names
			if v, ok := dictU32(r); ok {
				return v
			}
		}
		return pool32[r.Intn(len(pool32))]
	case 1:
		return uint32(1) << uint(r.Intn(32))
	}
	return r.U32()
}

var yearPool = []int{1, 2, 999, 1000, 1969, 1999, 2000, 2024, 2068, 2069, 9999}

func genYMD(r *Rand) (int, int, int) {
	if ds := sourceDict().Dates; len(ds) > 0 && r.Intn(12) == 0 { // a date the source itself names
		t := ds[r.Intn(len(ds))]
		if !(t.Year() == 1 && t.Month() == 1 && t.Day() == 1) {
			return t.Year(), int(t.Month()), t.Day()
		}
	}
	if r.Intn(6) == 0 { // the two days around a year end (leap and common years): day 366 / day 1
		y := []int{2024, 2020, 2000, 2023, 1999, 2028, 2100}[r.Intn(7)]
		if r.Intn(2) == 0 {
			return y, 12, 31
		}
		return y + 1, 1, 1
	}
	if r.Intn(12) == 0 { // all eight digits from a two- or three-digit alphabet
		if ft, ok := fewDigitDateTime(r); ok && !(ft.Year() == 1 && ft.Month() == 1 && ft.Day() == 1) {
			return ft.Year(), int(ft.Month()), ft.Day()
		}
	}
	if r.Intn(10) == 0 { // leap days (century years included) and the days around them
		y := []int{2000, 2004, 2024, 1972, 2068, 2400, 1600, 2096, 4, 9996}[r.Intn(10)]
		md := [][2]int{{2, 29}, {2, 29}, {2, 28}, {3, 1}}[r.Intn(4)]
		return y, md[0], md[1]
	}
	y := yearPool[r.Intn(len(yearPool))]
	if r.Intn(2) == 0 {
		y = 1 + r.Intn(9999)
	}
	m := 1 + r.Intn(12)
	d := 1 + r.Intn(28)
	if r.Intn(3) == 0 {
		last := civilDate(y, m+1, 0).Day()
		d = []int{1, 9, 10, 28, last}[r.Intn(5)]
	}
	if y == 1 && m == 1 && d == 1 {
		d = 2
	}
	return y, m, d
}

// in-domain value (mode 0) or an edge / out-of-domain value (mode 1) for a field
func genLeaf(r *Rand, v reflect.Value, f LField, mode int) {
	edge := mode == 1 && r.Intn(2) == 0
	switch f.Text {
	case "types.MsgType", "types.SOM":
		v.SetUint(uint64(r.Byte()))
	case "uint8", "byte":
		v.SetUint(uint64(r.Byte()))
	case "uint16":
		v.SetUint(uint64(genU32(r) & 0xffff))
	case "uint32", "types.SerialNumber":
		v.SetUint(uint64(genU32(r)))
	case "types.PIN":
		if edge {
			v.SetUint(uint64(genU32(r)))
		} else {
			v.SetUint(uint64(genU32(r) % 1000000))
		}
	case "types.Version":
		v.SetUint(uint64(genU32(r) & 0xffff))
	case "bool":
		v.SetBool(r.Bool())
	case "net.IP":
		ip := net.IPv4(r.Byte(), r.Byte(), r.Byte(), r.Byte())
		if r.Bool() {
			ip = ip.To4()
		}
		if edge {
			switch r.Intn(4) {
			case 0:
				ip = nil
			case 1:
				ip = net.IP(r.Bytes(16))
			case 2:
				ip = net.IP(r.Bytes(r.Intn(8)))
			case 3:
				ip = net.IP{}
			}
		}
		v.Set(reflect.ValueOf(ip))
	case "netip.AddrPort":
		ap := netip.AddrPortFrom(netip.AddrFrom4([4]byte{r.Byte(), r.Byte(), r.Byte(), r.Byte()}), uint16(genU32(r)))
		if r.Intn(5) == 0 { // the addresses code tends to special-case, with any port
			ap = netip.AddrPortFrom(netip.AddrFrom4([][4]byte{{0, 0, 0, 0}, {255, 255, 255, 255}, {0, 0, 0, 1}, {127, 0, 0, 1}}[r.Intn(4)]), uint16([]int{0, 1, 256, 60000, 60001, 65535}[r.Intn(6)]))
		}
		if edge {
			switch r.Intn(4) {
			case 0:
				ap = netip.AddrPort{}
			case 1:
				var a [16]byte
				copy(a[:], r.Bytes(16))
				ap = netip.AddrPortFrom(netip.AddrFrom16(a), uint16(r.U32()))
			case 2:
				ap = netip.AddrPortFrom(netip.AddrFrom16([16]byte{0, 0, 0, 0, 0, 0, 0, 0, 0, 0, 0xff, 0xff, 1, 2, 3, 4}), 60000)
			case 3:
				ap = netip.AddrPortFrom(netip.IPv4Unspecified(), 0)
			}
		}
		v.Set(reflect.ValueOf(ap))
	case "net.HardwareAddr", "types.MacAddress":
		n := 6
		if edge {
			n = r.Intn(10)
		}
		b := r.Bytes(n)
		if edge && r.Intn(4) == 0 {
			b = nil
		}
		if f.Text == "net.HardwareAddr" {
			v.Set(reflect.ValueOf(net.HardwareAddr(b)))
		} else {
			v.Set(reflect.ValueOf(types.MacAddress(b)))
		}
	case "types.Date", "*types.Date":
		y, m, d := genYMD(r)
		t := civilDate(y, m, d)
		if edge {
			switch r.Intn(4) {
			case 0:
				t = time.Time{}
			case 1:
				t = civilDate(10000+r.Intn(5), m, d)
			case 2:
				t = civilDate(0, m, d)
			case 3:
				t = civilDate(-1-r.Intn(3), m, d)
			}
		}
		dt := types.Date(t)
		if f.Text == "types.Date" {
			v.Set(reflect.ValueOf(dt))
		} else if mode == 1 && r.Intn(3) == 0 {
			v.Set(reflect.Zero(v.Type()))
		} else {
			v.Set(reflect.ValueOf(&dt))
		}
	case "types.DateTime", "*types.DateTime":
		y, m, d := genYMD(r)
		t := time.Date(y, time.Month(m), d, r.Intn(24), r.Intn(60), r.Intn(60), 0, time.UTC)
		if r.Intn(8) == 0 { // round times of day
			t = time.Date(y, time.Month(m), d, []int{0, 0, 12, 23}[r.Intn(4)], []int{0, 59}[r.Intn(2)], []int{0, 59}[r.Intn(2)], 0, time.UTC)
		}
		if ds := sourceDict().DateTimes; len(ds) > 0 && r.Intn(8) == 0 { // a date-time the source itself names
			t = ds[r.Intn(len(ds))]
		}
		if r.Intn(8) == 0 { // all fourteen digits from a two- or three-digit alphabet
			if ft, ok := fewDigitDateTime(r); ok {
				t = ft
			}
		}
		if edge {
			switch r.Intn(3) {
			case 0:
				t = time.Time{}
			case 1:
				t = time.Date(10000, 1, 1, 1, 1, 1, 0, time.UTC)
			case 2:
				t = time.Date(2000, 1, 1, 0, 0, 0, 0, time.UTC)
			}
		}
		dt := types.DateTime(t)
		if f.Text == "types.DateTime" {
			v.Set(reflect.ValueOf(dt))
		} else if mode == 1 && r.Intn(3) == 0 {
			v.Set(reflect.Zero(v.Type()))
		} else {
			v.Set(reflect.ValueOf(&dt))
		}
	case "types.SystemDate":
		y := 1969 + r.Intn(100)
		if r.Intn(3) == 0 {
			y = []int{1969, 1999, 2000, 2068}[r.Intn(4)]
		}
		_, m, d := genYMD(r)
		if last := civilDate(y, m+1, 0).Day(); d > last {
			d = last
		}
		if r.Intn(8) == 0 { // leap days of the two-digit-year window, 2000-02-29 among them
			y, m, d = []int{2000, 2000, 1972, 2024, 2068, 1996}[r.Intn(6)], 2, 29
		}
		t := civilDate(y, m, d)
		if edge {
			switch r.Intn(3) {
			case 0:
				t = time.Time{}
			case 1:
				t = civilDate(2069+r.Intn(100), m, d)
			case 2:
				t = civilDate(1900+r.Intn(69), m, d)
			}
		}
		v.Set(reflect.ValueOf(types.SystemDate(t)))
	case "types.SystemTime":
		t := time.Date(0, 1, 1, r.Intn(24), r.Intn(60), r.Intn(60), 0, time.UTC)
		v.Set(reflect.ValueOf(types.SystemTime(t)))
	case "types.HHmm", "*types.HHmm":
		h, m := r.Intn(24), r.Intn(60)
		if r.Intn(6) == 0 {
			h, m = 24, 0
		}
		if edge {
			h = []int{-1, 24, 25, 99, 100, 7}[r.Intn(6)]
			m = []int{-1, 59, 60, 61, 99, 100, 30}[r.Intn(7)]
		}
		hm := types.NewHHmm(h, m)
		if f.Text == "types.HHmm" {
			v.Set(reflect.ValueOf(hm))
		} else if mode == 1 && r.Intn(3) == 0 {
			v.Set(reflect.Zero(v.Type()))
		} else {
			v.Set(reflect.ValueOf(&hm))
		}
	}
}

func fieldAt(s reflect.Value, path []int) reflect.Value {
	v := s
	for _, i := range path {
		v = v.Field(i)
	}
	return v
}

// ---- running the codec with panic capture ----

func safeMarshal(m any) (b []byte, class string, msg string) {
	defer func() {
		if r := recover(); r != nil {
			b, class, msg = nil, "panic", fmt.Sprint(r)
		}
	}()
	out, err := codec.Marshal(m)
	if err != nil {
		return nil, "err", err.Error()
	}
	return out, "ok", ""
}

func safeUnmarshal(b []byte, ptr any) (class string, msg string) {
	defer func() {
		if r := recover(); r != nil {
			class, msg = "panic", fmt.Sprint(r)
		}
	}()
	if err := codec.Unmarshal(b, ptr); err != nil {
		return "err", err.Error()
	}
	return "ok", ""
}

func coqOutcome(class, payload string) string {
	switch class {
	case "ok":
		return "(Ok " + payload + ")"
	case "err":
		return "Err"
	}
	return "Panic"
}

func leafVals(s reflect.Value, fs []LField, decoded bool) []string {
	var out []string
	for _, l := range leaves(fs) {
		out = append(out, "("+readLeaf(fieldAt(s, l.Path), l.F, decoded)+")")
	}
	return out
}
