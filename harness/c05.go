package main

import (
	"encoding/hex"
	"encoding/json"
	"fmt"
	"net"
	"os"
	"reflect"
	"regexp"
	"sort"
	"strings"
	"time"

	codec "github.com/uhppoted/uhppote-core/encoding/UTO311-L0x"
	"github.com/uhppoted/uhppote-core/messages"
	"github.com/uhppoted/uhppote-core/types"
)

func init() { commands["C05"] = runC05 }

const hdr05 = "From Coq Require Import String.\nFrom UV Require Import Base.Bytes Model.WireTypes Model.Codec Model.Interp Model.Cases18 Model.Messages Model.Cases05 Spec.CodecSpec.\nOpen Scope string_scope.\nOpen Scope N_scope."

var quickZones = []string{"UTC", "Etc/GMT-14", "Etc/GMT+12", "Asia/Kathmandu", "America/Santiago", "Europe/London", "Australia/Lord_Howe", "America/St_Johns", "Pacific/Apia", "Asia/Tehran", "Africa/Cairo", "America/New_York"}

func genNames() []string {
	b, err := os.ReadFile("coq/Gen/Layouts.v")
	if err != nil {
		return nil
	}
	var out []string
	for _, m := range regexp.MustCompile(`(?m)^\s*\("(\w+)", \[`).FindAllStringSubmatch(string(b), -1) {
		out = append(out, m[1])
	}
	return out
}

// does every date-time / date leaf hold a civil time that exists in the current time.Local ?
func existsLocally(sv reflect.Value, fs []LField) bool {
	for _, l := range leaves(fs) {
		v := fieldAt(sv, l.Path)
		var t time.Time
		switch l.F.Text {
		case "types.DateTime":
			t = time.Time(v.Interface().(types.DateTime))
		case "*types.DateTime":
			if v.IsNil() {
				continue
			}
			t = time.Time(*v.Interface().(*types.DateTime))
		default:
			continue
		}
		if t.IsZero() {
			continue
		}
		u := time.Date(t.Year(), t.Month(), t.Day(), t.Hour(), t.Minute(), t.Second(), 0, time.Local)
		if u.Year() != t.Year() || u.Month() != t.Month() || u.Day() != t.Day() || u.Hour() != t.Hour() || u.Minute() != t.Minute() || u.Second() != t.Second() {
			return false
		}
	}
	return true
}

func c05msg(s *Sink, r *Rand, name string, t reflect.Type, zone string, rounds int) {
	fs := layoutOfType(t)
	for i := 0; i < rounds; i++ {
		mode := 0
		cl := "msg"
		if i%4 == 3 {
			mode, cl = 1, "msg/edge-values"
		}
		sv := reflect.New(t).Elem()
		for try := 0; try < 5; try++ {
			fillValues(r, sv, fs, mode)
			if existsLocally(sv, fs) {
				break
			}
		}
		if !existsLocally(sv, fs) {
			continue
		}
		vals := valsOf(sv, fs, false)
		b, ocl, msg := safeMarshal(sv.Interface())
		s.Add(fmt.Sprintf("CM (CMsgMarshal %s %s %s)", coqString(name), vals, coqOutcome(ocl, coqBytes(b))),
			map[string]any{"op": "msg-marshal", "type": name, "tz": zone, "values": vals, "outcome": ocl, "msg": msg, "out_hex": hexs(b)}, cl, true)
		if ocl == "ok" {
			// the encoder hands out fresh storage: overwriting one encoding does not change the next one of the same value
			keep := append([]byte{}, b...)
			for j := range b {
				b[j] ^= 0xff
			}
			if b3, c3, _ := safeMarshal(sv.Interface()); c3 != "ok" || hexs(b3) != hexs(keep) {
				s.Fail(map[string]any{"op": "msg-marshal-alias", "type": name, "tz": zone, "values": vals, "first": hexs(keep), "second": hexs(b3)}, "encoding the same message again after the first encoding was overwritten gives different bytes")
			}
			b = keep
			c05unmarshal(s, name, t, fs, b, zone, cl+"/decode-of-encode")
			if mode == 0 { // in-domain values: the decoded message is the encoded one, field by field (judged on the Go side,
				// so that a message layout the model refuses as ill-formed still yields a concrete failing value)
				p := reflect.New(t)
				if c2, _ := safeUnmarshal(append([]byte{}, b...), p.Interface()); c2 == "ok" {
					want, got := leafStrings(sv, fs), leafStrings(p.Elem(), fs)
					for k := range want {
						if k < len(got) && want[k] != got[k] {
							s.Fail(map[string]any{"op": "msg-roundtrip", "type": name, "tz": zone, "values": vals, "field": leaves(fs)[k].F.Name, "encoded": want[k], "decoded": got[k], "out_hex": hexs(b)},
								fmt.Sprintf("decode(encode(v)) differs from v in field %s of %s", leaves(fs)[k].F.Name, name))
							break
						}
					}
				}
			}
			m := append([]byte{}, b...)
			m[2+r.Intn(62)] = r.Byte()
			c05unmarshal(s, name, t, fs, m, zone, cl+"/decode-mutated")
			// bytes that belong to no field must not matter
			m2 := append([]byte{}, b...)
			covered := make([]bool, 64)
			covered[0], covered[1] = true, true
			for _, l := range leaves(fs) {
				if mm := reOffset.FindStringSubmatch(l.F.Tag); mm != nil {
					var off int
					fmt.Sscanf(mm[1], "%d", &off)
					if k := kindByText(l.F.Text); k != nil {
						for j := off; j < off+k.Width && j < 64; j++ {
							covered[j] = true
						}
					}
				}
			}
			for j := range m2 {
				if !covered[j] {
					m2[j] = r.Byte()
				}
			}
			c05unmarshal(s, name, t, fs, m2, zone, cl+"/decode-with-noise-outside-fields")
		}
	}
}

var lastDecoded = map[string]reflect.Value{}

func c05unmarshal(s *Sink, name string, t reflect.Type, fs []LField, buf []byte, zone, class string) {
	p := reflect.New(t)
	in := append([]byte{}, buf...)
	cl, msg := safeUnmarshal(in, p.Interface())
	vals := "[]"
	if cl == "ok" {
		vals = valsOf(p.Elem(), fs, true)
		for i := range in {
			in[i] ^= 0x5a
		}
		if after := valsOf(p.Elem(), fs, true); after != vals {
			s.Fail(map[string]any{"op": "msg-unmarshal-alias", "type": name, "buf_hex": hexs(buf)}, "decoded message changed when the input buffer was overwritten")
		}
		// the same bytes decoded into a variable that already holds the previous message of this type (a caller reusing
		// its reply struct): the result is the message on the wire, nothing of the old value shows through
		if prev, ok := lastDecoded[name]; ok && prev.Type() == p.Type() {
			cl2, _ := safeUnmarshal(append([]byte{}, buf...), prev.Interface())
			if cl2 == "ok" {
				if again := valsOf(prev.Elem(), fs, true); again != vals {
					s.Fail(map[string]any{"op": "msg-unmarshal-reused", "type": name, "buf_hex": hexs(buf), "fresh": vals, "reused": again},
						"decoding into a variable that already holds an earlier message gives a different value than decoding into a new one")
				}
			}
		}
		lastDecoded[name] = p
	}
	entryProbe(s, name, t, fs, buf, cl, vals)
	s.Add(fmt.Sprintf("CM (CMsgUnmarshal %s %s %s)", coqString(name), coqBytes(buf), coqOutcome(cl, vals)),
		map[string]any{"op": "msg-unmarshal", "type": name, "tz": zone, "buf_hex": hexs(buf), "outcome": cl, "msg": msg, "values": vals}, class,
		len(buf) == 64)
}

func c05dispatch(s *Sink, request bool, buf []byte, zone, class string) {
	var v any
	var err error
	cl := "ok"
	func() {
		defer func() {
			if rec := recover(); rec != nil {
				cl = "panic"
			}
		}()
		if request {
			v, err = messages.UnmarshalRequest(buf)
		} else {
			v, err = messages.UnmarshalResponse(buf)
		}
	}()
	payload := ""
	tname := ""
	if cl != "panic" {
		if err != nil {
			cl = "err"
		} else {
			e := reflect.ValueOf(v).Elem()
			tname = e.Type().Name()
			payload = fmt.Sprintf("(%s, %s)", coqString(tname), valsOf(e, layoutOfType(e.Type()), true))
		}
	}
	ctor := "CDispatchResp"
	if request {
		ctor = "CDispatchReq"
	}
	s.Add(fmt.Sprintf("%s %s %s", ctor, coqBytes(buf), coqOutcome(cl, payload)),
		map[string]any{"op": "dispatch", "request": request, "tz": zone, "buf_hex": hexs(buf), "outcome": cl, "type": tname}, class, len(buf) == 64)
}

func runC05(o Opts) error {
	s := NewSink("C05", o.Out, hdr05, "case05", "model_ok05", "spec_ok05")
	s.ShardSize = 500
	if o.Replay != "" {
		return c05replay(s, o.Replay)
	}
	r := NewRand(o.Seed, "C05")
	thorough := o.Tier == "thorough"

	// the translator's list of structs vs the types the harness can instantiate
	missing := []string{}
	for _, n := range genNames() {
		if _, ok := msgTypes[n]; !ok {
			missing = append(missing, n)
		}
	}
	if len(missing) > 0 {
		s.Fail(map[string]any{"op": "coverage", "structs": missing}, "message structs declared in /repo/messages are not exercised by the harness (update harness/msgtypes.go)")
	}
	names := make([]string, 0, len(msgTypes))
	for n := range msgTypes {
		names = append(names, n)
	}
	sort.Strings(names)

	zones := quickZones
	if thorough {
		zones = allZones()
	}
	s.Extra["zones"] = len(zones)
	rounds := 4
	for zi, z := range zones {
		loc, err := time.LoadLocation(z)
		if err != nil {
			continue
		}
		time.Local = loc
		per := rounds
		if zi > 0 && !thorough {
			per = 1
		}
		for _, n := range names {
			if zi > 0 && !hasTime(msgTypes[n]) {
				continue // zone-independent by construction: exercised under UTC only
			}
			c05msg(s, r, n, msgTypes[n], z, per)
		}
		// every date-bearing message decoded with its dates on the days this zone's offset changes (2015..2024)
		if zi > 0 {
			prevOff, nDays := 0, 0
			for day := time.Date(2015, 1, 1, 12, 0, 0, 0, time.UTC); day.Year() < 2025 && nDays < 8; day = day.AddDate(0, 0, 1) {
				_, off := day.In(loc).Zone()
				if off != prevOff && !(day.Year() == 2015 && day.YearDay() == 1) {
					nDays++
					for _, n := range names {
						if hasTime(msgTypes[n]) {
							c05onDay(s, r, n, msgTypes[n], z, day.Year(), int(day.Month()), day.Day())
						}
					}
				}
				prevOff = off
			}
			// and at the zone's own wall-clock readings within 100 minutes of its last four changes before 2025
			found := 0
			t := time.Date(2024, 12, 31, 0, 0, 0, 0, time.UTC)
			_, o1 := t.In(loc).Zone()
			for ; t.Year() >= 2000 && found < 4; t = t.Add(-15 * time.Minute) {
				_, o := t.In(loc).Zone()
				if o == o1 {
					continue
				}
				o1 = o
				found++
				for k := -7; k <= 6; k++ {
					w := t.Add(time.Duration(k)*15*time.Minute + 22*time.Minute + 30*time.Second).In(loc)
					n := []string{"GetStatusResponse", "GetTimeResponse", "GetEventResponse", "Event"}[(k+7)%4]
					if _, ok := msgTypes[n]; ok {
						c05at(s, r, n, msgTypes[n], z, w.Year(), int(w.Month()), w.Day(), w.Hour(), w.Minute(), w.Second(), "msg/near-offset-change")
					}
				}
			}
		}
		// round instants (as constants in code tend to be) seen from this zone: 1970-01-01, 2000-01-01, 2001-09-09 01:46:40,
		// 2038-01-19 03:14:07 UTC
		for _, u := range []int64{0, 946684800, 1000000000, 2147483647} {
			lt := time.Unix(u, 0).In(loc)
			for _, n := range names {
				if hasTime(msgTypes[n]) && (zi == 0 || n == "GetStatusResponse" || n == "GetTimeResponse" || n == "GetEventResponse" || n == "Event") {
					c05at(s, r, n, msgTypes[n], z, lt.Year(), int(lt.Month()), lt.Day(), lt.Hour(), lt.Minute(), lt.Second(), "msg/round-instants")
				}
			}
		}
		if zi == 0 {
			// dispatchers: all 256 function codes x valid/invalid protocol id; all lengths 0..128
			for code := 0; code < 256; code++ {
				for _, som := range []byte{0x17, 0x19, 0x00} {
					buf := make([]byte, 64)
					buf[0], buf[1] = som, byte(code)
					buf[4] = 1
					c05dispatch(s, true, buf, z, "dispatch/all-codes")
					c05dispatch(s, false, buf, z, "dispatch/all-codes")
				}
			}
			for ln := 0; ln <= 128; ln++ {
				buf := make([]byte, ln)
				if ln > 1 {
					buf[0], buf[1] = 0x17, 0x94
				}
				c05dispatch(s, true, buf, z, "dispatch/all-lengths")
				c05dispatch(s, false, buf, z, "dispatch/all-lengths")
			}
		}
		// dispatch of real encodings and of random payloads under every zone
		for _, n := range names {
			if zi > 0 && !hasTime(msgTypes[n]) {
				continue
			}
			t := msgTypes[n]
			sv := reflect.New(t).Elem()
			fs := layoutOfType(t)
			fillValues(r, sv, fs, 0)
			if !existsLocally(sv, fs) {
				continue
			}
			if b, cl, _ := safeMarshal(sv.Interface()); cl == "ok" {
				c05dispatch(s, true, b, z, "dispatch/encoded")
				c05dispatch(s, false, b, z, "dispatch/encoded")
				rb := r.Bytes(64)
				rb[0], rb[1] = 0x17, b[1]
				c05dispatch(s, true, rb, z, "dispatch/random-payload")
				c05dispatch(s, false, rb, z, "dispatch/random-payload")
			}
		}
	}
	time.Local = time.UTC
	return s.Close()
}

func hasTime(t reflect.Type) bool {
	for _, l := range leaves(layoutOfType(t)) {
		switch l.F.Text {
		case "types.Date", "*types.Date", "types.DateTime", "*types.DateTime", "types.SystemDate", "types.SystemTime":
			return true
		}
	}
	return false
}

func c05replay(s *Sink, path string) error {
	var rp struct {
		Case struct {
			Op      string `json:"op"`
			Type    string `json:"type"`
			TZ      string `json:"tz"`
			BufHex  string `json:"buf_hex"`
			Request bool   `json:"request"`
		} `json:"case"`
	}
	b, err := os.ReadFile(path)
	if err != nil {
		return err
	}
	if err := json.Unmarshal(b, &rp); err != nil {
		return err
	}
	if loc, err := time.LoadLocation(rp.Case.TZ); err == nil && rp.Case.TZ != "" {
		time.Local = loc
	}
	buf, _ := hex.DecodeString(rp.Case.BufHex)
	switch rp.Case.Op {
	case "dispatch":
		c05dispatch(s, rp.Case.Request, buf, rp.Case.TZ, "replay")
	case "msg-unmarshal":
		t := msgTypes[rp.Case.Type]
		c05unmarshal(s, rp.Case.Type, t, layoutOfType(t), buf, rp.Case.TZ, "replay")
	default:
		r := NewRand(1, "C05-replay")
		c05msg(s, r, rp.Case.Type, msgTypes[rp.Case.Type], rp.Case.TZ, 40)
	}
	return s.Close()
}

// a valid encoding of the message with the bytes of every date field replaced by the BCD of the given day (date-times at
// noon), decoded under the current zone
func c05onDay(s *Sink, r *Rand, name string, t reflect.Type, zone string, y, m, d int) {
	c05at(s, r, name, t, zone, y, m, d, 12, 0, 0, "msg/dates-on-offset-change-day")
}

// the same with the date-times at a given time of day (system time fields too)
func c05at(s *Sink, r *Rand, name string, t reflect.Type, zone string, y, m, d, hh, mi, se int, class string) {
	fs := layoutOfType(t)
	sv := reflect.New(t).Elem()
	for try := 0; try < 5; try++ {
		fillValues(r, sv, fs, 0)
		if existsLocally(sv, fs) {
			break
		}
	}
	b, ocl, _ := safeMarshal(sv.Interface())
	if ocl != "ok" {
		return
	}
	bcd := func(v int) byte { return byte(v/10<<4 | v%10) }
	for _, l := range leaves(fs) {
		mm := reOffset.FindStringSubmatch(l.F.Tag)
		if mm == nil {
			continue
		}
		var off int
		fmt.Sscanf(mm[1], "%d", &off)
		switch strings.TrimPrefix(l.F.Text, "*") {
		case "types.Date":
			copy(b[off:], []byte{bcd(y / 100), bcd(y % 100), bcd(m), bcd(d)})
		case "types.SystemDate":
			copy(b[off:], []byte{bcd(y % 100), bcd(m), bcd(d)})
		case "types.DateTime":
			copy(b[off:], []byte{bcd(y / 100), bcd(y % 100), bcd(m), bcd(d), bcd(hh), bcd(mi), bcd(se)})
		case "types.SystemTime":
			copy(b[off:], []byte{bcd(hh), bcd(mi), bcd(se)})
		}
	}
	c05unmarshal(s, name, t, fs, b, zone, class)
}

// one string per leaf field, by what the field means (dates by civil fields, IPs in 4-byte form, header fields skipped)
func leafStrings(sv reflect.Value, fs []LField) []string {
	out := []string{}
	for _, l := range leaves(fs) {
		v := fieldAt(sv, l.Path)
		switch l.F.Text {
		case "types.MsgType", "types.SOM":
			out = append(out, "-")
		case "net.IP":
			ip := v.Interface().(net.IP)
			if ip4 := ip.To4(); ip4 != nil {
				ip = ip4
			}
			out = append(out, fmt.Sprint([]byte(ip)))
		case "types.Date", "types.DateTime", "types.SystemDate", "types.SystemTime":
			t := v.Convert(reflect.TypeOf(time.Time{})).Interface().(time.Time)
			if l.F.Text == "types.SystemTime" {
				out = append(out, t.Format("15:04:05"))
			} else if t.IsZero() {
				out = append(out, "zero")
			} else if l.F.Text == "types.DateTime" {
				out = append(out, t.Format("2006-01-02 15:04:05"))
			} else { // a date is its calendar day (the carrier's time of day is 01:00 where that day has no midnight)
				out = append(out, t.Format("2006-01-02"))
			}
		case "*types.Date", "*types.DateTime":
			if v.IsNil() {
				out = append(out, "nil")
			} else {
				t := v.Elem().Convert(reflect.TypeOf(time.Time{})).Interface().(time.Time)
				if l.F.Text == "*types.Date" {
					out = append(out, t.Format("2006-01-02"))
				} else {
					out = append(out, t.Format("2006-01-02 15:04:05"))
				}
			}
		case "*types.HHmm":
			if v.IsNil() {
				out = append(out, "nil")
			} else {
				out = append(out, fmt.Sprint(v.Elem().Interface()))
			}
		default:
			out = append(out, fmt.Sprint(v.Interface()))
		}
	}
	return out
}

// the codec's other entry points against Unmarshal (Model/CodecEntry.v defines them through `unmarshal`): UnmarshalAs and
// UnmarshalArrayElement give Unmarshal's outcome and values for the same bytes; UnmarshalArray over the last few datagrams
// of this type gives exactly their individual values in order when all decode, and fails when one of them fails
type entryCase struct {
	buf  []byte
	cl   string
	vals string
}

var entryWindow = map[reflect.Type][]entryCase{}

func entryProbe(s *Sink, name string, t reflect.Type, fs []LField, buf []byte, cl, vals string) {
	if cl == "panic" {
		return
	}
	one := func(what string, f func() (any, error)) {
		var v any
		var err error
		c := "ok"
		func() {
			defer func() {
				if rec := recover(); rec != nil {
					c = "panic"
				}
			}()
			v, err = f()
		}()
		if c == "ok" && err != nil {
			c = "err"
		}
		got := "[]"
		if c == "ok" {
			rv := reflect.ValueOf(v)
			if rv.Kind() == reflect.Ptr {
				rv = rv.Elem()
			}
			if rv.Type() != t {
				c = "wrong-type " + rv.Type().String()
			} else {
				cp := reflect.New(t).Elem()
				cp.Set(rv)
				got = valsOf(cp, fs, true)
			}
		}
		if c != cl || got != vals {
			s.Fail(map[string]any{"op": "entry-" + what, "type": name, "buf_hex": hexs(buf), "unmarshal": cl, "unmarshal_values": vals, what: c, what + "_values": got},
				what+" disagrees with Unmarshal on the same bytes")
		}
	}
	one("UnmarshalAs", func() (any, error) { return codec.UnmarshalAs(append([]byte{}, buf...), reflect.New(t).Interface()) })
	one("UnmarshalAsValue", func() (any, error) { return codec.UnmarshalAs(append([]byte{}, buf...), reflect.New(t).Elem().Interface()) })
	one("UnmarshalArrayElement", func() (any, error) {
		return codec.UnmarshalArrayElement(append([]byte{}, buf...), reflect.New(reflect.SliceOf(t)).Interface())
	})

	w := append(entryWindow[t], entryCase{append([]byte{}, buf...), cl, vals})
	if len(w) > 4 {
		w = w[len(w)-4:]
	}
	entryWindow[t] = w
	runList := func(sub []entryCase) {
		var bufs [][]byte
		want := "ok"
		for _, e := range sub {
			bufs = append(bufs, append([]byte{}, e.buf...))
			if e.cl != "ok" {
				want = "err"
			}
		}
		arr := reflect.New(reflect.SliceOf(t))
		// a destination that already holds elements: the result replaces them
		arr.Elem().Set(reflect.MakeSlice(reflect.SliceOf(t), 2, 3))
		c := "ok"
		func() {
			defer func() {
				if rec := recover(); rec != nil {
					c = "panic"
				}
			}()
			if err := codec.UnmarshalArray(bufs, arr.Interface()); err != nil {
				c = "err"
			}
		}()
		var got, exp []string
		if c == "ok" {
			for i := 0; i < arr.Elem().Len(); i++ {
				got = append(got, valsOf(arr.Elem().Index(i), fs, true))
			}
		}
		if want == "ok" {
			for _, e := range sub {
				exp = append(exp, e.vals)
			}
		}
		if c != want || strings.Join(got, ";") != strings.Join(exp, ";") {
			var hx []string
			for _, e := range sub {
				hx = append(hx, hexs(e.buf))
			}
			s.Fail(map[string]any{"op": "entry-UnmarshalArray", "type": name, "bufs_hex": hx, "want": want, "want_values": exp, "got": c, "got_values": got},
				"UnmarshalArray is not the element-wise Unmarshal of its datagrams, in order, failing iff one of them fails")
		}
	}
	runList(nil)
	runList(w)
	if cl == "ok" && len(buf) == 64 {
		// the same type's 'no value' datagram (header and serial number kept, everything else zero) between two copies of
		// this one: what one element decodes to must not depend on its neighbours
		blank := make([]byte, 64)
		copy(blank, buf[:8])
		p := reflect.New(t)
		bc, _ := safeUnmarshal(append([]byte{}, blank...), p.Interface())
		if bc != "panic" {
			bv := "[]"
			if bc == "ok" {
				bv = valsOf(p.Elem(), fs, true)
			}
			cur := entryCase{buf, cl, vals}
			runList([]entryCase{cur, {blank, bc, bv}, cur})
		}
	}
}
