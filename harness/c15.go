package main

import (
	"fmt"
	"net/netip"
	"strings"

	"github.com/uhppoted/uhppote-core/types"
)

func init() { commands["C15"] = runC15 }

const hdr15 = "From UV Require Import Base.Bytes Model.WireTypes Model.Addr Model.Cases15.\nOpen Scope N_scope."

var roles = []string{"RBind", "RBroadcast", "RListen", "RController"}

func parseRole(role int, s string) (netip.AddrPort, error) {
	switch role {
	case 0:
		a, err := types.ParseBindAddr(s)
		return a.AddrPort, err
	case 1:
		a, err := types.ParseBroadcastAddr(s)
		return a.AddrPort, err
	case 2:
		a, err := types.ParseListenAddr(s)
		return a.AddrPort, err
	}
	a, err := types.ParseControllerAddr(s)
	return a.AddrPort, err
}

func formatRole(role int, ap netip.AddrPort) string {
	switch role {
	case 0:
		return types.BindAddr{AddrPort: ap}.String()
	case 1:
		return types.BroadcastAddr{AddrPort: ap}.String()
	case 2:
		return types.ListenAddr{AddrPort: ap}.String()
	}
	return types.ControllerAddr{AddrPort: ap}.String()
}

func c15parse(s *Sink, role int, str string, class string) {
	var ap netip.AddrPort
	var err error
	panicked := false
	func() {
		defer func() {
			if r := recover(); r != nil {
				panicked = true
			}
		}()
		ap, err = parseRole(role, str)
	}()
	obs := "None"
	if panicked {
		s.Fail(map[string]any{"op": "parse", "role": roles[role], "s": str}, "address parser panicked")
		return
	}
	if err == nil {
		obs = fmt.Sprintf("(Some (%s, %d))", coqBytes(ap.Addr().AsSlice()), ap.Port())
	}
	s.Add(fmt.Sprintf("CParse %s %s %s", roles[role], coqBytes([]byte(str)), obs),
		map[string]any{"op": "parse", "role": roles[role], "s": str, "ok": err == nil, "result": ap.String()}, class, len(str) > 0)
}

func runC15(o Opts) error {
	s := NewSink("C15", o.Out, hdr15, "case15", "model_ok15", "spec_ok15")
	s.ShardSize = 1500
	if o.Replay != "" {
		if err := s.LoadReplay(o.Replay, []string{"op", "role", "s", "addr", "port"}); err != nil {
			return err
		}
	}
	r := NewRand(o.Seed, "C15")
	thorough := o.Tier == "thorough"
	octets := []string{"0", "1", "9", "10", "99", "100", "199", "200", "249", "250", "255", "256", "260", "300", "999", "00", "01", "010", ""}
	ports := []string{"", ":0", ":1", ":9", ":10", ":80", ":59999", ":60000", ":60001", ":65535", ":65536", ":99999", ":100000", ":00080", ":", ":x", ":+80", ":-1"}
	for role := 0; role < 4; role++ {
		// canonical forms and near misses: each octet position x each port
		for pos := 0; pos < 4; pos++ {
			for _, oc := range octets {
				q := []string{"192", "168", "1", "100"}
				q[pos] = oc
				for _, p := range ports {
					if !thorough && r.Intn(3) != 0 && p != "" && p != ":60000" && p != ":0" {
						continue
					}
					c15parse(s, role, q[0]+"."+q[1]+"."+q[2]+"."+q[3]+p, "canonical-and-near")
				}
			}
		}
		// all strings over a small alphabet
		alpha := []byte("019.:a")
		L := 4
		if thorough {
			L = 6
		}
		var rec func(prefix []byte)
		rec = func(prefix []byte) {
			c15parse(s, role, string(prefix), "exhaustive-small-alphabet")
			if len(prefix) == L {
				return
			}
			for _, c := range alpha {
				rec(append(append([]byte{}, prefix...), c))
			}
		}
		rec(nil)
		// quads embedded in longer strings over the same alphabet (so that both regular expressions fire)
		for _, pre := range []string{"", "x", " ", "1", "1.", ":", "a:"} {
			for _, post := range []string{"", "x", " ", ".", ".5", ":", ":x", ":8", ":80x", ":80:90", "1", ":60000 "} {
				c15parse(s, role, pre+"10.0.0.1"+post, "embedded-quad")
				c15parse(s, role, pre+"0.0.0.0"+post, "embedded-quad")
			}
		}
		for _, v6 := range []string{"::1", "[::1]:60000", "fe80::1%eth0", "[1.2.3.4]:80", "::ffff:1.2.3.4", "[::ffff:1.2.3.4]:80", "a:1.2.3.4:5"} {
			c15parse(s, role, v6, "ipv6-looking")
		}
		// well-formed IPv6 texts (which netip itself would accept): groups of decimal digits or hex, '::' anywhere,
		// with and without brackets and port; none of them is an IPv4[:port]
		nv6 := 150
		if thorough {
			nv6 = 5000
		}
		for i := 0; i < nv6; i++ {
			ng := 8
			gap := -1
			if r.Intn(4) != 0 {
				ng = 1 + r.Intn(7)
				gap = r.Intn(ng + 1)
			}
			groups := make([]string, ng)
			for g := range groups {
				switch r.Intn(3) {
				case 0:
					groups[g] = fmt.Sprintf("%d", r.Intn(256))
				case 1:
					groups[g] = fmt.Sprintf("%d", []int{0, 1, 2, 3, 4, 10, 100, 255, 999, 1234, 5678, 9999}[r.Intn(12)])
				default:
					groups[g] = fmt.Sprintf("%x", r.Intn(65536))
				}
			}
			txt := strings.Join(groups, ":")
			if gap >= 0 {
				txt = strings.Join(groups[:gap], ":") + "::" + strings.Join(groups[gap:], ":")
			}
			if _, err := netip.ParseAddr(txt); err != nil {
				continue
			}
			_ = i
			if i%4 == 3 { // with a zone: plain, and with dots in it that do not form a dotted quad
				txt += "%" + []string{"eth0", "a.b.c.d", "eth0.1.2.", "...", "1.2.3", "en0.100", "x.y.z.w.v", "1.2.3.x"}[r.Intn(8)]
			}
			switch r.Intn(3) {
			case 0:
				c15parse(s, role, txt, "ipv6-well-formed")
			case 1:
				c15parse(s, role, fmt.Sprintf("[%s]:%d", txt, []int{0, 1, 60000, 60001, 65535}[r.Intn(5)]), "ipv6-well-formed")
			case 2:
				c15parse(s, role, txt+fmt.Sprintf(":%d", []int{0, 60000, 60001}[r.Intn(3)]), "ipv6-well-formed")
			}
		}
		// every string literal of the library's own source, as an address text
		for _, lit := range sourceDict().Strings {
			if len(lit) <= 24 {
				c15parse(s, role, lit, "source-dictionary")
			}
		}
		// mutations of valid addresses
		n := 300
		if thorough {
			n = 20000
		}
		for i := 0; i < n; i++ {
			base := fmt.Sprintf("%d.%d.%d.%d", r.Intn(256), r.Intn(256), r.Intn(256), r.Intn(256))
			if r.Intn(4) != 0 {
				base += fmt.Sprintf(":%d", []int{0, 1, 60000, 60001, 65535, r.Intn(65536)}[r.Intn(6)])
			}
			b := []byte(base)
			switch r.Intn(5) {
			case 0: // unchanged
			case 1:
				b[r.Intn(len(b))] = "0123456789.:a "[r.Intn(14)]
			case 2:
				k := r.Intn(len(b))
				b = append(b[:k], b[k+1:]...)
			case 3:
				k := r.Intn(len(b) + 1)
				b = append(b[:k], append([]byte{"0123456789.:"[r.Intn(12)]}, b[k:]...)...)
			case 4:
				b = append(b, "0123456789.:x"[r.Intn(13)])
			}
			c15parse(s, role, string(b), "mutated-valid")
		}
		// formatting, and parse(format(x)) = x for accepted x
		for i := 0; i < 200; i++ {
			a := [4]byte{r.Byte(), r.Byte(), r.Byte(), r.Byte()}
			if i%4 == 0 {
				a = [4]byte{byte(r.Intn(3)) * 100, 0, 255, byte(r.Intn(11))}
			}
			special := [][4]byte{{0, 0, 0, 0}, {255, 255, 255, 255}, {0, 0, 0, 1}, {127, 0, 0, 1}, {224, 0, 0, 1}, {169, 254, 0, 0}}
			if i < 8*len(special) { // the addresses library code tends to special-case, with every boundary port
				a = special[i/8]
			}
			p := uint16([]int{0, 1, 9, 10, 60000, 60001, 65535, r.Intn(65536)}[r.Intn(8)])
			if i < 8*len(special) {
				p = uint16([]int{0, 1, 9, 10, 60000, 60001, 65535, 54321}[i%8])
			}
			ap := netip.AddrPortFrom(netip.AddrFrom4(a), p)
			str := formatRole(role, ap)
			s.Add(fmt.Sprintf("CFormat %s %s %d %s", roles[role], coqBytes(a[:]), p, coqBytes([]byte(str))),
				map[string]any{"op": "format", "role": roles[role], "addr": ap.Addr().String(), "port": p, "text": str}, "format", true)
			if _, perr := parseRole(role, ap.String()); perr == nil { // an address the role accepts
				back, err := parseRole(role, str)
				if err != nil || back != ap {
					s.Fail(map[string]any{"op": "format", "role": roles[role], "addr": ap.Addr().String(), "port": p, "text": str},
						"formatting an accepted address and parsing it again does not return the same address and port")
				}
			}
			if str != "" {
				c15parse(s, role, str, "parse-of-format")
			}
		}
	}
	// Set on a variable that already holds an address: the result is the parse of the new text (Go-side probe)
	setTexts := []string{"192.168.1.100", "192.168.1.100:12345", "192.168.1.100:60000", "192.168.1.100:60001", "10.0.0.1:1", "10.0.0.1", "0.0.0.0:0", "192.168.1.100:0"}
	for _, a := range setTexts {
		for _, b := range setTexts {
			{
				var v types.ControllerAddr
				want, werr := types.ParseControllerAddr(b)
				if v.Set(a) == nil && werr == nil && want.IsValid() {
					if err := v.Set(b); err != nil || v != want {
						s.Fail(map[string]any{"op": "set-sequence", "role": "controller", "first": a, "second": b, "got": v.String(), "want": want.String()}, "ControllerAddr.Set after an earlier Set does not yield the parse of the new text")
					}
				}
			}
			{
				var v types.BindAddr
				want, werr := types.ParseBindAddr(b)
				if v.Set(a) == nil && werr == nil {
					if err := v.Set(b); err != nil || v != want {
						s.Fail(map[string]any{"op": "set-sequence", "role": "bind", "first": a, "second": b, "got": v.String(), "want": want.String()}, "BindAddr.Set after an earlier Set does not yield the parse of the new text")
					}
				}
			}
			{
				var v types.BroadcastAddr
				want, werr := types.ParseBroadcastAddr(b)
				if v.Set(a) == nil && werr == nil {
					if err := v.Set(b); err != nil || v != want {
						s.Fail(map[string]any{"op": "set-sequence", "role": "broadcast", "first": a, "second": b, "got": v.String(), "want": want.String()}, "BroadcastAddr.Set after an earlier Set does not yield the parse of the new text")
					}
				}
			}
			{
				var v types.ListenAddr
				want, werr := types.ParseListenAddr(b)
				if v.Set(a) == nil && werr == nil {
					if err := v.Set(b); err != nil || v != want {
						s.Fail(map[string]any{"op": "set-sequence", "role": "listen", "first": a, "second": b, "got": v.String(), "want": want.String()}, "ListenAddr.Set after an earlier Set does not yield the parse of the new text")
					}
				}
			}
		}
	}
	return s.Close()
}
