package main

import (
	"os"
	"path/filepath"
	"sort"
	"strings"
	"time"
)

// every IANA zone name of the installed tzdata that time.LoadLocation accepts
func allZones() []string {
	root := "/usr/share/zoneinfo"
	var out []string
	filepath.Walk(root, func(p string, info os.FileInfo, err error) error {
		if err != nil || info.IsDir() {
			return nil
		}
		name := strings.TrimPrefix(p, root+"/")
		if strings.HasPrefix(name, "posix/") || strings.HasPrefix(name, "right/") || strings.Contains(name, ".") || name == "leapseconds" || name == "posixrules" || name == "localtime" || name == "Factory" {
			return nil
		}
		if _, err := time.LoadLocation(name); err == nil {
			out = append(out, name)
		}
		return nil
	})
	sort.Strings(out)
	return out
}
