package main

import (
	"bytes"
	"encoding/binary"
	"encoding/json"
	"fmt"
	"math/big"
	"net/netip"
	"reflect"
	"sort"
	"strings"
	"time"

	"github.com/uhppoted/uhppote-core/types"
)

// C14: JSON and text forms of the public value types, through the real encoding/json, under several process zones.

func init() { commands["C14"] = runC14 }

const hdr14 = "From UV Require Import Base.Bytes Model.WireTypes Model.Addr Model.TextForms Model.Cases14.\nOpen Scope N_scope."

// ---- JSON text -> Coq json tree ----
func jsonCoq(v any) string {
	switch x := v.(type) {
	case nil:
		return "JNull"
	case bool:
		return "(JBool " + coqBool(x) + ")"
	case string:
		return "(JStr " + coqBytes([]byte(x)) + ")"
	case json.Number:
		if i, err := x.Int64(); err == nil {
			if i < 0 {
				return fmt.Sprintf("(JNum (%d)%%Z)", i)
			}
			return fmt.Sprintf("(JNum %d%%Z)", i)
		}
		if t := x.String(); allDigits(strings.TrimPrefix(t, "-")) { // an integer beyond 64 bits: Coq's Z takes it as it is
			if strings.HasPrefix(t, "-") {
				return "(JNum (" + t + ")%Z)"
			}
			return "(JNum " + t + "%Z)"
		}
		return "(JStr " + coqBytes([]byte(x.String())) + ")"
	case []any:
		parts := []string{}
		for _, e := range x {
			parts = append(parts, jsonCoq(e))
		}
		return "(JArr " + coqList(parts) + ")"
	case map[string]any:
		keys := []string{}
		for k := range x {
			keys = append(keys, k)
		}
		sort.Strings(keys)
		parts := []string{}
		for _, k := range keys {
			parts = append(parts, "("+coqBytes([]byte(k))+", "+jsonCoq(x[k])+")")
		}
		return "(JObj " + coqList(parts) + ")"
	}
	return "JNull"
}

func parseJSONTree(b []byte) (string, bool) {
	dec := json.NewDecoder(strings.NewReader(string(b)))
	dec.UseNumber()
	var v any
	if err := dec.Decode(&v); err != nil {
		return "", false
	}
	return jsonCoq(v), true
}

// ---- canonical value trees (cv) ----
func cvZ(xs ...int) string {
	parts := []string{}
	for _, x := range xs {
		if x < 0 {
			parts = append(parts, fmt.Sprintf("VZ (%d)%%Z", x))
		} else {
			parts = append(parts, fmt.Sprintf("VZ %d%%Z", x))
		}
	}
	return "(VL [" + strings.Join(parts, "; ") + "])"
}
func cvN(x int64) string {
	if x < 0 {
		return fmt.Sprintf("(VZ (%d)%%Z)", x)
	}
	return fmt.Sprintf("(VZ %d%%Z)", x)
}

func cvDate(d types.Date) string {
	t := time.Time(d)
	return cvZ(t.Year(), int(t.Month()), t.Day())
}
func cvDateTime(d types.DateTime) string {
	t := time.Time(d)
	return cvZ(t.Year(), int(t.Month()), t.Day(), t.Hour(), t.Minute(), t.Second())
}
func cvHHmm(h types.HHmm) string { a, b := hhmmFields(h); return cvZ(a, b) }
func cvAddr(ap netip.AddrPort) string {
	return fmt.Sprintf("(VL [VS %s; VZ %d%%Z])", coqBytes(ap.Addr().AsSlice()), ap.Port())
}
func cvWeekdays(w types.Weekdays) string {
	parts := []string{}
	for _, d := range []time.Weekday{time.Monday, time.Tuesday, time.Wednesday, time.Thursday, time.Friday, time.Saturday, time.Sunday} {
		parts = append(parts, fmt.Sprintf("VZ %d%%Z", b2i(w[d])))
	}
	return "(VL [" + strings.Join(parts, "; ") + "])"
}
func cvSegments(s types.Segments) string {
	parts := []string{}
	for _, k := range []uint8{1, 2, 3} {
		sg, ok := s[k]
		parts = append(parts, fmt.Sprintf("VL [VZ %d%%Z; VL [%s; %s]]", b2i(ok), cvHHmm(sg.Start), cvHHmm(sg.End)))
	}
	return "(VL [" + strings.Join(parts, "; ") + "])"
}

func cvCard(c types.Card) string {
	return fmt.Sprintf("(VL [%s; %s; %s; %s; %s])", cvN(int64(c.CardNumber)), cvDate(c.From), cvDate(c.To), cvZ(int(c.Doors[1]), int(c.Doors[2]), int(c.Doors[3]), int(c.Doors[4])), cvN(int64(c.PIN)))
}
func cvProfile(p types.TimeProfile) string {
	return fmt.Sprintf("(VL [%s; %s; %s; %s; %s; %s])", cvN(int64(p.ID)), cvN(int64(p.LinkedProfileID)), cvDate(p.From), cvDate(p.To), cvWeekdays(p.Weekdays), cvSegments(p.Segments))
}
func cvTask(t types.Task) string {
	return fmt.Sprintf("(VL [%s; %s; %s; %s; %s; %s; %s])", cvN(int64(t.Task)), cvN(int64(t.Door)), cvDate(t.From), cvDate(t.To), cvWeekdays(t.Weekdays), cvHHmm(t.Start), cvN(int64(t.Cards)))
}

type tyInfo struct {
	coq   string
	fresh func() any         // pointer to a fresh zero value
	canon func(p any) string // cv of *p
}

func tyTable() map[string]tyInfo {
	return map[string]tyInfo{
		"Date":     {"TyDate", func() any { return new(types.Date) }, func(p any) string { return cvDate(*p.(*types.Date)) }},
		"DateTime": {"TyDateTime", func() any { return new(types.DateTime) }, func(p any) string { return cvDateTime(*p.(*types.DateTime)) }},
		"HHmm":     {"TyHHmm", func() any { return new(types.HHmm) }, func(p any) string { return cvHHmm(*p.(*types.HHmm)) }},
		"PIN":      {"TyPIN", func() any { return new(types.PIN) }, func(p any) string { return cvN(int64(*p.(*types.PIN))) }},
		"Control":  {"TyControl", func() any { return new(types.ControlState) }, func(p any) string { return cvN(int64(*p.(*types.ControlState))) }},
		"TaskType": {"TyTaskType", func() any { return new(types.TaskType) }, func(p any) string { return cvN(int64(*p.(*types.TaskType))) }},
		"Version":  {"TyVersion", func() any { return new(types.Version) }, func(p any) string { return cvN(int64(*p.(*types.Version))) }},
		"MAC":      {"TyMAC", func() any { return new(types.MacAddress) }, func(p any) string { return "(VS " + coqBytes(*p.(*types.MacAddress)) + ")" }},
		"Bind":     {"(TyAddr RBind)", func() any { return new(types.BindAddr) }, func(p any) string { return cvAddr(p.(*types.BindAddr).AddrPort) }},
		"Bcast":    {"(TyAddr RBroadcast)", func() any { return new(types.BroadcastAddr) }, func(p any) string { return cvAddr(p.(*types.BroadcastAddr).AddrPort) }},
		"Listen":   {"(TyAddr RListen)", func() any { return new(types.ListenAddr) }, func(p any) string { return cvAddr(p.(*types.ListenAddr).AddrPort) }},
		"Ctrl":     {"(TyAddr RController)", func() any { return new(types.ControllerAddr) }, func(p any) string { return cvAddr(p.(*types.ControllerAddr).AddrPort) }},
		"Weekdays": {"TyWeekdays", func() any { return new(types.Weekdays) }, func(p any) string { return cvWeekdays(*p.(*types.Weekdays)) }},
		"Card":     {"TyCard", func() any { return new(types.Card) }, func(p any) string { return cvCard(*p.(*types.Card)) }},
		"Profile":  {"TyProfile", func() any { return new(types.TimeProfile) }, func(p any) string { return cvProfile(*p.(*types.TimeProfile)) }},
		"Task":     {"TyTask", func() any { return new(types.Task) }, func(p any) string { return cvTask(*p.(*types.Task)) }},
		"Segments": {"TySegments", func() any { return new(types.Segments) }, func(p any) string { return cvSegments(*p.(*types.Segments)) }},
	}
}

// decode JSON text into a fresh zero-valued variable of the type; recover panics
func decodeFresh(ti tyInfo, text []byte) (cv string, ok bool, panicked bool) {
	defer func() {
		if r := recover(); r != nil {
			cv, ok, panicked = "", false, true
		}
	}()
	p := ti.fresh()
	if err := json.Unmarshal(text, p); err != nil {
		return "", false, false
	}
	cv = ti.canon(p)
	if len(kept) < 4000 {
		kept = append(kept, keptValue{ti, p, cv, string(text)})
	}
	return cv, true, false
}

// every decoded value is kept and canonicalised again at the end of the run: a value must not change because OTHER values
// were decoded after it (shared default maps, pooled buffers)
type keptValue struct {
	ti   tyInfo
	p    any
	cv   string
	text string
}

var kept []keptValue

func recheckKept(s *Sink) {
	changed := 0
	for _, k := range kept {
		now := ""
		func() {
			defer func() {
				if r := recover(); r != nil {
					now = "panic"
				}
			}()
			now = k.ti.canon(k.p)
		}()
		if now != k.cv {
			changed++
			if changed <= 3 {
				s.Fail(map[string]any{"op": "later-decodes", "type": k.ti.coq, "json": k.text, "decoded": k.cv, "now": now}, "a decoded value changed after other values were decoded")
			}
		}
	}
	s.Extra["decoded_values_rechecked_at_end"] = len(kept)
	kept = nil
}

func c14round(s *Sink, tyName string, value any, cvv string, aux string, zone string, class string) {
	ti := tyTable()[tyName]
	var text []byte
	var err error
	panicked := false
	func() {
		defer func() {
			if r := recover(); r != nil {
				panicked = true
			}
		}()
		text, err = json.Marshal(value)
	}()
	js := map[string]any{"op": "round", "type": tyName, "tz": zone, "value": cvv, "json": string(text)}
	if panicked || err != nil {
		s.Fail(js, "json.Marshal failed or panicked")
		return
	}
	tree, _ := parseJSONTree(text)
	back, ok, pnk := decodeFresh(ti, text)
	if pnk {
		s.Fail(js, "json.Unmarshal into a fresh zero value panicked")
		return
	}
	b := "None"
	if ok {
		b = "(Some " + back + ")"
	}
	js["back"] = b
	if class == "round/segments-gap" {
		js["symptom"] = "other"
		if sg, isSeg := value.(types.Segments); isSeg && ok {
			shifted := types.Segments{}
			next := uint8(1)
			for _, k := range []uint8{1, 2, 3} {
				if x, present := sg[k]; present {
					shifted[next] = x
					next++
				}
			}
			if back == cvSegments(shifted) {
				js["symptom"] = "segments after the gap shift down"
			}
		}
	}
	s.Add(fmt.Sprintf("CRound %s %s %s %s %s", ti.coq, cvv, coqBytes([]byte(aux)), tree, b), js, class, true)
}

func c14of(s *Sink, tyName string, text string, zone string, class string) {
	ti := tyTable()[tyName]
	tree, ok := parseJSONTree([]byte(text))
	if !ok {
		return
	}
	back, dok, pnk := decodeFresh(ti, []byte(text))
	js := map[string]any{"op": "of", "type": tyName, "tz": zone, "json": text}
	if pnk {
		s.Fail(js, "json.Unmarshal into a fresh zero value panicked")
		return
	}
	b := "None"
	if dok {
		b = "(Some " + back + ")"
	}
	js["back"] = b
	s.Add(fmt.Sprintf("COf %s [] %s %s", ti.coq, tree, b), js, class, true)
}

func parseText(k int, str string) (b string, panicked bool) {
	var cv string
	ok := false
	func() {
		defer func() {
			if r := recover(); r != nil {
				panicked = true
			}
		}()
		switch k {
		case 0:
			if d, err := types.ParseDate(str); err == nil {
				cv, ok = cvDate(d), true
			}
		case 1:
			if h, err := types.HHmmFromString(str); err == nil && h != nil {
				cv, ok = cvHHmm(*h), true
			}
		case 2:
			if t, err := types.TimeFromString(str); err == nil && t != nil {
				x := time.Time(*t)
				cv, ok = cvZ(x.Hour(), x.Minute(), x.Second()), true
			}
		case 3:
			var tt types.TaskType
			if v, err := tt.UnmarshalTSV(str); err == nil {
				cv, ok = cvN(int64(v.(types.TaskType))), true
			}
		case 4:
			if f, err := types.CardFormatFromString(str); err == nil {
				cv, ok = cvN(int64(f)), true
			}
		}
	}()
	if ok {
		return "(Some " + cv + ")", panicked
	}
	return "None", panicked
}

func c14text(s *Sink, k int, str string, class string) {
	b, p := parseText(k, str)
	if p {
		s.Fail(map[string]any{"op": "text", "parser": k, "json": str}, "text parser panicked")
		return
	}
	s.Add(fmt.Sprintf("CText %d %s %s", k, coqBytes([]byte(str)), b), map[string]any{"op": "text", "parser": k, "json": str, "back": b}, class, len(str) > 0)
}

// String() of an in-domain value fed back to its parser
func c14textRound(s *Sink, k int, cvv string, str string, class string) {
	b, p := parseText(k, str)
	js := map[string]any{"op": "textround", "parser": k, "value": cvv, "json": str, "back": b}
	if p {
		s.Fail(js, "text parser panicked on the String() of a value")
		return
	}
	s.Add(fmt.Sprintf("CTextRound %d %s %s %s", k, cvv, coqBytes([]byte(str)), b), js, class, true)
}

// composites: encode, decode into a fresh zero value, compare observationally (no model)
func c14composite(s *Sink, name string, v any, fresh any, zone string) {
	defer func() {
		if r := recover(); r != nil {
			s.Fail(map[string]any{"op": "composite", "type": name, "tz": zone, "json": fmt.Sprintf("%+v", v)}, "JSON round trip of a composite value panicked")
		}
	}()
	text, err := json.Marshal(v)
	if err != nil {
		s.Fail(map[string]any{"op": "composite", "type": name, "tz": zone}, "json.Marshal failed: "+err.Error())
		return
	}
	if err := json.Unmarshal(text, fresh); err != nil {
		s.Fail(map[string]any{"op": "composite", "type": name, "tz": zone, "json": string(text)}, "decoding the encoding of an in-domain value failed: "+err.Error())
		return
	}
	a := fmt.Sprintf("%v", v)
	b := fmt.Sprintf("%v", reflect.ValueOf(fresh).Elem().Interface())
	if a != b {
		s.Fail(map[string]any{"op": "composite", "type": name, "tz": zone, "json": string(text), "before": a, "after": b}, "decoded value differs from the encoded one")
	}
}

func runC14(o Opts) error {
	s := NewSink("C14", o.Out, hdr14, "case14", "model_ok14", "spec_ok14")
	s.ShardSize = 400
	if o.Replay != "" {
		if err := s.LoadReplay(o.Replay, []string{"op", "type", "tz", "json", "value", "parser"}); err != nil {
			return err
		}
	}
	r := NewRand(o.Seed, "C14")
	thorough := o.Tier == "thorough"
	zones := []string{"UTC", "Asia/Kathmandu", "America/Santiago", "Europe/London", "Australia/Lord_Howe", "Asia/Tehran", "America/New_York", "Pacific/Chatham", "Etc/GMT-14", "Africa/Casablanca", "Pacific/Marquesas", "Australia/Eucla", "America/St_Johns", "America/Sao_Paulo"}
	if thorough {
		zones = allZones()
	}
	n := 60
	if thorough {
		n = 25
	}
	composites := 0
	repeated := 0
	for zi, z := range zones {
		loc, err := time.LoadLocation(z)
		if err != nil {
			continue
		}
		time.Local = loc
		// the days on which the zone's offset changes (2008..2025), and their neighbours: dates and noon date-times
		prevOff := 0
		nChange := 0
		for day := time.Date(2008, 1, 1, 12, 0, 0, 0, time.UTC); day.Year() < 2026 && nChange < 40; day = day.AddDate(0, 0, 1) {
			_, off := day.In(loc).Zone()
			if off != prevOff && !(day.Year() == 2008 && day.YearDay() == 1) {
				nChange++
				for _, dd := range []time.Time{day.AddDate(0, 0, -1), day} {
					y, m, d := dd.Year(), int(dd.Month()), dd.Day()
					dt := types.ToDate(y, time.Month(m), d)
					if t := time.Time(dt); t.Year() == y && int(t.Month()) == m && t.Day() == d {
						c14round(s, "Date", dt, cvZ(y, m, d), "", z, "round/date-on-offset-change-day")
						c14textRound(s, 0, cvZ(y, m, d), dt.String(), "textround/date-on-offset-change-day")
					}
					t := time.Date(y, time.Month(m), d, 12, 0, 0, 0, time.Local)
					if t.Year() == y && int(t.Month()) == m && t.Day() == d && t.Hour() == 12 { // the day may not exist at all (Pacific/Apia 2011-12-30)
						c14round(s, "DateTime", types.DateTime(t), cvZ(y, m, d, 12, 0, 0), t.Format("MST"), z, "round/datetime-on-offset-change-day")
					}
				}
			}
			if off < prevOff && !(day.Year() == 2008 && day.YearDay() == 1) && nChange <= 12 {
				// clocks went back between noon yesterday and noon today: find the instant, take the same wall-clock
				// reading 20 minutes before and (offset difference - 20 minutes) after it - the hour that happens twice
				lo, hi := day.Add(-24*time.Hour), day
				for hi.Sub(lo) > time.Second {
					mid := lo.Add(hi.Sub(lo) / 2)
					if _, o := mid.In(loc).Zone(); o == prevOff {
						lo = mid
					} else {
						hi = mid
					}
				}
				first := hi.Add(-20 * time.Minute).Truncate(time.Second).In(loc)
				second := first.Add(time.Duration(prevOff-off) * time.Second)
				if first.Format("15:04:05") == second.Format("15:04:05") && first.Format("MST") != second.Format("MST") {
					for _, t := range []time.Time{first, second} {
						b := mustJSON(types.DateTime(t))
						var x types.DateTime
						if err := json.Unmarshal(b, &x); err != nil || !time.Time(x).Equal(t) {
							s.Fail(map[string]any{"op": "repeated-hour", "type": "DateTime", "tz": z, "json": string(b), "want": t.UTC().Format(time.RFC3339), "got": time.Time(x).UTC().Format(time.RFC3339)},
								"a date-time in the hour that occurs twice when clocks go back decodes to a different instant although its zone abbreviation tells the two apart")
						}
					}
					repeated++
				}
			}
			prevOff = off
		}
		for i := 0; i < n; i++ {
			y, m, d := genYMD(r)
			dt := types.ToDate(y, time.Month(m), d)
			if t := time.Time(dt); t.Year() == y && int(t.Month()) == m && t.Day() == d {
				c14round(s, "Date", dt, cvZ(y, m, d), "", z, "round/date")
				c14textRound(s, 0, cvZ(y, m, d), dt.String(), "textround/date")
			}
			h, mi, se := r.Intn(24), r.Intn(60), r.Intn(60)
			t := time.Date(y, time.Month(m), d, h, mi, se, 0, time.Local)
			if t.Year() == y && int(t.Month()) == m && t.Day() == d && t.Hour() == h && t.Minute() == mi {
				// skip the repeated hour of a clock change when both readings carry the same abbreviation (Go cannot tell them apart)
				c14round(s, "DateTime", types.DateTime(t), cvZ(y, m, d, h, mi, se), t.Format("MST"), z, "round/datetime")
				if back, ok, _ := decodeFresh(tyTable()["DateTime"], mustJSON(types.DateTime(t))); ok && back == cvZ(y, m, d, h, mi, se) {
					var x types.DateTime
					json.Unmarshal(mustJSON(types.DateTime(t)), &x)
					if !time.Time(x).Equal(t) {
						u2 := time.Time(x)
						if !(u2.Format("MST") == t.Format("MST") && u2.Format("15:04:05") == t.Format("15:04:05")) {
							s.Fail(map[string]any{"op": "round", "type": "DateTime", "tz": z, "json": string(mustJSON(types.DateTime(t)))}, "decoded date-time is a different instant")
						}
					}
				}
			}
			if zi == 0 || i < 4 {
				card := types.Card{CardNumber: genCardNo(r), From: dt, To: types.ToDate(y, time.Month(m), 28), Doors: map[uint8]uint8{1: r.Byte(), 2: 0, 3: 1, 4: r.Byte()}, PIN: types.PIN([]int{0, 1, 999999, r.Intn(1000000)}[r.Intn(4)])}
				c14composite(s, "Card", card, new(types.Card), z)
				w, _ := genWeekdays(r)
				if w == nil {
					w = types.Weekdays{}
				}
				h1, m1 := genHM(r, false)
				segs := types.Segments{1: {Start: types.NewHHmm(h1, m1), End: types.NewHHmm(h1, m1)}, 2: {}, 3: {Start: types.NewHHmm(8, 30), End: types.NewHHmm(17, 0)}}
				full := types.Weekdays{}
				for _, dd := range []time.Weekday{0, 1, 2, 3, 4, 5, 6} {
					full[dd] = w[dd]
				}
				from := dt
				if i%5 == 4 {
					from = types.Date{} // profiles and tasks may carry the zero date
				}
				to := dt // single-day ranges, and ranges to the 28th of the month
				if i%3 == 1 && d <= 28 {
					if t28 := types.ToDate(y, time.Month(m), 28); time.Time(t28).Day() == 28 {
						to = t28
					}
				}
				prof := types.TimeProfile{ID: 2 + genU8(r)%250, LinkedProfileID: []uint8{0, genU8(r)}[r.Intn(2)], From: from, To: to, Weekdays: full, Segments: segs}
				c14composite(s, "TimeProfile", prof, new(types.TimeProfile), z)
				task := types.Task{Task: types.TaskType(r.Intn(13)), Door: []uint8{0, 1, 4, genU8(r)}[r.Intn(4)], From: from, To: to, Weekdays: full, Start: types.NewHHmm(h1, m1), Cards: []uint8{0, genU8(r)}[r.Intn(2)]}
				c14composite(s, "Task", task, new(types.Task), z)
				if tc := time.Time(card.To); tc.Day() == 28 && int(tc.Month()) == m { // dates that exist as days in this zone
					c14round(s, "Card", card, cvCard(card), "", z, "round/card")
				}
				c14round(s, "Profile", prof, cvProfile(prof), "", z, "round/time-profile")
				c14round(s, "Task", task, cvTask(task), "", z, "round/task")
				composites += 3
			}
		}
		// date-time texts under every zone (02:30 on 2024-03-10 does not exist in the zones that change their clocks that
		// night: the model speaks about civil times that exist, so such a text is left out for that zone)
		for _, t := range []string{`"2024-03-10 02:30:00"`, `"2024-03-10 12:30:00 UTC"`, `"2024-03-10 12:30:00 +0545"`, `"2024-03-10 12:30:00 XYZT"`, `"2024-03-10 12:30:00 -0930"`, `"2024-03-10 12:30:00 +0845"`, `"2024-03-10 12:30:00 -03"`, `"2024-03-10 12:30:00 +14"`, `"2024-03-10 12:30:00 -0430"`, `"2024-03-10 12:30:00 +1245"`, `"2024-02-30 12:30:00"`, `"2024-03-10 24:00:00"`, `"2024-03-10 12:30:00 "`, `"2024-03-10T12:30:00"`, `""`, `null`} {
			if len(t) >= 21 {
				if ct, err := time.Parse("2006-01-02 15:04:05", t[1:20]); err == nil {
					lt := time.Date(ct.Year(), ct.Month(), ct.Day(), ct.Hour(), ct.Minute(), ct.Second(), 0, time.Local)
					if lt.Hour() != ct.Hour() || lt.Minute() != ct.Minute() || lt.Day() != ct.Day() {
						continue
					}
				}
			}
			c14of(s, "DateTime", t, z, "of/datetime")
		}
		if zi > 0 {
			continue // everything below is zone independent
		}
		for i := 0; i < 40; i++ {
			h, m := genHM(r, false)
			c14round(s, "HHmm", types.NewHHmm(h, m), cvZ(h, m), "", z, "round/hhmm")
			c14textRound(s, 1, cvZ(h, m), types.NewHHmm(h, m).String(), "textround/hhmm")
			hh, mm, ss := r.Intn(24), r.Intn(60), r.Intn(60)
			st := types.SystemTime(time.Date(2000, 1, 1, hh, mm, ss, 0, time.Local))
			c14textRound(s, 2, cvZ(hh, mm, ss), st.String(), "textround/system-time")
		}
		for _, p := range []uint32{0, 1, 9, 10, 7531, 99999, 100000, 999999, 1000000, 4294967295} {
			c14round(s, "PIN", types.PIN(p), cvN(int64(p)), "", z, "round/pin")
		}
		for st := 0; st <= 5; st++ {
			c14round(s, "Control", types.ControlState(st), cvN(int64(st)), "", z, "round/control-state")
		}
		for tt := 0; tt <= 12; tt++ {
			c14round(s, "TaskType", types.TaskType(tt), cvN(int64(tt)), "", z, "round/task-type")
			c14textRound(s, 3, cvN(int64(tt)), types.TaskType(tt).String(), "textround/task-type")
			c14text(s, 3, fmt.Sprintf("%d", tt+1), "text/TaskType.UnmarshalTSV")
		}
		for i := 0; i < 30; i++ {
			v := uint16(genU32(r))
			c14round(s, "Version", types.Version(v), cvN(int64(v)), "", z, "round/version")
			mac := r.Bytes(6)
			c14round(s, "MAC", types.MacAddress(mac), "(VS "+coqBytes(mac)+")", "", z, "round/mac")
		}
		c14textRound(s, 4, cvN(0), types.WiegandAny.String(), "textround/card-format")
		c14textRound(s, 4, cvN(1), types.Wiegand26.String(), "textround/card-format")
		for ri, nm := range []string{"Bind", "Bcast", "Listen", "Ctrl"} {
			for i := 0; i < 40; i++ {
				a := [4]byte{r.Byte(), r.Byte(), r.Byte(), r.Byte()}
				if i < 8 {
					a = [][4]byte{{0, 0, 0, 0}, {255, 255, 255, 255}, {0, 0, 0, 1}, {127, 0, 0, 1}}[i/2]
				}
				p := uint16([]int{0, 1, 9, 10, 60000, 60001, 65535, r.Intn(65536)}[r.Intn(8)])
				if i < 8 {
					p = uint16([]int{60000, 54321}[i%2])
				}
				ap := netip.AddrPortFrom(netip.AddrFrom4(a), p)
				var v any
				switch ri {
				case 0:
					v = types.BindAddr{AddrPort: ap}
				case 1:
					v = types.BroadcastAddr{AddrPort: ap}
				case 2:
					v = types.ListenAddr{AddrPort: ap}
				default:
					v = types.ControllerAddr{AddrPort: ap}
				}
				c14round(s, nm, v, cvAddr(ap), "", z, "round/address")
			}
		}
		for i := 0; i < 60; i++ {
			w, _ := genWeekdays(r)
			c14round(s, "Weekdays", w, cvWeekdays(w), "", z, "round/weekdays")
			segs := types.Segments{}
			for _, k := range []uint8{1, 2, 3} {
				if r.Intn(4) != 0 {
					h1, m1 := genHM(r, false)
					h2, m2 := genHM(r, false)
					segs[k] = types.Segment{Start: types.NewHHmm(h1, m1), End: types.NewHHmm(h2, m2)}
				}
			}
			if r.Intn(6) == 0 {
				segs = nil
			}
			// a value with a gap (an id absent below one that is present): known finding F15 - the encoding is positional and the
			// library's own tests pin the omission of absent segments, so the segments after the gap shift down on decoding
			cls := "round/segments"
			_, p1 := segs[1]
			_, p2 := segs[2]
			_, p3 := segs[3]
			if (!p1 && (p2 || p3)) || (!p2 && p3) {
				cls = "round/segments-gap"
			}
			c14round(s, "Segments", segs, cvSegments(segs), "", z, cls)
		}
		// the reject side and other texts
		q := func(x string) string { b, _ := json.Marshal(x); return string(b) }
		for _, t := range []string{"2023-02-29", "2024-02-29", "2024-02-30", "2024-13-01", "2024-00-10", "2024-04-31", "2024-12-32", "2024-1-1", "24-01-01", "2024-01-01x", "", "0000-01-01", "9999-12-31", "2024/01/01", " 2024-01-01"} {
			c14of(s, "Date", q(t), z, "of/date")
			c14text(s, 0, t, "text/ParseDate")
		}
		for _, t := range []string{"00:00", "23:59", "24:00", "24:01", "23:60", "25:00", "99:99", "9:30", "09:3", "0930", "09:30 ", "ab:cd", "", "12:34:56", "-1:00"} {
			c14of(s, "HHmm", q(t), z, "of/hhmm")
			c14text(s, 1, t, "text/HHmmFromString")
		}
		for _, t := range []string{"", "0", "000000", "999999", "1000000", "0000001", "12a4", " 1234", "-123", "12345678901"} {
			c14of(s, "PIN", q(t), z, "of/pin")
		}
		for _, t := range []string{"normally open", "normally closed", "controlled", "Normally Open", "", "unknown", "controlled ", "open"} {
			c14of(s, "Control", q(t), z, "of/control-state")
		}
		for _, t := range []string{"0", "1", "13", "14", "-1", "99999999999", `"unlock door"`, `"UNLOCK  DOOR"`, `"unlock-door"`, `"3"`, `"enable card+in password"`, `"nonsense"`, `""`, "1.5"} {
			c14of(s, "TaskType", t, z, "of/task-type")
		}
		// numerals that are in range only modulo 2^32 / 2^63 / 2^64 (a hand-rolled digit loop wraps)
		for _, base := range []string{"4294967296", "9223372036854775808", "18446744073709551616", "340282366920938463463374607431768211456"} {
			for _, k := range []int{0, 1, 7, 13, 14} {
				bn, _ := new(big.Int).SetString(base, 10)
				txt := bn.Add(bn, big.NewInt(int64(k))).String()
				c14of(s, "TaskType", txt, z, "of/task-type")
				c14of(s, "TaskType", q(txt), z, "of/task-type")
				c14text(s, 3, txt, "text/TaskType.UnmarshalTSV")
				c14of(s, "PIN", q(txt), z, "of/pin")
				c14text(s, 4, txt, "text/CardFormatFromString")
			}
		}
		for _, t := range []string{"1", "13", "0", "14", "007", "lock door", "Lock Door", "trigger  once", "", "x", "12 ", "ENABLE MORE CARDS"} {
			c14text(s, 3, t, "text/TaskType.UnmarshalTSV")
		}
		for _, t := range []string{"00:00:00", "23:59:59", "24:00:00", "12:60:00", "12:00:60", "1:2:3", "12:34", "", "12:34:56x"} {
			c14text(s, 2, t, "text/TimeFromString")
		}
		for _, t := range []string{"any", "ANY", " any ", "Wiegand-26", "wiegand26", "WIEGAND 26", "wiegand_26", "wiegand-34", "", "many", "26"} {
			c14text(s, 4, t, "text/CardFormatFromString")
		}
		for _, nm := range []string{"Bind", "Bcast", "Listen", "Ctrl"} {
			for _, t := range []string{"192.168.1.100", "192.168.1.100:0", "192.168.1.100:60000", "192.168.1.100:60001", "192.168.1.100:65536", "0.0.0.0:0", "", "garbage", "256.1.1.1:80"} {
				c14of(s, nm, q(t), z, "of/address")
			}
		}
		if z == "UTC" { // every string literal of the library's own source, as text for every parser
			for _, t := range sourceDict().Strings {
				if len(t) > 32 {
					continue
				}
				for k := 0; k < 5; k++ {
					c14text(s, k, t, "text/source-dictionary")
				}
				for _, nm := range []string{"Date", "HHmm", "PIN", "Control", "TaskType", "Weekdays"} {
					c14of(s, nm, q(t), z, "of/source-dictionary")
				}
			}
		}
		for _, t := range []string{`"Monday,Friday"`, `"monday, friday"`, `""`, `"Funday"`, `"SUNDAY"`, `null`} {
			c14of(s, "Weekdays", t, z, "of/weekdays")
		}
		for _, t := range []string{`[]`, `[{"start":"08:30","end":"17:00"}]`, `[{},{},{},{"start":"01:00"}]`, `[{"start":"25:00"}]`, `[{"end":"23:60"}]`, `null`, `[null]`, `[{"start":"08:30","end":"09:45"},{"start":"10:00","end":"10:00"},{"start":"24:00","end":"24:00"}]`} {
			c14of(s, "Segments", t, z, "of/segments")
		}
	}
	// a process zone whose clocks go forward TODAY (synthetic: a POSIX rule anchored on today's day of the year): plain
	// times of day, the skipped hour included, still parse to themselves - a time of day is not a moment of today
	if loc, hour, ok := zoneWithDSTStartingToday(); ok {
		time.Local = loc
		for _, hh := range []int{hour - 1, hour, hour + 1} {
			for _, mm := range []int{0, 30, 59} {
				c14text(s, 2, fmt.Sprintf("%02d:%02d:%02d", hh, mm, 7), "text/TimeFromString-dst-starts-today")
				c14text(s, 1, fmt.Sprintf("%02d:%02d", hh, mm), "text/HHmmFromString-dst-starts-today")
			}
		}
		s.Extra["zone_with_dst_starting_today"] = "exercised"
	}
	recheckKept(s)
	time.Local = time.UTC
	s.Extra["zones"] = len(zones)
	s.Extra["composite_round_trips"] = composites
	s.Extra["repeated_hours_checked"] = repeated
	return s.Close()
}

func mustJSON(v any) []byte { b, _ := json.Marshal(v); return b }

// a Location in which today is the day the clocks go forward by one hour at 02:00 (12:00 around the turn of the year)
func zoneWithDSTStartingToday() (*time.Location, int, bool) {
	now := time.Now().UTC()
	offset := 12 - now.Hour() // hours east of UTC, so that it is about noon there
	today := now.Add(time.Duration(offset) * time.Hour)
	start := today.YearDay() - 1
	end := (start + 180) % 365
	hour := 2
	if start == 0 || start >= 364 {
		hour = 12
	}
	rule := fmt.Sprintf("SST%dSDT,%d/%d,%d/2", -offset, start, hour, end) // POSIX TZ: offsets positive WEST of UTC
	var b bytes.Buffer
	block := func(v2 bool) {
		b.WriteString("TZif2")
		b.Write(make([]byte, 15))
		for _, n := range []uint32{0, 0, 0, 1, 1, 4} { // isutcnt, isstdcnt, leapcnt, timecnt, typecnt, charcnt
			binary.Write(&b, binary.BigEndian, n)
		}
		if v2 {
			binary.Write(&b, binary.BigEndian, int64(0))
		} else {
			binary.Write(&b, binary.BigEndian, int32(0))
		}
		b.WriteByte(0)
		binary.Write(&b, binary.BigEndian, int32(offset*3600))
		b.WriteByte(0)
		b.WriteByte(0)
		b.WriteString("SST\x00")
	}
	block(false)
	block(true)
	b.WriteString("\n" + rule + "\n")
	loc, err := time.LoadLocationFromTZData("Synthetic/DST-starts-today", b.Bytes())
	if err != nil {
		return nil, 0, false
	}
	y, m, d := time.Now().In(loc).Date()
	if hh, _, _ := time.Date(y, m, d, hour, 30, 0, 0, loc).Clock(); hh == hour { // the hour must be missing today
		return nil, 0, false
	}
	return loc, hour, true
}
